#!/bin/bash
# usage: ./run_check.sh <PROPERTY> <quick|thorough>  |  ./run_check.sh <PROPERTY> --replay <file>
cd "$(dirname "$0")" || exit 64
export CARGO_NET_OFFLINE=true
exec python3-vt -m vf.main "$@"
