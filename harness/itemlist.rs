// E2 harnesses for itemlist.rs (C13): one arbitrary operation from every reachable list of <= 3 items,
// compared with a plain vector-of-(name, tag) reference model.
use crate::verif_rt::*;

#[derive(Debug, Clone, PartialEq)]
pub(crate) struct It {
    name: String,
    tag: u8,
}

impl A2lObjectName for It {
    fn get_name(&self) -> &str {
        &self.name
    }
}

impl A2lObjectNameSetter for It {
    fn set_name(&mut self, name: String) {
        self.name = name;
    }
}

const ALPHA: &[u8] = b"abcd";

fn name_of(b: u8) -> String {
    String::from_utf8(vec![b]).unwrap()
}

fn any_name() -> u8 {
    vrt_byte_from(ALPHA)
}

/// every reachable abstract state with n <= 3 items: symbolic pairwise distinct one-byte names, built by the real push
fn pre_state() -> (ItemList<It>, Vec<(u8, u8)>) {
    let n = vrt_choice(4) as usize;
    let mut model: Vec<(u8, u8)> = Vec::new();
    let mut list = ItemList::<It>::new();
    for i in 0..n {
        let b = any_name();
        for j in 0..model.len() {
            vrt_assume(model[j].0 != b);
        }
        model.push((b, i as u8 + 10));
        list.push(It { name: name_of(b), tag: i as u8 + 10 });
    }
    (list, model)
}

fn coherent(list: &ItemList<It>, model: &Vec<(u8, u8)>) {
    vrt_check(list.len() == model.len(), "C13 length equals the reference model");
    vrt_check(list.is_empty() == model.is_empty(), "C13 is_empty");
    let mut i = 0;
    for it in list.iter() {
        vrt_check(i < model.len(), "C13 iteration yields no extra items");
        vrt_check(it.name.as_bytes().len() == 1 && it.name.as_bytes()[0] == model[i].0 && it.tag == model[i].1,
            "C13 iteration order equals positional order of the reference model");
        i += 1;
    }
    vrt_check(i == model.len(), "C13 iteration yields every item");
    for i in 0..model.len() {
        let nm = name_of(model[i].0);
        vrt_check(list[i].tag == model[i].1, "C13 positional access returns the model element");
        vrt_check(list.index(&nm) == Some(i), "C13 index(name) is the position of the element");
        vrt_check(list.contains_key(&nm), "C13 every stored element is reachable by its name");
        match list.get(&nm) {
            Some(it) => vrt_check(it.tag == model[i].1, "C13 get(name) returns exactly the element at that position"),
            None => vrt_check(false, "C13 get(name) finds a stored element"),
        }
    }
    vrt_check(list.keys().count() == model.len(), "C13 the name index has no stale keys");
    // an arbitrary probe name (alphabet plus one name that is never stored)
    let p = vrt_byte_from(b"abcdz");
    let mut present = false;
    for i in 0..model.len() {
        present |= model[i].0 == p;
    }
    vrt_check(list.contains_key(&name_of(p)) == present, "C13 contains_key agrees with the reference model");
    vrt_check(list.get(&name_of(p)).is_some() == present, "C13 get agrees with the reference model");
}

fn model_pos(model: &Vec<(u8, u8)>, b: u8) -> Option<usize> {
    for i in 0..model.len() {
        if model[i].0 == b {
            return Some(i);
        }
    }
    None
}

pub(crate) fn h_il_push() {
    let (mut list, mut model) = pre_state();
    coherent(&list, &model);
    vrt_cover(model.len() == 3, "pre-state with 3 items");
    let b = vrt_byte_from(b"abcdz");
    vrt_assume(model_pos(&model, b).is_none()); // property: names are unique
    list.push(It { name: name_of(b), tag: 99 });
    model.push((b, 99));
    coherent(&list, &model);
}

pub(crate) fn h_il_pop() {
    let (mut list, mut model) = pre_state();
    let r = list.pop();
    let m = model.pop();
    match (r, m) {
        (Some(it), Some(e)) => vrt_check(it.tag == e.1, "C13 pop returns the last element"),
        (None, None) => {}
        _ => vrt_check(false, "C13 pop agrees with the reference model"),
    }
    coherent(&list, &model);
}

pub(crate) fn h_il_swap_remove() {
    let (mut list, mut model) = pre_state();
    vrt_cover(model.len() == 1, "single-element list");
    let b = vrt_byte_from(b"abcdz");
    let r = list.swap_remove(&name_of(b));
    match model_pos(&model, b) {
        Some(i) => {
            let e = model.swap_remove(i);
            match r {
                Some(it) => vrt_check(it.tag == e.1, "C13 swap_remove returns the named element"),
                None => vrt_check(false, "C13 swap_remove finds a stored element"),
            }
        }
        None => vrt_check(r.is_none(), "C13 swap_remove of an absent name returns None"),
    }
    coherent(&list, &model);
}

pub(crate) fn h_il_swap_remove_idx() {
    let (mut list, mut model) = pre_state();
    let i = vrt_any_usize();
    let r = list.swap_remove_idx(i);
    if i < model.len() {
        let e = model.swap_remove(i);
        match r {
            Some(it) => vrt_check(it.tag == e.1, "C13 swap_remove_idx returns the element at the index"),
            None => vrt_check(false, "C13 swap_remove_idx removes an in-range element"),
        }
    } else {
        vrt_check(r.is_none(), "C13 swap_remove_idx out of range returns None");
    }
    coherent(&list, &model);
}

pub(crate) fn h_il_retain() {
    let (mut list, mut model) = pre_state();
    let k0 = vrt_any_bool();
    let k1 = vrt_any_bool();
    let k2 = vrt_any_bool();
    let keep = move |tag: u8| match tag { 10 => k0, 11 => k1, _ => k2 };
    list.retain(|it| keep(it.tag));
    model.retain(|e| keep(e.1));
    coherent(&list, &model);
}

pub(crate) fn h_il_truncate() {
    let (mut list, mut model) = pre_state();
    let n = vrt_any_usize();
    list.truncate(n);
    if n < model.len() {
        vrt_assume(n <= 3);
        model.truncate(n);
    }
    coherent(&list, &model);
}

pub(crate) fn h_il_sort_by() {
    let (mut list, mut model) = pre_state();
    let desc = vrt_any_bool();
    list.sort_by(|a, b| if desc { b.name.cmp(&a.name) } else { a.name.cmp(&b.name) });
    model.sort_by(|a, b| if desc { b.0.cmp(&a.0) } else { a.0.cmp(&b.0) });
    coherent(&list, &model);
}

pub(crate) fn h_il_rename_item() {
    let (mut list, mut model) = pre_state();
    let i = vrt_any_usize();
    let b = vrt_byte_from(b"abcdz");
    // property: names stay unique (renaming to the own name is allowed)
    match model_pos(&model, b) {
        Some(j) => vrt_assume(j == i),
        None => {}
    }
    list.rename_item(i, &name_of(b));
    if i < model.len() {
        model[i].0 = b;
    }
    coherent(&list, &model);
}

pub(crate) fn h_il_extend() {
    let (mut list, mut model) = pre_state();
    let k = vrt_choice(3) as usize;
    let mut extra = Vec::new();
    for j in 0..k {
        let b = vrt_byte_from(b"abcdyz");
        vrt_assume(model_pos(&model, b).is_none());
        model.push((b, 50 + j as u8));
        extra.push(It { name: name_of(b), tag: 50 + j as u8 });
    }
    list.extend(extra);
    coherent(&list, &model);
}

pub(crate) fn h_il_clear() {
    let (mut list, mut model) = pre_state();
    list.clear();
    model.clear();
    coherent(&list, &model);
}

pub(crate) fn h_il_collect_clone_eq() {
    let (list, model) = pre_state();
    let c: ItemList<It> = list.clone().into_iter().collect();
    coherent(&c, &model);
    vrt_check(c == list, "C13 a collected copy equals the original");
    let first = list.first().map(|x| x.tag);
    let last = list.last().map(|x| x.tag);
    vrt_check(first == model.first().map(|e| e.1) && last == model.last().map(|e| e.1), "C13 first/last");
}

pub(crate) fn h_il_get_mut_index_str() {
    let (mut list, model) = pre_state();
    let b = vrt_byte_from(b"abcdz");
    let nm = name_of(b);
    match model_pos(&model, b) {
        Some(i) => {
            vrt_check(list[nm.as_str()].tag == model[i].1, "C13 Index<&str> returns the named element");
            match list.get_mut(&nm) {
                Some(it) => {
                    vrt_check(it.tag == model[i].1, "C13 get_mut returns the named element");
                    it.tag = 77;
                }
                None => vrt_check(false, "C13 get_mut finds a stored element"),
            }
            vrt_check(list[i].tag == 77, "C13 get_mut aliases the positional element");
        }
        None => vrt_check(list.get_mut(&nm).is_none(), "C13 get_mut of an absent name"),
    }
}
