// E2 harnesses for loader.rs (C17: the loaded text does not depend on the file's encoding)
use crate::verif_rt::*;

fn push_utf8(v: &mut Vec<u8>, c: u32) {
    if c < 0x80 {
        v.push(c as u8);
    } else if c < 0x800 {
        v.push(0xC0 | (c >> 6) as u8);
        v.push(0x80 | (c & 0x3F) as u8);
    } else if c < 0x10000 {
        v.push(0xE0 | (c >> 12) as u8);
        v.push(0x80 | ((c >> 6) & 0x3F) as u8);
        v.push(0x80 | (c & 0x3F) as u8);
    } else {
        v.push(0xF0 | (c >> 18) as u8);
        v.push(0x80 | ((c >> 12) & 0x3F) as u8);
        v.push(0x80 | ((c >> 6) & 0x3F) as u8);
        v.push(0x80 | (c & 0x3F) as u8);
    }
}

fn push_u16(v: &mut Vec<u8>, u: u16, be: bool) {
    if be { v.push((u >> 8) as u8); v.push(u as u8); } else { v.push(u as u8); v.push((u >> 8) as u8); }
}

fn push_utf16(v: &mut Vec<u8>, c: u32, be: bool) {
    if c < 0x10000 {
        push_u16(v, c as u16, be);
    } else {
        let d = c - 0x10000;
        push_u16(v, 0xD800 | (d >> 10) as u16, be);
        push_u16(v, 0xDC00 | (d & 0x3FF) as u16, be);
    }
}

fn push_utf32(v: &mut Vec<u8>, c: u32, be: bool) {
    if be { v.push((c >> 24) as u8); v.push((c >> 16) as u8); v.push((c >> 8) as u8); v.push(c as u8); }
    else { v.push(c as u8); v.push((c >> 8) as u8); v.push((c >> 16) as u8); v.push((c >> 24) as u8); }
}

fn scalar(first: bool) -> u32 {
    let c = vrt_any_u32();
    if first {
        // an a2l file starts with a character of the basic ASCII set
        vrt_assume((c >= 1) & (c < 0x80));
    } else {
        vrt_assume((c >= 1) & (c <= 0x10FFFF) & ((c < 0xD800) | (c > 0xDFFF)) & (c != 0xFEFF));
    }
    c
}

/// k scalar values, 10 encodings: load(file) == the characters (BOM removed)
fn encoding_case(k: usize) {
    let enc = vrt_choice(10);
    let mut chars: Vec<u32> = Vec::new();
    for i in 0..k { chars.push(scalar(i == 0)); }
    let mut bytes: Vec<u8> = Vec::new();
    let mut expected: Vec<u8> = Vec::new();
    let bom = enc % 2 == 1;
    for (i, c) in chars.iter().enumerate() {
        push_utf8(&mut expected, *c);
        if i == 0 && bom {
            match enc / 2 { 0 => push_utf8(&mut bytes, 0xFEFF), 1 => push_utf16(&mut bytes, 0xFEFF, false), 2 => push_utf16(&mut bytes, 0xFEFF, true),
                            3 => push_utf32(&mut bytes, 0xFEFF, false), _ => push_utf32(&mut bytes, 0xFEFF, true) }
        }
        match enc / 2 { 0 => push_utf8(&mut bytes, *c), 1 => push_utf16(&mut bytes, *c, false), 2 => push_utf16(&mut bytes, *c, true),
                        3 => push_utf32(&mut bytes, *c, false), _ => push_utf32(&mut bytes, *c, true) }
    }
    let path = vrt_fs_write("enc.a2l", &bytes);
    match load(std::path::Path::new(&path)) {
        Ok(text) => {
            vrt_observe_bytes(text.as_bytes());
            vrt_check(text.as_bytes() == &expected[..], "C17 the loaded text equals the decoded characters for every encoding (BOM removed)");
        }
        Err(_) => vrt_check(false, "C17 a readable file in any of the 10 encodings loads"),
    }
}

pub(crate) fn h_encoding_1() { encoding_case(1); }
pub(crate) fn h_encoding_2() { encoding_case(2); }
pub(crate) fn h_encoding_3() { encoding_case(3); }

/// totality and Latin-1 fallback: every byte string of length n decodes without panic; if it is not valid UTF-8 and not
/// taken as UTF-16/32, the result is the Latin-1 mapping
fn raw_case(n: usize) {
    let mut v: Vec<u8> = Vec::new();
    for _ in 0..n { v.push(vrt_any_u8()); }
    let s = decode_raw_bytes(&v);
    vrt_observe_u64(s.len() as u64);
    if n % 2 == 1 && std::str::from_utf8(&v).is_err() {
        // odd length: neither UTF-16 nor UTF-32 applies -> Latin-1
        let mut exp: Vec<u8> = Vec::new();
        for b in v.iter() { push_utf8(&mut exp, *b as u32); }
        vrt_check(s.as_bytes() == &exp[..], "C17 bytes that are not valid Unicode are read as Latin-1");
    }
}
pub(crate) fn h_decode_raw_1() { raw_case(1); }
pub(crate) fn h_decode_raw_2() { raw_case(2); }
pub(crate) fn h_decode_raw_3() { raw_case(3); }
pub(crate) fn h_decode_raw_4() { raw_case(4); }
