// E2 harnesses for sort.rs (C14, C15)
use crate::verif_rt::*;
use crate::specification::*;

fn name_of(b: u8) -> String {
    String::from_utf8(vec![b]).unwrap()
}

fn mk_unit(b: u8, tag: u8, uid: u32, line: u32) -> Unit {
    let mut u = Unit::new(name_of(b), name_of(tag), String::new(), UnitType::Derived);
    u.get_layout_mut().uid = uid;
    u.get_layout_mut().line = line;
    u
}

fn mk_cm(b: u8, tag: u8, uid: u32, line: u32) -> CompuMethod {
    let mut u = CompuMethod::new(name_of(b), name_of(tag), ConversionType::Identical, String::new(), String::new());
    u.get_layout_mut().uid = uid;
    u.get_layout_mut().line = line;
    u
}

/// writer order: ascending uid, uid 0 last
fn before(ua: u32, ub: u32) -> bool {
    if ua == 0 { false } else if ub == 0 { true } else { ua < ub }
}

// ------------------------------------------------------------------ C15: one call from arbitrary uids

/// one list of n <= 3 units; placed items have arbitrary distinct non-zero u32 uids, new items have uid 0
pub(crate) fn h_sort_new_objectlist() {
    let n = vrt_choice(4) as usize;
    let mut list = ItemList::<Unit>::new();
    let mut old: Vec<(u8, u32)> = Vec::new(); // (tag, old uid)
    for i in 0..n {
        let b = vrt_byte_from(b"abc");
        let is_new = vrt_choice(2) == 1;
        let uid = if is_new { 0 } else { vrt_any_u32() };
        vrt_assume(is_new | (uid != 0));
        for j in 0..old.len() {
            vrt_assume(is_new | (old[j].1 != uid));
            vrt_assume(list[j].get_name().as_bytes()[0] != b);
        }
        if vrt_known("D7") {
            // known finding D7: position ids >= 2^31 overflow when doubled (see known_findings.json)
            vrt_assume(uid < 0x8000_0000);
        }
        let line = vrt_any_u32();
        vrt_assume(line < 4);
        let tag = b'0' + i as u8;
        old.push((tag, uid));
        list.push(mk_unit(b, tag, uid, line));
    }
    vrt_cover(n == 3, "three items");
    sort_objectlist_new(&mut list);
    vrt_check(list.len() == n, "C15 sort_new_items keeps every element");
    // map back by tag
    let mut max_placed_new: u32 = 0;
    let mut any_placed = false;
    for i in 0..n {
        let tag = list[i].long_identifier.as_bytes()[0];
        let mut found = false;
        for j in 0..n {
            if old[j].0 == tag {
                found = true;
            }
        }
        vrt_check(found, "C15 sort_new_items keeps every element (identity)");
    }
    for i in 0..n {
        for j in 0..n {
            let ti = list[i].long_identifier.as_bytes()[0];
            let tj = list[j].long_identifier.as_bytes()[0];
            let mut oi = 0u32;
            let mut oj = 0u32;
            for k in 0..n {
                if old[k].0 == ti { oi = old[k].1; }
                if old[k].0 == tj { oj = old[k].1; }
            }
            if oi != 0 && oj != 0 && oi < oj {
                vrt_check(before(list[i].get_layout().uid, list[j].get_layout().uid),
                    "C15 relative order of already placed elements is unchanged");
            }
        }
    }
    for i in 0..n {
        let ti = list[i].long_identifier.as_bytes()[0];
        for k in 0..n {
            if old[k].0 == ti && old[k].1 != 0 {
                any_placed = true;
                if list[i].get_layout().uid > max_placed_new { max_placed_new = list[i].get_layout().uid; }
                vrt_check(list[i].get_layout().uid != 0, "C15 a placed element stays placed");
            }
        }
    }
    for i in 0..n {
        let ti = list[i].long_identifier.as_bytes()[0];
        for k in 0..n {
            if old[k].0 == ti && old[k].1 == 0 {
                let nu = list[i].get_layout().uid;
                if any_placed {
                    vrt_check(nu == max_placed_new + 1, "C15 a new element is placed directly after the last placed element of its kind");
                } else {
                    vrt_check(nu == 0, "C15 a new element of a kind without placed elements goes to the end");
                }
            }
        }
    }
}

/// twin of the above restricted to the known-finding region: some placed uid >= 2^31
pub(crate) fn h_sort_new_objectlist_known_d7() {
    let mut list = ItemList::<Unit>::new();
    let uid = vrt_any_u32();
    vrt_assume(uid >= 0x8000_0000);
    list.push(mk_unit(b'a', b'0', uid, 1));
    sort_objectlist_new(&mut list);
    vrt_check(list[0].get_layout().uid != 0, "C15 a placed element stays placed");
}

/// two kinds in one module: doubling must keep the interleaving of kinds, new items go right after their kind
pub(crate) fn h_sort_new_two_kinds() {
    let mut module = Module::new(String::from("m"), String::new());
    let u1 = vrt_any_u32();
    let u2 = vrt_any_u32();
    let c1 = vrt_any_u32();
    vrt_assume((u1 != 0) & (u2 != 0) & (c1 != 0) & (u1 != u2) & (u1 != c1) & (u2 != c1));
    vrt_assume((u1 < 0x8000_0000) & (u2 < 0x8000_0000) & (c1 < 0x8000_0000));
    module.unit.push(mk_unit(b'a', b'0', u1, 1));
    module.unit.push(mk_unit(b'b', b'1', u2, 2));
    module.unit.push(mk_unit(b'c', b'2', 0, 0));
    module.compu_method.push(mk_cm(b'a', b'3', c1, 3));
    module.compu_method.push(mk_cm(b'b', b'4', 0, 0));
    let mut project = Project::new(String::from("p"), String::new());
    project.module.push(module);
    let mut file = A2lFile::new(project);
    sort_new_items(&mut file);
    let m = &file.project.module[0];
    let mut nu = [0u32; 5];
    for i in 0..3 {
        let t = (m.unit[i].long_identifier.as_bytes()[0] - b'0') as usize;
        nu[t] = m.unit[i].get_layout().uid;
    }
    for i in 0..2 {
        let t = (m.compu_method[i].long_identifier.as_bytes()[0] - b'0') as usize;
        nu[t] = m.compu_method[i].get_layout().uid;
    }
    let olds = [u1, u2, c1];
    let idx = [0usize, 1, 3];
    for a in 0..3 {
        for b in 0..3 {
            if olds[a] < olds[b] {
                vrt_check(before(nu[idx[a]], nu[idx[b]]), "C15 relative order of placed elements across kinds is unchanged");
            }
        }
    }
    // new unit directly after the last placed unit: nothing lies strictly between them
    let last_unit = if u1 > u2 { nu[0] } else { nu[1] };
    vrt_check(before(last_unit, nu[2]), "C15 new UNIT comes after the last placed UNIT");
    vrt_check(!(before(last_unit, nu[3]) && before(nu[3], nu[2])), "C15 nothing stands between the last placed UNIT and the new UNIT");
    vrt_check(before(nu[3], nu[4]), "C15 new COMPU_METHOD comes after the last placed COMPU_METHOD");
    vrt_check(!(before(nu[3], nu[0]) && before(nu[0], nu[4])) && !(before(nu[3], nu[1]) && before(nu[1], nu[4])),
        "C15 nothing stands between the last placed COMPU_METHOD and the new one");
}

/// optional singletons, IF_DATA / USER_RIGHTS vectors and comments
pub(crate) fn h_sort_new_optional_items() {
    let mut module = Module::new(String::from("m"), String::new());
    let has_mc = vrt_choice(2) == 1;
    let has_mp = vrt_choice(2) == 1;
    let u_mc = vrt_any_u32();
    let u_mp = vrt_any_u32();
    vrt_assume((u_mc < 0x8000_0000) & (u_mp < 0x8000_0000));
    vrt_assume((u_mc == 0) | (u_mp == 0) | (u_mc != u_mp));
    if has_mc {
        let mut x = ModCommon::new(String::new());
        x.get_layout_mut().uid = u_mc;
        module.mod_common = Some(x);
    }
    if has_mp {
        let mut x = ModPar::new(String::new());
        x.get_layout_mut().uid = u_mp;
        module.mod_par = Some(x);
    }
    let mut project = Project::new(String::from("p"), String::new());
    project.module.push(module);
    let mut file = A2lFile::new(project);
    sort_new_items(&mut file);
    let m = &file.project.module[0];
    if has_mc && has_mp && u_mc != 0 && u_mp != 0 {
        let a = m.mod_common.as_ref().unwrap().get_layout().uid;
        let b = m.mod_par.as_ref().unwrap().get_layout().uid;
        vrt_check((u_mc < u_mp) == before(a, b), "C15 relative order of placed MOD_COMMON / MOD_PAR is unchanged");
    }
}

/// module-level IF_DATA and USER_RIGHTS (plain Vecs, not reordered in memory) next to one placed UNIT:
/// placed elements keep their relative output order, new ones go directly behind the last placed one of their kind
fn sort_new_unnamed_lists(max_if: u32, max_ur: u32) {
    let mut module = Module::new(String::from("m"), String::new());
    let n_if = vrt_choice(max_if + 1) as usize;
    let n_ur = vrt_choice(max_ur + 1) as usize;
    let mut olds: Vec<u32> = Vec::new();       // old uids: [if_data..., user_rights..., unit]
    for _ in 0..(n_if + n_ur) {
        let is_new = vrt_choice(2) == 1;
        let uid = if is_new { 0 } else { vrt_any_u32() };
        vrt_assume(is_new | ((uid != 0) & (uid < 0x8000_0000)));
        for j in 0..olds.len() { vrt_assume(is_new | (olds[j] != uid)); }
        olds.push(uid);
    }
    let u_unit = vrt_any_u32();
    vrt_assume((u_unit != 0) & (u_unit < 0x8000_0000));
    for j in 0..olds.len() { vrt_assume(olds[j] != u_unit); }
    olds.push(u_unit);
    for i in 0..n_if {
        let mut x = IfData::new();
        x.get_layout_mut().uid = olds[i];
        module.if_data.push(x);
    }
    for i in 0..n_ur {
        let mut x = UserRights::new(name_of(b'a' + i as u8));
        x.get_layout_mut().uid = olds[n_if + i];
        module.user_rights.push(x);
    }
    module.unit.push(mk_unit(b'a', b'0', u_unit, 1));
    let mut project = Project::new(String::from("p"), String::new());
    project.module.push(module);
    let mut file = A2lFile::new(project);
    sort_new_items(&mut file);
    let m = &file.project.module[0];
    vrt_check(m.if_data.len() == n_if && m.user_rights.len() == n_ur && m.unit.len() == 1, "C15 sort_new_items keeps every element");
    let mut nu: Vec<u32> = Vec::new();
    for i in 0..n_if { nu.push(m.if_data[i].get_layout().uid); }
    for i in 0..n_ur { nu.push(m.user_rights[i].get_layout().uid); }
    nu.push(m.unit[0].get_layout().uid);
    let total = n_if + n_ur + 1;
    for a in 0..total {
        for b in 0..total {
            if olds[a] != 0 && olds[b] != 0 && olds[a] < olds[b] {
                vrt_check(before(nu[a], nu[b]), "C15 relative order of placed elements (IF_DATA, USER_RIGHTS, UNIT) is unchanged");
            }
        }
    }
    // per kind: every new element sits directly behind the last placed element of its kind
    for kind in 0..2 {
        let (lo, hi) = if kind == 0 { (0, n_if) } else { (n_if, n_if + n_ur) };
        let mut last_placed: Option<usize> = None;
        for i in lo..hi {
            if olds[i] != 0 {
                match last_placed { Some(l) if olds[l] > olds[i] => {}, _ => last_placed = Some(i) }
            }
        }
        for i in lo..hi {
            if olds[i] == 0 {
                match last_placed {
                    Some(l) => {
                        vrt_check(before(nu[l], nu[i]), "C15 a new unnamed element comes after the last placed element of its kind");
                        for o in 0..total {
                            if olds[o] != 0 && o != l {
                                vrt_check(!(before(nu[l], nu[o]) && before(nu[o], nu[i])), "C15 nothing placed stands between the last placed element of a kind and a new one");
                            }
                        }
                    }
                    None => vrt_check(nu[i] == 0, "C15 a new element of a kind without placed elements stays at the end"),
                }
            }
        }
    }
    vrt_cover(n_if == max_if as usize && n_ur == max_ur as usize, "full unnamed lists");
}
pub(crate) fn h_sort_new_unnamed_lists_s() { sort_new_unnamed_lists(2, 1); }
pub(crate) fn h_sort_new_unnamed_lists() { sort_new_unnamed_lists(3, 2); }

// ------------------------------------------------------------------ C14: sort() is a pure reordering

pub(crate) fn h_sort_full_objectlist() {
    let n = vrt_choice(4) as usize;
    let mut list = ItemList::<Unit>::new();
    let mut names: Vec<u8> = Vec::new();
    for i in 0..n {
        let b = vrt_byte_from(b"abcd");
        for j in 0..names.len() {
            vrt_assume(names[j] != b);
        }
        names.push(b);
        list.push(mk_unit(b, b'0' + i as u8, vrt_any_u32(), vrt_any_u32()));
    }
    let before_copy = list.clone();
    let start = vrt_any_u32();
    vrt_assume(start < 0xFFFF_FF00);
    let next = sort_objectlist_full(&mut list, start);
    vrt_check(next == start + n as u32, "C14 returned uid continues after the list");
    vrt_check(list.len() == n, "C14 sort keeps the number of elements");
    for i in 0..n {
        vrt_check(list[i].get_layout().uid == start + i as u32, "C14 uids are consecutive in list order");
        if i > 0 {
            vrt_check(list[i - 1].get_name().as_bytes()[0] < list[i].get_name().as_bytes()[0], "C14 list is sorted by name");
        }
        // content unchanged: the element with this name in the original list is equal (== ignores layout)
        match before_copy.get(list[i].get_name()) {
            Some(orig) => vrt_check(*orig == list[i], "C14 element content is unchanged by sort"),
            None => vrt_check(false, "C14 sort invents no element"),
        }
        vrt_check(list.index(&name_of(list[i].get_name().as_bytes()[0])) == Some(i), "C14 name index is rebuilt");
    }
}

pub(crate) fn h_sort_module() {
    let mut module = Module::new(String::from("m"), String::new());
    let a = vrt_byte_from(b"ab");
    let b = vrt_byte_from(b"ab");
    vrt_assume(a != b);
    module.unit.push(mk_unit(a, b'0', vrt_any_u32(), 1));
    module.unit.push(mk_unit(b, b'1', vrt_any_u32(), 2));
    module.compu_method.push(mk_cm(b'x', b'2', vrt_any_u32(), 3));
    if vrt_choice(2) == 1 {
        module.mod_par = Some(ModPar::new(String::new()));
    }
    let mut project = Project::new(String::from("p"), String::new());
    project.module.push(module);
    let mut file = A2lFile::new(project);
    let orig = file.clone();
    sort(&mut file);
    vrt_check(file.project.module[0].unit.len() == 2 && file.project.module[0].compu_method.len() == 1, "C14 sort keeps every list's size");
    {
        let m = &file.project.module[0];
        let om = &orig.project.module[0];
        vrt_check(m.unit[0].get_name().as_bytes()[0] == b'a' && m.unit[1].get_name().as_bytes()[0] == b'b', "C14 units sorted by name");
        vrt_check(om.unit.get("a") == m.unit.get("a") && om.unit.get("b") == m.unit.get("b"), "C14 unit content unchanged");
        vrt_check(om.compu_method[0] == m.compu_method[0], "C14 compu method content unchanged");
        vrt_check(m.mod_par == om.mod_par, "C14 MOD_PAR unchanged");
        // documented kind order: MOD_PAR < COMPU_METHOD < UNIT
        vrt_check(m.compu_method[0].get_layout().uid < m.unit[0].get_layout().uid && m.unit[0].get_layout().uid < m.unit[1].get_layout().uid,
            "C14 uids follow the documented kind order and the name order");
        if let Some(mp) = &m.mod_par {
            vrt_check(mp.get_layout().uid < m.compu_method[0].get_layout().uid, "C14 MOD_PAR precedes the object lists");
        }
    }
    let once = file.clone();
    sort(&mut file);
    vrt_check(file == once, "C14 sorting twice equals sorting once (content)");
    vrt_check(file.project.module[0].unit[0].get_layout().uid == once.project.module[0].unit[0].get_layout().uid
        && file.project.module[0].compu_method[0].get_layout().uid == once.project.module[0].compu_method[0].get_layout().uid,
        "C14 sorting twice equals sorting once (order ids)");
}
