// E2 harnesses for checker.rs
use crate::verif_rt::*;

// ------------------------------------------------------------------ C12: numeric kernel

fn ref_raw_limits(k: u32) -> (f64, f64) {
    // reference table: raw range of the 11 A2L data types
    match k {
        0 => (0.0, 255.0),
        1 => (-128.0, 127.0),
        2 => (0.0, 65535.0),
        3 => (-32768.0, 32767.0),
        4 => (0.0, 4294967295.0),
        5 => (-2147483648.0, 2147483647.0),
        6 => (0.0, 18446744073709551615.0),
        7 => (-9223372036854775808.0, 9223372036854775807.0),
        8 => (-65504.0, 65504.0),
        9 => (-3.4028234663852886e38, 3.4028234663852886e38),
        _ => (-1.7976931348623157e308, 1.7976931348623157e308),
    }
}

fn datatype_of(k: u32) -> DataType {
    match k {
        0 => DataType::Ubyte,
        1 => DataType::Sbyte,
        2 => DataType::Uword,
        3 => DataType::Sword,
        4 => DataType::Ulong,
        5 => DataType::Slong,
        6 => DataType::AUint64,
        7 => DataType::AInt64,
        8 => DataType::Float16Ieee,
        9 => DataType::Float32Ieee,
        _ => DataType::Float64Ieee,
    }
}

fn coeff_in_range(x: f64) -> bool {
    // coefficient grid of the property: both signs, magnitudes 1e-6..1e6, and zero
    // non-short-circuit operators: one symbolic condition instead of a tree of branches
    (x == 0.0) | ((x >= 1e-6) & (x <= 1e6)) | ((x <= -1e-6) & (x >= -1e6))
}

fn same(x: f64, y: f64) -> bool {
    // bit-identical first (decided by term identity in the solver), numeric equality second
    x.to_bits() == y.to_bits() || x == y
}

fn mk_cm(ct: ConversionType) -> CompuMethod {
    CompuMethod::new(String::new(), String::new(), ct, String::new(), String::new())
}

/// LINEAR, either sign of a: the range is {a*lo+b, a*hi+b} ordered by the sign of a
pub(crate) fn h_c12_linear() {
    let k = vrt_choice(11);
    let a = vrt_any_f64();
    let b = vrt_any_f64();
    vrt_assume(coeff_in_range(a) & coeff_in_range(b));
    let mut cm = mk_cm(ConversionType::Linear);
    cm.coeffs_linear = Some(CoeffsLinear::new(a, b));
    let (lo, hi) = calc_compu_method_limits(Some(&cm), datatype_of(k));
    let (rl, rh) = ref_raw_limits(k);
    let (elo, ehi) = if a >= 0.0 { (a * rl + b, a * rh + b) } else { (a * rh + b, a * rl + b) };
    vrt_cover(a < 0.0, "negative slope");
    vrt_cover(a > 0.0, "positive slope");
    vrt_check(same(lo, elo), "C12 LINEAR lower limit = mapped end point");
    vrt_check(same(hi, ehi), "C12 LINEAR upper limit = mapped end point");
}

/// RAT_FUNC linear special case y=(b*x+c)/f inverted (documented order x = f*(y/b) - c/b) at both raw end points, ordered
pub(crate) fn h_c12_ratfunc() {
    let k = vrt_choice(11);
    let b = vrt_any_f64();
    let c = vrt_any_f64();
    let f = vrt_any_f64();
    vrt_assume(coeff_in_range(b) & coeff_in_range(c) & coeff_in_range(f));
    vrt_assume((b != 0.0) & (f != 0.0));
    let mut cm = mk_cm(ConversionType::RatFunc);
    cm.coeffs = Some(Coeffs::new(0.0, b, c, 0.0, 0.0, f));
    let (lo, hi) = calc_compu_method_limits(Some(&cm), datatype_of(k));
    let (rl, rh) = ref_raw_limits(k);
    let x1 = f * (rl / b) - c / b;
    let x2 = f * (rh / b) - c / b;
    let (elo, ehi) = if x1 > x2 { (x2, x1) } else { (x1, x2) };
    vrt_cover(b < 0.0, "negative b");
    vrt_check(same(lo, elo), "C12 RAT_FUNC lower limit = inverted end point");
    vrt_check(same(hi, ehi), "C12 RAT_FUNC upper limit = inverted end point");
}

/// no compu method / IDENTICAL / TAB_*: exactly the raw range, whatever coefficients are present
pub(crate) fn h_c12_identity_and_tables() {
    let k = vrt_choice(11);
    let (rl, rh) = ref_raw_limits(k);
    let sel = vrt_choice(5);
    let (lo, hi) = if sel == 0 {
        calc_compu_method_limits(None, datatype_of(k))
    } else {
        let ct = match sel {
            1 => ConversionType::Identical,
            2 => ConversionType::TabIntp,
            3 => ConversionType::TabNointp,
            _ => ConversionType::TabVerb,
        };
        let mut cm = mk_cm(ct);
        cm.coeffs_linear = Some(CoeffsLinear::new(vrt_any_f64(), vrt_any_f64()));
        cm.coeffs = Some(Coeffs::new(vrt_any_f64(), vrt_any_f64(), vrt_any_f64(), vrt_any_f64(), vrt_any_f64(), vrt_any_f64()));
        calc_compu_method_limits(Some(&cm), datatype_of(k))
    };
    vrt_check(lo == rl && hi == rh, "C12 identity/table conversions: the raw range of the data type");
}

/// FORM and the general RAT_FUNC are not evaluated: no finite declared limits are ever rejected
pub(crate) fn h_c12_unevaluated_never_error() {
    let k = vrt_choice(11);
    let form = vrt_choice(2) == 0;
    let mut cm = mk_cm(if form { ConversionType::Form } else { ConversionType::RatFunc });
    if !form {
        let (a, b, c, d, e, f) = (vrt_any_f64(), vrt_any_f64(), vrt_any_f64(), vrt_any_f64(), vrt_any_f64(), vrt_any_f64());
        vrt_assume(a.is_finite() & b.is_finite() & c.is_finite() & d.is_finite() & e.is_finite() & f.is_finite());
        vrt_assume((a != 0.0) | (d != 0.0) | (e != 0.0) | (f == 0.0));
        cm.coeffs = Some(Coeffs::new(a, b, c, d, e, f));
    }
    let calc = calc_compu_method_limits(Some(&cm), datatype_of(k));
    let dl = vrt_any_f64();
    let du = vrt_any_f64();
    vrt_assume(dl.is_finite() & du.is_finite());
    vrt_check(check_limits_valid((dl, du), calc), "C12 FORM / general RAT_FUNC never cause a limit error");
}

/// tolerant comparison for an arbitrary calculated range: inside (or within half the documented 1e-6 relative
/// tolerance) => valid; clearly outside (10x the tolerance) => limit error; each side judged by its own end of the range
pub(crate) fn h_c12_limits_valid() {
    let side = vrt_choice(4);
    // calculated range: the 11 raw ranges plus ranges whose two ends differ strongly in magnitude (each end has its own tolerance)
    let r = vrt_choice(17);
    let (cl, cu) = match r {
        11 => (-4.294967295e12, 0.0),
        12 => (0.0, 1.0),
        13 => (-1e-3, 5e9),
        14 => (-65535000.0, 0.0),
        15 => (1.0, 2.0),
        16 => (-7.5, 1e15),
        k => ref_raw_limits(k),
    };
    let el = vrt_any_f64();
    let eu = vrt_any_f64();
    vrt_assume(el.is_finite() & eu.is_finite());
    let valid = check_limits_valid((el, eu), (cl, cu));
    if side == 0 {
        vrt_assume((cl <= el) & (eu <= cu));
        vrt_check(valid, "C12 declared limits inside the range are valid");
    } else if side == 1 {
        // within half the documented tolerance of each end
        vrt_assume((cl - el <= cl.abs() * 0.5e-6) & (eu - cu <= cu.abs() * 0.5e-6));
        vrt_cover(eu > cu, "upper limit slightly above the range");
        vrt_check(valid, "C12 declared limits within the documented relative tolerance are valid");
    } else if side == 2 {
        vrt_assume(el < cl - cl.abs() * 1e-5 - 1e-9);
        vrt_check(!valid, "C12 lower limit clearly below the range is a limit error");
    } else {
        vrt_assume(eu > cu + cu.abs() * 1e-5 + 1e-9);
        vrt_check(!valid, "C12 upper limit clearly above the range is a limit error");
    }
}
