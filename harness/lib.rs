// E2 harnesses at the public API level (whole pipeline: tokenizer + generated parser + writer)
use crate::verif_rt::*;

pub(crate) fn h_load_minimal() {
    let text = "ASAP2_VERSION 1 71 /begin PROJECT p \"\" /begin MODULE m \"\" /end MODULE /end PROJECT";
    match load_from_string(text, None, true) {
        Ok((file, _log)) => {
            vrt_check(file.project.module.len() == 1, "minimal file loads with one module");
            let out = file.write_to_string();
            vrt_observe_bytes(out.as_bytes());
        }
        Err(_) => vrt_check(false, "minimal file loads"),
    }
}

// ------------------------------------------------------------------ C01 / C02 / C05: whole pipeline on a template with symbolic layout

use crate::tokenizer::A2lTokenType;

/// separator between two parameters / keywords inside an element
fn sep_inner(t: &mut String) {
    match vrt_choice(4) {
        0 => t.push(' '),
        1 => t.push('\n'),
        2 => t.push_str("\n\n"),
        _ => t.push_str("\r\n"),
    }
}

/// separator between two block-level elements (comments are allowed there)
fn sep_block(t: &mut String) {
    match vrt_choice(7) {
        0 => t.push('\n'),
        1 => t.push_str("\n\n"),
        2 => t.push_str("\n/* c */\n"),
        3 => t.push_str("\n// c\n"),
        4 => t.push_str("\n/* a\nb */\n"),
        5 => t.push_str(" /* c */ "),
        _ => t.push_str("\r\n"),
    }
}

fn significant(text: &str) -> Vec<(u64, String, u32)> {
    let toks = crate::tokenizer::verif_h::tok_for_harness(text).unwrap();
    let mut v = Vec::new();
    for t in toks.iter() {
        if t.ttype != A2lTokenType::Comment {
            let code = match t.ttype { A2lTokenType::Identifier => 0, A2lTokenType::Begin => 1, A2lTokenType::End => 2, A2lTokenType::Include => 3, A2lTokenType::String => 4, A2lTokenType::Number => 5, A2lTokenType::Comment => 6 };
            v.push((code, text[t.startpos..t.endpos].to_string(), t.line));
        }
    }
    v
}

fn pipeline_checks(text: &str) {
    match load_from_string(text, None, true) {
        Ok((file, log)) => {
            vrt_check(log.is_empty(), "C04/C06 a valid document loads in strict mode without diagnostics");
            let out1 = file.write_to_string();
            let a = significant(text);
            let b = significant(&out1);
            vrt_check(a.len() == b.len(), "C02 load+write keeps the number of significant tokens");
            let n = if a.len() < b.len() { a.len() } else { b.len() };
            for i in 0..n {
                vrt_check(a[i].0 == b[i].0 && a[i].1 == b[i].1, "C02 load+write keeps every significant token (same order, same text)");
                vrt_check(a[i].2 == b[i].2, "C05 every significant token is written on the line it had in the input");
            }
            match load_from_string(&out1, None, true) {
                Ok((file2, _)) => {
                    vrt_check(file2 == file, "C01 load(write(M)) == M");
                    let out2 = file2.write_to_string();
                    vrt_check(out2 == out1, "C01 writing the reloaded model reproduces the same text (fixpoint)");
                }
                Err(_) => vrt_check(false, "C01 the written text loads again"),
            }
            vrt_observe_u64(out1.len() as u64);
        }
        Err(_) => vrt_check(false, "C04 a valid document is accepted in strict mode"),
    }
}

/// symbolic layout inside one MEASUREMENT (parameters and an optional keyword)
pub(crate) fn h_layout_inner() {
    let mut t = String::from("ASAP2_VERSION 1 71\n/begin PROJECT p \"\"\n/begin MODULE m \"\"\n/begin MEASUREMENT");
    sep_inner(&mut t);
    t.push_str("ms \"\" UBYTE");
    sep_inner(&mut t);
    t.push_str("NO_COMPU_METHOD 0 0 0");
    sep_inner(&mut t);
    t.push_str("255");
    sep_inner(&mut t);
    t.push_str("ECU_ADDRESS 0x10\n/end MEASUREMENT\n/end MODULE\n/end PROJECT");
    pipeline_checks(&t);
}

/// layout inside uninterpreted IF_DATA with nested blocks, and around an A2ML block (blank lines before /end A2ML)
pub(crate) fn h_layout_ifdata() {
    let mut t = String::from("ASAP2_VERSION 1 71\n/begin PROJECT p \"\"\n/begin MODULE m \"\"\n/begin A2ML\nblock \"IF_DATA\" struct { int; };");
    match vrt_choice(3) { 0 => t.push('\n'), 1 => t.push_str("\n\n"), _ => t.push_str("\n\n\n") }
    t.push_str("/end A2ML\n/begin IF_DATA VENDOR");
    sep_inner(&mut t);
    t.push_str("/begin OUTER 1");
    sep_inner(&mut t);
    t.push_str("/begin INNER \"x\"");
    sep_inner(&mut t);
    t.push_str("/end INNER");
    sep_inner(&mut t);
    t.push_str("/end OUTER\n/end IF_DATA\n/end MODULE\n/end PROJECT");
    pipeline_checks(&t);
}

pub(crate) fn h_layout_ifdata_small() {
    let mut t = String::from("ASAP2_VERSION 1 71\n/begin PROJECT p \"\"\n/begin MODULE m \"\"\n/begin A2ML\nblock \"IF_DATA\" struct { int; };");
    match vrt_choice(3) { 0 => t.push('\n'), 1 => t.push_str("\n\n"), _ => t.push_str("\n\n\n") }
    t.push_str("/end A2ML\n/begin IF_DATA VENDOR\n/begin OUTER 1\n/begin INNER \"x\"");
    sep_inner(&mut t);
    t.push_str("/end INNER");
    sep_inner(&mut t);
    t.push_str("/end OUTER\n/end IF_DATA\n/end MODULE\n/end PROJECT");
    pipeline_checks(&t);
}

/// symbolic separators (incl. both comment kinds, multi-line comments, blank lines, CRLF) between block-level elements
pub(crate) fn h_layout_blocks() {
    let mut t = String::from("ASAP2_VERSION 1 71\n/begin PROJECT p \"\"\n/begin MODULE m \"\"");
    sep_block(&mut t);
    t.push_str("/begin MEASUREMENT ms \"\" UBYTE NO_COMPU_METHOD 0 0 0 255\n/end MEASUREMENT");
    sep_block(&mut t);
    t.push_str("/begin UNIT u \"\" \"\" DERIVED\n/end UNIT");
    sep_block(&mut t);
    t.push_str("/end MODULE\n/end PROJECT");
    pipeline_checks(&t);
}

// ------------------------------------------------------------------ C11: reference diagnostics sound, complete, total

/// the consistent reference name, or a missing one at the corrupted site
fn rf(t: &mut String, site: u32, this: u32, good: &str) {
    t.push(' ');
    if site == this { t.push_str("zz_missing"); } else { t.push_str(good); }
    t.push(' ');
}

const N_SITES: u32 = 41;

fn consistent_module(site: u32) -> String {
    let mut t = String::from("ASAP2_VERSION 1 71 /begin PROJECT p \"\" /begin MODULE m \"\"\n");
    t.push_str("/begin MOD_PAR \"\" /begin MEMORY_SEGMENT seg \"\" DATA FLASH INTERN 0 0 -1 -1 -1 -1 -1 /end MEMORY_SEGMENT /end MOD_PAR\n");
    t.push_str("/begin COMPU_METHOD cm \"\" TAB_INTP \"%6.3\" \"\" COMPU_TAB_REF"); rf(&mut t, site, 0, "ct");
    t.push_str("REF_UNIT"); rf(&mut t, site, 1, "un");
    t.push_str("STATUS_STRING_REF"); rf(&mut t, site, 2, "cv");
    t.push_str("/end COMPU_METHOD\n");
    t.push_str("/begin COMPU_TAB ct \"\" TAB_INTP 1 1 1 /end COMPU_TAB\n/begin COMPU_VTAB cv \"\" TAB_VERB 1 1 \"x\" /end COMPU_VTAB\n");
    t.push_str("/begin UNIT un \"\" \"\" DERIVED /end UNIT\n");
    t.push_str("/begin RECORD_LAYOUT rl FNC_VALUES 1 UBYTE ROW_DIR DIRECT AXIS_PTS_X 1 UBYTE INDEX_INCR DIRECT /end RECORD_LAYOUT\n");
    // MEASUREMENT
    t.push_str("/begin MEASUREMENT ms \"\" UBYTE"); rf(&mut t, site, 3, "cm");
    t.push_str("0 0 0 255 REF_MEMORY_SEGMENT"); rf(&mut t, site, 4, "seg");
    t.push_str("/begin FUNCTION_LIST"); rf(&mut t, site, 5, "fn1"); t.push_str("/end FUNCTION_LIST /end MEASUREMENT\n");
    // AXIS_PTS
    t.push_str("/begin AXIS_PTS ap \"\" 0"); rf(&mut t, site, 6, "ms"); rf(&mut t, site, 7, "rl");
    t.push_str("0"); rf(&mut t, site, 8, "cm"); t.push_str("2 0 255 /end AXIS_PTS\n");
    // CHARACTERISTIC (CURVE with COM_AXIS)
    t.push_str("/begin CHARACTERISTIC ch \"\" CURVE 0"); rf(&mut t, site, 9, "rl"); t.push_str("0"); rf(&mut t, site, 10, "cm");
    t.push_str("0 255 /begin AXIS_DESCR COM_AXIS"); rf(&mut t, site, 11, "ms"); rf(&mut t, site, 12, "cm");
    t.push_str("2 0 255 AXIS_PTS_REF"); rf(&mut t, site, 13, "ap"); t.push_str("/end AXIS_DESCR\n");
    t.push_str("COMPARISON_QUANTITY"); rf(&mut t, site, 14, "ms");
    t.push_str("/begin DEPENDENT_CHARACTERISTIC \"f\""); rf(&mut t, site, 15, "ch2"); t.push_str("/end DEPENDENT_CHARACTERISTIC\n");
    t.push_str("/begin MAP_LIST"); rf(&mut t, site, 16, "ch2"); t.push_str("/end MAP_LIST\n");
    t.push_str("/begin VIRTUAL_CHARACTERISTIC \"f\""); rf(&mut t, site, 17, "ch2"); t.push_str("/end VIRTUAL_CHARACTERISTIC\n");
    t.push_str("/begin FUNCTION_LIST"); rf(&mut t, site, 18, "fn1"); t.push_str("/end FUNCTION_LIST REF_MEMORY_SEGMENT"); rf(&mut t, site, 19, "seg");
    t.push_str("/end CHARACTERISTIC\n");
    // second CHARACTERISTIC (CURVE with CURVE_AXIS)
    t.push_str("/begin CHARACTERISTIC ch2 \"\" CURVE 0 rl 0 NO_COMPU_METHOD 0 255 /begin AXIS_DESCR CURVE_AXIS NO_INPUT_QUANTITY NO_COMPU_METHOD 2 0 255 CURVE_AXIS_REF");
    rf(&mut t, site, 20, "ch"); t.push_str("/end AXIS_DESCR /end CHARACTERISTIC\n");
    // TYPEDEFs, INSTANCE
    t.push_str("/begin TYPEDEF_AXIS ta \"\""); rf(&mut t, site, 21, "ms"); rf(&mut t, site, 22, "rl"); t.push_str("0"); rf(&mut t, site, 23, "cm"); t.push_str("2 0 255 /end TYPEDEF_AXIS\n");
    t.push_str("/begin TYPEDEF_MEASUREMENT tm \"\" UBYTE"); rf(&mut t, site, 24, "cm"); t.push_str("0 0 0 255 /end TYPEDEF_MEASUREMENT\n");
    t.push_str("/begin TYPEDEF_CHARACTERISTIC tc \"\" VALUE"); rf(&mut t, site, 25, "rl"); t.push_str("0"); rf(&mut t, site, 26, "cm"); t.push_str("0 255 /end TYPEDEF_CHARACTERISTIC\n");
    t.push_str("/begin TYPEDEF_STRUCTURE ts \"\" 4 /begin STRUCTURE_COMPONENT c1"); rf(&mut t, site, 27, "tm"); t.push_str("0 /end STRUCTURE_COMPONENT /end TYPEDEF_STRUCTURE\n");
    t.push_str("/begin INSTANCE inst \"\""); rf(&mut t, site, 28, "ts"); t.push_str("0x100 /end INSTANCE\n");
    // FUNCTION
    t.push_str("/begin FUNCTION fn1 \"\" /begin IN_MEASUREMENT"); rf(&mut t, site, 29, "ms"); t.push_str("/end IN_MEASUREMENT /begin LOC_MEASUREMENT");
    rf(&mut t, site, 30, "ms"); t.push_str("/end LOC_MEASUREMENT /begin OUT_MEASUREMENT"); rf(&mut t, site, 31, "ms");
    t.push_str("/end OUT_MEASUREMENT /begin DEF_CHARACTERISTIC"); rf(&mut t, site, 32, "ch"); t.push_str("/end DEF_CHARACTERISTIC /begin REF_CHARACTERISTIC");
    rf(&mut t, site, 33, "ch2"); t.push_str("/end REF_CHARACTERISTIC /begin SUB_FUNCTION"); rf(&mut t, site, 34, "fn2"); t.push_str("/end SUB_FUNCTION /end FUNCTION\n");
    t.push_str("/begin FUNCTION fn2 \"\" /end FUNCTION\n");
    // GROUP
    t.push_str("/begin GROUP g1 \"\" ROOT /begin REF_CHARACTERISTIC"); rf(&mut t, site, 35, "ch"); t.push_str("/end REF_CHARACTERISTIC /begin REF_MEASUREMENT");
    rf(&mut t, site, 36, "ms"); t.push_str("/end REF_MEASUREMENT /begin FUNCTION_LIST"); rf(&mut t, site, 37, "fn1"); t.push_str("/end FUNCTION_LIST /begin SUB_GROUP");
    rf(&mut t, site, 38, "g2"); t.push_str("/end SUB_GROUP /end GROUP\n/begin GROUP g2 \"\" /end GROUP\n");
    // TRANSFORMER
    t.push_str("/begin TRANSFORMER tr \"v\" \"a\" \"b\" 1 ON_CHANGE NO_INVERSE_TRANSFORMER /begin TRANSFORMER_IN_OBJECTS"); rf(&mut t, site, 39, "ch");
    t.push_str("/end TRANSFORMER_IN_OBJECTS /begin TRANSFORMER_OUT_OBJECTS"); rf(&mut t, site, 40, "ch2"); t.push_str("/end TRANSFORMER_OUT_OBJECTS /end TRANSFORMER\n");
    t.push_str("/end MODULE /end PROJECT");
    t
}

fn cross_ref_report(file: &A2lFile) -> (usize, usize, usize) {
    // (cross reference errors naming zz_missing, other cross reference errors, all other diagnostics)
    let before = file.clone();
    let report = file.check();
    vrt_check(*file == before, "C11 check() does not modify the model");
    let mut hit = 0;
    let mut other_xref = 0;
    let mut rest = 0;
    for e in report.iter() {
        match e {
            A2lError::CrossReferenceError { target_name, .. } => {
                if target_name == "zz_missing" { hit += 1; } else { other_xref += 1; }
            }
            _ => rest += 1,
        }
    }
    (hit, other_xref, rest)
}

/// one corrupted reference site (or none): the report names exactly the missing target
pub(crate) fn h_check_refs() {
    let site = vrt_choice(N_SITES + 1);
    let text = consistent_module(site);
    match load_from_string(&text, None, true) {
        Ok((file, log)) => {
            vrt_check(log.is_empty(), "C11 harness template loads without diagnostics");
            let (hit, other_xref, rest) = cross_ref_report(&file);
            vrt_check(other_xref == 0, "C11 no cross reference error for a reference that resolves (no false positives)");
            if site == N_SITES {
                vrt_check(hit == 0 && rest == 0, "C11 a fully consistent file yields an empty report");
            } else {
                vrt_check(hit >= 1, "C11 a corrupted reference yields a cross reference error naming the missing target");
            }
            vrt_observe_u64(hit as u64);
            vrt_observe_u64(rest as u64);
        }
        Err(_) => vrt_check(false, "C11 harness template is accepted in strict mode"),
    }
}

/// the naming conventions: NO_COMPU_METHOD / NO_INPUT_QUANTITY / NO_INVERSE_TRANSFORMER never count as missing
pub(crate) fn h_check_conventions() {
    let mut t = String::from("ASAP2_VERSION 1 71 /begin PROJECT p \"\" /begin MODULE m \"\"\n");
    t.push_str("/begin RECORD_LAYOUT rl FNC_VALUES 1 UBYTE ROW_DIR DIRECT AXIS_PTS_X 1 UBYTE INDEX_INCR DIRECT /end RECORD_LAYOUT\n");
    t.push_str("/begin MEASUREMENT ms \"\" UBYTE NO_COMPU_METHOD 0 0 0 255 /end MEASUREMENT\n");
    t.push_str("/begin AXIS_PTS ap \"\" 0 NO_INPUT_QUANTITY rl 0 NO_COMPU_METHOD 2 0 255 /end AXIS_PTS\n");
    t.push_str("/begin CHARACTERISTIC ch \"\" CURVE 0 rl 0 NO_COMPU_METHOD 0 255 /begin AXIS_DESCR STD_AXIS NO_INPUT_QUANTITY NO_COMPU_METHOD 2 0 255 /end AXIS_DESCR /end CHARACTERISTIC\n");
    t.push_str("/begin TYPEDEF_AXIS ta \"\" NO_INPUT_QUANTITY rl 0 NO_COMPU_METHOD 2 0 255 /end TYPEDEF_AXIS\n");
    t.push_str("/begin TYPEDEF_MEASUREMENT tm \"\" UBYTE NO_COMPU_METHOD 0 0 0 255 /end TYPEDEF_MEASUREMENT\n");
    t.push_str("/begin TRANSFORMER tr \"v\" \"a\" \"b\" 1 ON_CHANGE NO_INVERSE_TRANSFORMER /end TRANSFORMER\n");
    t.push_str("/end MODULE /end PROJECT");
    let (file, _) = load_from_string(&t, None, true).unwrap();
    let (hit, other_xref, rest) = cross_ref_report(&file);
    vrt_check(hit == 0 && other_xref == 0 && rest == 0, "C11 the NO_* conventions are not reported as missing references");
}

/// totality: 0..=7 AXIS_DESCR of any attribute on a CHARACTERISTIC never make check() panic
pub(crate) fn h_check_axis_descr_count() {
    let n = vrt_choice(8);
    let mut t = String::from("ASAP2_VERSION 1 71 /begin PROJECT p \"\" /begin MODULE m \"\"\n");
    t.push_str("/begin RECORD_LAYOUT rl FNC_VALUES 1 UBYTE ROW_DIR DIRECT AXIS_PTS_X 1 UBYTE INDEX_INCR DIRECT /end RECORD_LAYOUT\n");
    t.push_str("/begin CHARACTERISTIC ch \"\" CUBE_5 0 rl 0 NO_COMPU_METHOD 0 255\n");
    let attr = match vrt_choice(3) { 0 => "STD_AXIS", 1 => "FIX_AXIS", _ => "COM_AXIS" };
    for _ in 0..n {
        t.push_str("/begin AXIS_DESCR ");
        t.push_str(attr);
        t.push_str(" NO_INPUT_QUANTITY NO_COMPU_METHOD 2 0 255 /end AXIS_DESCR\n");
    }
    t.push_str("/end CHARACTERISTIC /end MODULE /end PROJECT");
    let (file, _) = load_from_string(&t, None, false).unwrap();
    let report = file.check();
    vrt_observe_u64(report.len() as u64);
}

/// C12 dispatch: each STD_AXIS is judged by the AXIS_PTS_<position> entry of the record layout
pub(crate) fn h_check_axis_datatype_dispatch() {
    let first = match vrt_choice(3) { 0 => "STD_AXIS", 1 => "FIX_AXIS", _ => "COM_AXIS" };
    let mut t = String::from("ASAP2_VERSION 1 71 /begin PROJECT p \"\" /begin MODULE m \"\"\n");
    t.push_str("/begin RECORD_LAYOUT rl FNC_VALUES 1 UBYTE ROW_DIR DIRECT AXIS_PTS_X 2 UBYTE INDEX_INCR DIRECT AXIS_PTS_Y 3 UWORD INDEX_INCR DIRECT /end RECORD_LAYOUT\n");
    t.push_str("/begin AXIS_PTS ap \"\" 0 NO_INPUT_QUANTITY rl 0 NO_COMPU_METHOD 2 0 255 /end AXIS_PTS\n");
    t.push_str("/begin CHARACTERISTIC ch \"\" MAP 0 rl 0 NO_COMPU_METHOD 0 255\n/begin AXIS_DESCR ");
    t.push_str(first);
    t.push_str(" NO_INPUT_QUANTITY NO_COMPU_METHOD 2 0 200");
    if first == "COM_AXIS" { t.push_str(" AXIS_PTS_REF ap"); }
    t.push_str(" /end AXIS_DESCR\n/begin AXIS_DESCR STD_AXIS NO_INPUT_QUANTITY NO_COMPU_METHOD 2 ");
    // limits of the second (Y) axis: valid for UWORD, or valid only for a wider type
    let wide = vrt_choice(2) == 1;
    t.push_str(if wide { "0 70000" } else { "0 60000" });
    t.push_str(" /end AXIS_DESCR /end CHARACTERISTIC /end MODULE /end PROJECT");
    let (file, _) = load_from_string(&t, None, true).unwrap();
    let report = file.check();
    let mut limit_errors = 0;
    for e in report.iter() {
        if let A2lError::LimitCheckError { .. } = e { limit_errors += 1; }
    }
    if wide {
        vrt_check(limit_errors == 1, "C12 Y axis limits outside the UWORD range are a limit error");
    } else {
        vrt_check(limit_errors == 0, "C12 Y axis limits inside the UWORD range of AXIS_PTS_Y are no limit error");
    }
}

/// C12 dispatch: every object kind of the property x conversion kind x limits inside / below / above the range:
/// exactly one LimitCheckError when the declared limits lie outside, none otherwise, never for FORM
pub(crate) fn h_check_limit_dispatch() {
    let kind = vrt_choice(5);
    let conv = vrt_choice(5);
    let place = vrt_choice(3);
    let conv_name = match conv { 0 => "NO_COMPU_METHOD", 1 => "cm_ident", 2 => "cm_lin", 3 => "cm_tab", _ => "cm_form" };
    // UBYTE raw range 0..255; cm_lin maps it to 0..510
    let (lo, hi) = match place { 0 => ("1", "200"), 1 => ("-5", "100"), _ => ("0", "1000") };
    let mut t = String::from("ASAP2_VERSION 1 71 /begin PROJECT p \"\" /begin MODULE m \"\"\n");
    t.push_str("/begin RECORD_LAYOUT rl FNC_VALUES 1 UBYTE ROW_DIR DIRECT AXIS_PTS_X 2 UBYTE INDEX_INCR DIRECT /end RECORD_LAYOUT\n");
    t.push_str("/begin COMPU_METHOD cm_ident \"\" IDENTICAL \"%6.3\" \"\" /end COMPU_METHOD\n");
    t.push_str("/begin COMPU_METHOD cm_lin \"\" LINEAR \"%6.3\" \"\" COEFFS_LINEAR 2 0 /end COMPU_METHOD\n");
    t.push_str("/begin COMPU_METHOD cm_tab \"\" TAB_VERB \"%6.3\" \"\" COMPU_TAB_REF vt /end COMPU_METHOD\n");
    t.push_str("/begin COMPU_METHOD cm_form \"\" FORM \"%6.3\" \"\" /begin FORMULA \"X1*1000\" /end FORMULA /end COMPU_METHOD\n");
    t.push_str("/begin COMPU_VTAB vt \"\" TAB_VERB 1 1 \"one\" /end COMPU_VTAB\n");
    match kind {
        0 => { t.push_str("/begin MEASUREMENT ms \"\" UBYTE "); t.push_str(conv_name); t.push_str(" 0 0 "); t.push_str(lo); t.push(' '); t.push_str(hi); t.push_str(" /end MEASUREMENT\n"); }
        1 => { t.push_str("/begin CHARACTERISTIC ch \"\" VALUE 0 rl 0 "); t.push_str(conv_name); t.push(' '); t.push_str(lo); t.push(' '); t.push_str(hi); t.push_str(" /end CHARACTERISTIC\n"); }
        2 => { t.push_str("/begin AXIS_PTS ap \"\" 0 NO_INPUT_QUANTITY rl 0 "); t.push_str(conv_name); t.push_str(" 2 "); t.push_str(lo); t.push(' '); t.push_str(hi); t.push_str(" /end AXIS_PTS\n"); }
        3 => {
            t.push_str("/begin CHARACTERISTIC cu \"\" CURVE 0 rl 0 NO_COMPU_METHOD 0 255 /begin AXIS_DESCR STD_AXIS NO_INPUT_QUANTITY ");
            t.push_str(conv_name); t.push_str(" 2 "); t.push_str(lo); t.push(' '); t.push_str(hi); t.push_str(" /end AXIS_DESCR /end CHARACTERISTIC\n");
        }
        _ => { t.push_str("/begin TYPEDEF_MEASUREMENT tm \"\" UBYTE "); t.push_str(conv_name); t.push_str(" 0 0 "); t.push_str(lo); t.push(' '); t.push_str(hi); t.push_str(" /end TYPEDEF_MEASUREMENT\n"); }
    }
    t.push_str("/end MODULE /end PROJECT");
    let (file, _) = load_from_string(&t, None, true).unwrap();
    let report = file.check();
    let mut limit_errors = 0;
    let mut other = 0;
    for e in report.iter() {
        if let A2lError::LimitCheckError { .. } = e { limit_errors += 1; } else { other += 1; }
    }
    vrt_check(other == 0, "C12 (harness) the dispatch document has no other consistency problem");
    if place == 0 || conv == 4 {
        vrt_check(limit_errors == 0, "C12 limits inside the mapped range (or a FORM conversion) cause no limit error, for every object kind");
    } else {
        vrt_check(limit_errors == 1, "C12 limits outside the mapped range are reported, for every object kind and evaluated conversion");
    }
    vrt_cover(true, "limit_dispatch_end");
}

/// C11 namespaces: a reference into a shared namespace resolves whichever kind of the namespace defines the name
/// (conversion tables: COMPU_TAB / COMPU_VTAB / COMPU_VTAB_RANGE; typedefs: the five TYPEDEF_* kinds), and is reported
/// when no kind defines it
pub(crate) fn h_check_namespaces() {
    let site = vrt_choice(4);     // 0 COMPU_TAB_REF, 1 STATUS_STRING_REF, 2 INSTANCE type, 3 STRUCTURE_COMPONENT type
    let kind = if site < 2 { vrt_choice(3) } else { vrt_choice(5) };
    let defined = vrt_choice(2) == 1;
    let mut t = String::from("ASAP2_VERSION 1 71 /begin PROJECT p \"\" /begin MODULE m \"\"\n/begin RECORD_LAYOUT rl FNC_VALUES 1 UBYTE ROW_DIR DIRECT AXIS_PTS_X 2 UBYTE INDEX_INCR DIRECT /end RECORD_LAYOUT\n");
    if defined {
        if site < 2 {
            t.push_str(match kind {
                0 => "/begin COMPU_TAB tgt \"\" TAB_INTP 1 1 1 /end COMPU_TAB\n",
                1 => "/begin COMPU_VTAB tgt \"\" TAB_VERB 1 1 \"x\" /end COMPU_VTAB\n",
                _ => "/begin COMPU_VTAB_RANGE tgt \"\" 1 1 2 \"x\" /end COMPU_VTAB_RANGE\n",
            });
        } else {
            t.push_str(match kind {
                0 => "/begin TYPEDEF_AXIS tgt \"\" NO_INPUT_QUANTITY rl 0 NO_COMPU_METHOD 2 0 255 /end TYPEDEF_AXIS\n",
                1 => "/begin TYPEDEF_BLOB tgt \"\" 4 /end TYPEDEF_BLOB\n",
                2 => "/begin TYPEDEF_CHARACTERISTIC tgt \"\" VALUE rl 0 NO_COMPU_METHOD 0 255 /end TYPEDEF_CHARACTERISTIC\n",
                3 => "/begin TYPEDEF_MEASUREMENT tgt \"\" UBYTE NO_COMPU_METHOD 0 0 0 255 /end TYPEDEF_MEASUREMENT\n",
                _ => "/begin TYPEDEF_STRUCTURE tgt \"\" 4 /end TYPEDEF_STRUCTURE\n",
            });
        }
    }
    match site {
        0 => t.push_str("/begin COMPU_METHOD cm \"\" TAB_VERB \"%6.3\" \"\" COMPU_TAB_REF tgt /end COMPU_METHOD\n"),
        1 => t.push_str("/begin COMPU_METHOD cm \"\" IDENTICAL \"%6.3\" \"\" STATUS_STRING_REF tgt /end COMPU_METHOD\n"),
        2 => t.push_str("/begin INSTANCE inst \"\" tgt 0x100 /end INSTANCE\n"),
        _ => t.push_str("/begin TYPEDEF_STRUCTURE outer \"\" 8 /begin STRUCTURE_COMPONENT c1 tgt 0 /end STRUCTURE_COMPONENT /end TYPEDEF_STRUCTURE\n"),
    }
    t.push_str("/end MODULE /end PROJECT");
    let (file, _) = load_from_string(&t, None, true).unwrap();
    let before = file.clone();
    let report = file.check();
    vrt_check(file == before, "C11 check() never modifies the model");
    let mut hits = 0;
    for e in report.iter() {
        if let A2lError::CrossReferenceError { target_name, .. } = e {
            if target_name == "tgt" { hits += 1; }
        }
    }
    if defined {
        vrt_check(hits == 0 && xref_errors(&file) == 0, "C11 a reference resolves when any kind of the target namespace defines the name");
    } else {
        vrt_check(hits >= 1, "C11 a reference to a name that no kind of the namespace defines is reported and names the missing target");
    }
    vrt_cover(true, "check_namespaces_end");
}

/// C12 dispatch on a CUBE_5: each of the five standard axes is judged by the AXIS_PTS_<position> entry of the record
/// layout that belongs to it. Axis `wide` has data type UWORD, the others UBYTE; axis `big` declares limits 0..1000.
pub(crate) fn h_check_axis_dispatch_cube5() {
    let wide = vrt_choice(5);
    let big = vrt_choice(5);
    let names = ["AXIS_PTS_X", "AXIS_PTS_Y", "AXIS_PTS_Z", "AXIS_PTS_4", "AXIS_PTS_5"];
    let mut t = String::from("ASAP2_VERSION 1 71 /begin PROJECT p \"\" /begin MODULE m \"\"\n/begin RECORD_LAYOUT rl FNC_VALUES 1 UBYTE ROW_DIR DIRECT");
    for i in 0..5u32 {
        t.push(' ');
        t.push_str(names[i as usize]);
        t.push(' ');
        t.push((b'2' + i as u8) as char);
        t.push_str(if i == wide { " UWORD INDEX_INCR DIRECT" } else { " UBYTE INDEX_INCR DIRECT" });
    }
    t.push_str(" /end RECORD_LAYOUT\n/begin CHARACTERISTIC ch \"\" CUBE_5 0 rl 0 NO_COMPU_METHOD 0 255\n");
    for i in 0..5u32 {
        t.push_str("/begin AXIS_DESCR STD_AXIS NO_INPUT_QUANTITY NO_COMPU_METHOD 2 0 ");
        t.push_str(if i == big { "1000" } else { "200" });
        t.push_str(" /end AXIS_DESCR\n");
    }
    t.push_str("/end CHARACTERISTIC /end MODULE /end PROJECT");
    let (file, _) = load_from_string(&t, None, true).unwrap();
    let mut limit_errors = 0;
    for e in file.check().iter() {
        if let A2lError::LimitCheckError { .. } = e { limit_errors += 1; }
    }
    if wide == big {
        vrt_check(limit_errors == 0, "C12 limits 0..1000 on the axis whose AXIS_PTS_n entry is UWORD are no limit error");
    } else {
        vrt_check(limit_errors == 1, "C12 limits 0..1000 on an axis whose AXIS_PTS_n entry is UBYTE are exactly one limit error");
    }
    vrt_cover(true, "axis_dispatch_cube5_end");
}

/// C11 object namespace: MEASUREMENT, CHARACTERISTIC, AXIS_PTS, BLOB and INSTANCE share one namespace. A reference
/// from any object-reference site resolves whichever kind defines the name, and is reported when nothing does.
pub(crate) fn h_check_object_namespace() {
    // (FRAME_MEASUREMENT is not among the references that check() covers, so it is not a site here)
    let site = vrt_choice(9);
    let kind = vrt_choice(5);
    let defined = vrt_choice(2) == 1;
    let mut t = String::from("ASAP2_VERSION 1 71 /begin PROJECT p \"\" /begin MODULE m \"\"\n/begin RECORD_LAYOUT rl FNC_VALUES 1 UBYTE ROW_DIR DIRECT AXIS_PTS_X 2 UBYTE INDEX_INCR DIRECT /end RECORD_LAYOUT\n/begin TYPEDEF_MEASUREMENT tm \"\" UBYTE NO_COMPU_METHOD 0 0 0 255 /end TYPEDEF_MEASUREMENT\n");
    if defined {
        t.push_str(match kind {
            0 => "/begin MEASUREMENT tgt \"\" UBYTE NO_COMPU_METHOD 0 0 0 255 /end MEASUREMENT\n",
            1 => "/begin CHARACTERISTIC tgt \"\" VALUE 0 rl 0 NO_COMPU_METHOD 0 255 /end CHARACTERISTIC\n",
            2 => "/begin AXIS_PTS tgt \"\" 0 NO_INPUT_QUANTITY rl 0 NO_COMPU_METHOD 2 0 255 /end AXIS_PTS\n",
            3 => "/begin BLOB tgt \"\" 0 4 /end BLOB\n",
            _ => "/begin INSTANCE tgt \"\" tm 0x100 /end INSTANCE\n",
        });
    }
    let wrap = |inner: &str| -> String { let mut x = String::from("/begin FUNCTION f \"\" /begin "); x.push_str(inner); x.push_str(" tgt /end "); x.push_str(inner); x.push_str(" /end FUNCTION\n"); x };
    match site {
        0 => t.push_str(&wrap("IN_MEASUREMENT")),
        1 => t.push_str(&wrap("OUT_MEASUREMENT")),
        2 => t.push_str(&wrap("LOC_MEASUREMENT")),
        3 => t.push_str(&wrap("DEF_CHARACTERISTIC")),
        4 => t.push_str(&wrap("REF_CHARACTERISTIC")),
        5 => t.push_str("/begin GROUP g \"\" /begin REF_CHARACTERISTIC tgt /end REF_CHARACTERISTIC /end GROUP\n"),
        6 => t.push_str("/begin GROUP g \"\" /begin REF_MEASUREMENT tgt /end REF_MEASUREMENT /end GROUP\n"),
        7 => t.push_str("/begin TRANSFORMER tr \"v\" \"x\" \"y\" 1 ON_CHANGE NO_INVERSE_TRANSFORMER /begin TRANSFORMER_IN_OBJECTS tgt /end TRANSFORMER_IN_OBJECTS /end TRANSFORMER\n"),
        _ => t.push_str("/begin TRANSFORMER tr \"v\" \"x\" \"y\" 1 ON_CHANGE NO_INVERSE_TRANSFORMER /begin TRANSFORMER_OUT_OBJECTS tgt /end TRANSFORMER_OUT_OBJECTS /end TRANSFORMER\n"),
    }
    t.push_str("/end MODULE /end PROJECT");
    let (file, _) = load_from_string(&t, None, true).unwrap();
    let mut hits = 0;
    for e in file.check().iter() {
        if let A2lError::CrossReferenceError { target_name, .. } = e { if target_name == "tgt" { hits += 1; } }
    }
    if defined {
        vrt_check(hits == 0, "C11 an object reference resolves when any kind of the object namespace defines the name");
    } else {
        vrt_check(hits == 1, "C11 a reference to a name that no object defines is reported exactly once");
    }
    vrt_observe_u64(hits as u64);
    vrt_cover(true, "check_object_namespace_end");
}

// ------------------------------------------------------------------ C10: cleanup removes only, and all, unreferenced helpers

fn xref_errors(file: &A2lFile) -> usize {
    let mut n = 0;
    for e in file.check().iter() {
        if let A2lError::CrossReferenceError { .. } = e { n += 1; }
    }
    n
}

/// helper element `hx` that is referenced from exactly one (possibly unusual) site, chosen by `site`
fn cleanup_case(site: u32) -> (String, &'static str, &'static str) {
    // returns (text, kind of the helper under test, name of the helper under test)
    let mut t = String::from("ASAP2_VERSION 1 71 /begin PROJECT p \"\" /begin MODULE m \"\"\n");
    if site == 5 { t.push_str("/begin MOD_COMMON \"\" S_REC_LAYOUT hx /end MOD_COMMON\n"); }
    t.push_str("/begin RECORD_LAYOUT rl FNC_VALUES 1 UBYTE ROW_DIR DIRECT AXIS_PTS_X 1 UBYTE INDEX_INCR DIRECT /end RECORD_LAYOUT\n");
    t.push_str("/begin COMPU_METHOD cm \"\" TAB_INTP \"%6.3\" \"\"");
    if site == 1 { t.push_str(" STATUS_STRING_REF hx"); }
    if site == 2 { t.push_str(" COMPU_TAB_REF hx"); }
    if site == 3 { t.push_str(" REF_UNIT hx"); }
    if site == 4 { t.push_str(" REF_UNIT u1"); }
    t.push_str(" /end COMPU_METHOD\n");
    t.push_str("/begin MEASUREMENT ms \"\" UBYTE cm 0 0 0 255");
    if site == 12 { t.push_str(" /begin FUNCTION_LIST hx /end FUNCTION_LIST"); }
    t.push_str(" /end MEASUREMENT\n");
    t.push_str("/begin CHARACTERISTIC ch \"\" VALUE 0 rl 0 NO_COMPU_METHOD 0 255 /end CHARACTERISTIC\n");
    let (kind, name): (&'static str, &'static str) = match site {
        1 => { t.push_str("/begin COMPU_VTAB hx \"\" TAB_VERB 1 1 \"x\" /end COMPU_VTAB\n"); ("COMPU_VTAB", "hx") }
        2 => { t.push_str("/begin COMPU_VTAB_RANGE hx \"\" 1 1 2 \"x\" /end COMPU_VTAB_RANGE\n"); ("COMPU_VTAB_RANGE", "hx") }
        3 => { t.push_str("/begin UNIT hx \"\" \"\" DERIVED /end UNIT\n"); ("UNIT", "hx") }
        4 => {
            // chain u1 -> u2 -> hx, u1 referenced by the used COMPU_METHOD
            t.push_str("/begin UNIT u1 \"\" \"\" DERIVED REF_UNIT u2 /end UNIT\n/begin UNIT u2 \"\" \"\" DERIVED REF_UNIT hx /end UNIT\n/begin UNIT hx \"\" \"\" DERIVED /end UNIT\n");
            ("UNIT", "hx")
        }
        5 => { t.push_str("/begin RECORD_LAYOUT hx FNC_VALUES 1 UBYTE ROW_DIR DIRECT /end RECORD_LAYOUT\n"); ("RECORD_LAYOUT", "hx") }
        6 => {
            t.push_str("/begin RECORD_LAYOUT hx AXIS_PTS_X 1 UBYTE INDEX_INCR DIRECT /end RECORD_LAYOUT\n/begin TYPEDEF_AXIS ta \"\" NO_INPUT_QUANTITY hx 0 NO_COMPU_METHOD 2 0 255 /end TYPEDEF_AXIS\n");
            ("RECORD_LAYOUT", "hx")
        }
        7 => {
            t.push_str("/begin RECORD_LAYOUT hx FNC_VALUES 1 UBYTE ROW_DIR DIRECT /end RECORD_LAYOUT\n/begin TYPEDEF_CHARACTERISTIC tc \"\" VALUE hx 0 NO_COMPU_METHOD 0 255 /end TYPEDEF_CHARACTERISTIC\n");
            ("RECORD_LAYOUT", "hx")
        }
        8 => {
            // COMPU_METHOD referenced only from an AXIS_DESCR inside a TYPEDEF_CHARACTERISTIC
            t.push_str("/begin COMPU_METHOD hx \"\" IDENTICAL \"%6.3\" \"\" /end COMPU_METHOD\n");
            t.push_str("/begin TYPEDEF_CHARACTERISTIC tc \"\" CURVE rl 0 NO_COMPU_METHOD 0 255 /begin AXIS_DESCR STD_AXIS NO_INPUT_QUANTITY hx 2 0 255 /end AXIS_DESCR /end TYPEDEF_CHARACTERISTIC\n");
            ("COMPU_METHOD", "hx")
        }
        9 => {
            // COMPU_METHOD referenced only from an INSTANCE OVERWRITE
            t.push_str("/begin COMPU_METHOD hx \"\" IDENTICAL \"%6.3\" \"\" /end COMPU_METHOD\n");
            t.push_str("/begin TYPEDEF_MEASUREMENT tm \"\" UBYTE NO_COMPU_METHOD 0 0 0 255 /end TYPEDEF_MEASUREMENT\n");
            t.push_str("/begin INSTANCE inst \"\" tm 0x10 /begin OVERWRITE inst 0 CONVERSION hx /end OVERWRITE /end INSTANCE\n");
            ("COMPU_METHOD", "hx")
        }
        10 => {
            // COMPU_METHOD referenced only from a TYPEDEF_MEASUREMENT
            t.push_str("/begin COMPU_METHOD hx \"\" IDENTICAL \"%6.3\" \"\" /end COMPU_METHOD\n/begin TYPEDEF_MEASUREMENT tm \"\" UBYTE hx 0 0 0 255 /end TYPEDEF_MEASUREMENT\n");
            ("COMPU_METHOD", "hx")
        }
        11 => {
            // empty GROUP referenced only from USER_RIGHTS
            t.push_str("/begin GROUP hx \"\" /end GROUP\n/begin USER_RIGHTS usr /begin REF_GROUP hx /end REF_GROUP /end USER_RIGHTS\n");
            ("GROUP", "hx")
        }
        12 => { t.push_str("/begin FUNCTION hx \"\" /end FUNCTION\n"); ("FUNCTION", "hx") }
        13 => {
            // empty FUNCTION referenced only from a GROUP's FUNCTION_LIST
            t.push_str("/begin FUNCTION hx \"\" /end FUNCTION\n/begin GROUP g \"\" ROOT /begin REF_MEASUREMENT ms /end REF_MEASUREMENT /begin FUNCTION_LIST hx /end FUNCTION_LIST /end GROUP\n");
            ("FUNCTION", "hx")
        }
        14 => {
            // GROUP chain: g (non-empty) -> SUB_GROUP hx (non-empty)
            t.push_str("/begin GROUP g \"\" ROOT /begin SUB_GROUP hx /end SUB_GROUP /end GROUP\n/begin GROUP hx \"\" /begin REF_CHARACTERISTIC ch /end REF_CHARACTERISTIC /end GROUP\n");
            ("GROUP", "hx")
        }
        15 => {
            // empty FUNCTION referenced only from the FUNCTION_LIST of a GROUP that is itself removed: both must go in one run
            t.push_str("/begin FUNCTION zfn2 \"\" /end FUNCTION\n/begin GROUP zg2 \"\" /begin FUNCTION_LIST zfn2 /end FUNCTION_LIST /end GROUP\n");
            ("", "")
        }
        _ => ("", ""),
    };
    // unreferenced helpers of every kind: must all be removed
    t.push_str("/begin COMPU_METHOD zcm \"\" IDENTICAL \"%6.3\" \"\" /end COMPU_METHOD\n/begin COMPU_TAB zct \"\" TAB_INTP 1 1 1 /end COMPU_TAB\n");
    t.push_str("/begin COMPU_VTAB zcv \"\" TAB_VERB 1 1 \"x\" /end COMPU_VTAB\n/begin UNIT zun \"\" \"\" DERIVED /end UNIT\n");
    t.push_str("/begin RECORD_LAYOUT zrl /end RECORD_LAYOUT\n/begin GROUP zg \"\" /end GROUP\n/begin FUNCTION zfn \"\" /end FUNCTION\n");
    t.push_str("/end MODULE /end PROJECT");
    (t, kind, name)
}

fn helper_present(m: &Module, kind: &str, name: &str) -> bool {
    match kind {
        "COMPU_METHOD" => m.compu_method.contains_key(name),
        "COMPU_VTAB" => m.compu_vtab.contains_key(name),
        "COMPU_VTAB_RANGE" => m.compu_vtab_range.contains_key(name),
        "UNIT" => m.unit.contains_key(name),
        "RECORD_LAYOUT" => m.record_layout.contains_key(name),
        "GROUP" => m.group.contains_key(name),
        "FUNCTION" => m.function.contains_key(name),
        _ => true,
    }
}

pub(crate) fn h_cleanup_sites() {
    let site = vrt_choice(16);
    let (text, kind, name) = cleanup_case(site);
    let (mut file, _log) = load_from_string(&text, None, true).unwrap();
    let before = file.clone();
    vrt_check(xref_errors(&before) == 0, "C10 harness template is consistent");
    file.cleanup();
    {
        let m = &file.project.module[0];
        let b = &before.project.module[0];
        vrt_check(m.measurement == b.measurement && m.characteristic == b.characteristic && m.axis_pts == b.axis_pts
            && m.instance == b.instance && m.blob == b.blob, "C10 cleanup never removes or alters measurement / calibration objects");
        vrt_check(m.typedef_axis == b.typedef_axis && m.typedef_blob == b.typedef_blob && m.typedef_characteristic == b.typedef_characteristic
            && m.typedef_measurement == b.typedef_measurement && m.typedef_structure == b.typedef_structure, "C10 cleanup never removes or alters typedefs");
        vrt_check(helper_present(m, kind, name), "C10 cleanup never removes a helper that is still referenced from a reference site of the grammar");
        vrt_check(!m.compu_method.contains_key("zcm") && !m.compu_tab.contains_key("zct") && !m.compu_vtab.contains_key("zcv")
            && !m.unit.contains_key("zun") && !m.record_layout.contains_key("zrl") && !m.group.contains_key("zg") && !m.function.contains_key("zfn"),
            "C10 cleanup removes every unreferenced helper");
        vrt_check(!m.function.contains_key("zfn2") && !m.group.contains_key("zg2"), "C10 cleanup removes a helper whose only referrer is removed in the same run");
    }
    vrt_check(xref_errors(&file) == 0, "C10 a file whose references all resolve still resolves after cleanup");
    let once = file.clone();
    file.cleanup();
    vrt_check(file == once, "C10 running cleanup twice gives the same result as running it once");
}

/// UNIT chains: anchored in a used COMPU_METHOD (every unit must survive, in any definition order) or not (idempotence)
pub(crate) fn h_cleanup_unit_chain() {
    let n = vrt_choice(6); // length of the chain ux0 -> ux1 -> ...
    let anchored = vrt_choice(2) == 1;
    let reversed = vrt_choice(2) == 1;
    let mut t = String::from("ASAP2_VERSION 1 71 /begin PROJECT p \"\" /begin MODULE m \"\"\n");
    if anchored && n > 0 {
        t.push_str("/begin COMPU_METHOD cm \"\" IDENTICAL \"%6.3\" \"\" REF_UNIT ux0 /end COMPU_METHOD\n/begin MEASUREMENT ms \"\" UBYTE cm 0 0 0 255 /end MEASUREMENT\n");
    }
    for k in 0..n {
        let i = if reversed { n - 1 - k } else { k };
        t.push_str("/begin UNIT ux");
        t.push((b'0' + i as u8) as char);
        t.push_str(" \"\" \"\" DERIVED");
        if i + 1 < n {
            t.push_str(" REF_UNIT ux");
            t.push((b'0' + i as u8 + 1) as char);
        }
        t.push_str(" /end UNIT\n");
    }
    t.push_str("/end MODULE /end PROJECT");
    let (mut file, _) = load_from_string(&t, None, true).unwrap();
    file.cleanup();
    if anchored {
        vrt_check(file.project.module[0].unit.len() == n as usize, "C10 cleanup never removes a UNIT that is still referenced through a REF_UNIT chain from a used COMPU_METHOD");
    } else {
        vrt_check(file.project.module[0].unit.len() == 0, "C10 cleanup removes every unreferenced helper (UNIT chain without a user)");
    }
    let once = file.clone();
    file.cleanup();
    vrt_check(file == once, "C10 running cleanup twice gives the same result as running it once");
    vrt_check(xref_errors(&file) == 0, "C10 a file whose references all resolve still resolves after cleanup");
}

/// GROUP chains g0 -> g1 -> ... (SUB_GROUP), optionally named by USER_RIGHTS at position `user`, optionally with
/// content (REF_MEASUREMENT) in the last group; an analogous FUNCTION chain via SUB_FUNCTION used by a GROUP.
/// After cleanup every REF_GROUP / SUB_GROUP / FUNCTION_LIST / SUB_FUNCTION entry still names an existing element.
pub(crate) fn h_cleanup_group_chain() {
    let n = 1 + vrt_choice(3);                 // chain length 1..=3
    let user = vrt_choice(n + 1);             // USER_RIGHTS names g<user>; == n: no USER_RIGHTS
    let content = vrt_choice(2) == 1;         // the last group refers to a MEASUREMENT
    let mut t = String::from("ASAP2_VERSION 1 71 /begin PROJECT p \"\" /begin MODULE m \"\"\n/begin MEASUREMENT ms \"\" UBYTE NO_COMPU_METHOD 0 0 0 255 /end MEASUREMENT\n");
    for i in 0..n {
        t.push_str("/begin GROUP g");
        t.push((b'0' + i as u8) as char);
        t.push_str(" \"\"");
        if i == 0 { t.push_str(" ROOT"); }
        if i + 1 < n {
            t.push_str(" /begin SUB_GROUP g");
            t.push((b'0' + i as u8 + 1) as char);
            t.push_str(" /end SUB_GROUP");
        } else if content {
            t.push_str(" /begin REF_MEASUREMENT ms /end REF_MEASUREMENT");
        }
        t.push_str(" /end GROUP\n");
    }
    if user < n {
        t.push_str("/begin USER_RIGHTS usr /begin REF_GROUP g");
        t.push((b'0' + user as u8) as char);
        t.push_str(" /end REF_GROUP /end USER_RIGHTS\n");
    }
    t.push_str("/end MODULE /end PROJECT");
    let (mut file, _) = load_from_string(&t, None, true).unwrap();
    file.cleanup();
    {
        let m = &file.project.module[0];
        for ur in m.user_rights.iter() {
            for rg in ur.ref_group.iter() {
                for name in rg.identifier_list.iter() {
                    vrt_check(m.group.contains_key(name), "C10 cleanup never removes a GROUP that USER_RIGHTS still refers to");
                }
            }
        }
        for g in m.group.iter() {
            if let Some(sg) = &g.sub_group {
                for name in sg.identifier_list.iter() {
                    vrt_check(m.group.contains_key(name), "C10 every SUB_GROUP entry still names an existing GROUP after cleanup");
                }
            }
        }
        if content {
            vrt_check(m.group.len() == n as usize, "C10 a GROUP chain that ends in a group with members is kept completely");
        } else if user == n {
            vrt_check(m.group.len() == 0, "C10 a chain of GROUPs without members and without a user is removed");
        }
        vrt_check(m.measurement.len() == 1, "C10 cleanup never removes measurement objects");
    }
    let once = file.clone();
    file.cleanup();
    vrt_check(file == once, "C10 running cleanup twice gives the same result as running it once");
    vrt_cover(true, "cleanup_group_chain_end");
}

/// FUNCTION chains f0 -> f1 -> ... (SUB_FUNCTION), used from one of several sites (FUNCTION_LIST of a MEASUREMENT /
/// CHARACTERISTIC / AXIS_PTS / GROUP) at position `user` or not at all, the last function with / without content.
/// After cleanup every FUNCTION_LIST / SUB_FUNCTION entry still names an existing FUNCTION.
pub(crate) fn h_cleanup_function_chain() {
    let n = 1 + vrt_choice(3);
    let user = vrt_choice(n + 1);             // == n: nobody uses the chain
    let site = vrt_choice(4);                 // 0 MEASUREMENT, 1 CHARACTERISTIC, 2 AXIS_PTS, 3 GROUP
    let ckind = vrt_choice(3);                // the last function: no members / a LOC_MEASUREMENT / only a reference to an object that does not exist
    let content = ckind == 1;
    let mut t = String::from("ASAP2_VERSION 1 71 /begin PROJECT p \"\" /begin MODULE m \"\"\n/begin RECORD_LAYOUT rl FNC_VALUES 1 UBYTE ROW_DIR DIRECT AXIS_PTS_X 2 UBYTE INDEX_INCR DIRECT /end RECORD_LAYOUT\n");
    let mut fl = String::new();
    if user < n {
        fl.push_str(" /begin FUNCTION_LIST f");
        fl.push((b'0' + user as u8) as char);
        fl.push_str(" /end FUNCTION_LIST");
    }
    t.push_str("/begin MEASUREMENT ms \"\" UBYTE NO_COMPU_METHOD 0 0 0 255"); if site == 0 { t.push_str(&fl); } t.push_str(" /end MEASUREMENT\n");
    t.push_str("/begin CHARACTERISTIC ch \"\" VALUE 0 rl 0 NO_COMPU_METHOD 0 255"); if site == 1 { t.push_str(&fl); } t.push_str(" /end CHARACTERISTIC\n");
    t.push_str("/begin AXIS_PTS ap \"\" 0 NO_INPUT_QUANTITY rl 0 NO_COMPU_METHOD 2 0 255"); if site == 2 { t.push_str(&fl); } t.push_str(" /end AXIS_PTS\n");
    t.push_str("/begin GROUP g \"\" ROOT /begin REF_MEASUREMENT ms /end REF_MEASUREMENT"); if site == 3 { t.push_str(&fl); } t.push_str(" /end GROUP\n");
    for i in 0..n {
        t.push_str("/begin FUNCTION f");
        t.push((b'0' + i as u8) as char);
        t.push_str(" \"\"");
        if i + 1 < n {
            t.push_str(" /begin SUB_FUNCTION f");
            t.push((b'0' + i as u8 + 1) as char);
            t.push_str(" /end SUB_FUNCTION");
        } else if content {
            t.push_str(" /begin LOC_MEASUREMENT ms /end LOC_MEASUREMENT");
        } else if ckind == 2 {
            t.push_str(" /begin LOC_MEASUREMENT ms_gone /end LOC_MEASUREMENT /begin DEF_CHARACTERISTIC ch_gone /end DEF_CHARACTERISTIC");
        }
        t.push_str(" /end FUNCTION\n");
    }
    t.push_str("/end MODULE /end PROJECT");
    let (mut file, _) = load_from_string(&t, None, true).unwrap();
    if ckind != 2 { vrt_check(xref_errors(&file) == 0, "C10 (harness) the function chain document is consistent"); }
    file.cleanup();
    {
        let m = &file.project.module[0];
        vrt_check(xref_errors(&file) == 0, "C10 a file whose references all resolve still resolves after cleanup (FUNCTION chains)");
        for f in m.function.iter() {
            if let Some(sf) = &f.sub_function {
                for name in sf.identifier_list.iter() { vrt_check(m.function.contains_key(name), "C10 every SUB_FUNCTION entry still names an existing FUNCTION after cleanup"); }
            }
        }
        if user < n {
            let mut name = String::from("f");
            name.push((b'0' + user as u8) as char);
            vrt_check(m.function.contains_key(&name), "C10 cleanup never removes a FUNCTION that a FUNCTION_LIST still refers to");
        }
        if content { vrt_check(m.function.len() == n as usize, "C10 a FUNCTION chain that ends in a function with members is kept completely"); }
        else if user == n { vrt_check(m.function.len() == 0, "C10 a chain of FUNCTIONs without members and without a user is removed"); }
        vrt_check(m.measurement.len() == 1 && m.characteristic.len() == 1 && m.axis_pts.len() == 1 && m.group.len() == 1, "C10 cleanup never removes measurement and calibration objects or used groups");
    }
    let once = file.clone();
    file.cleanup();
    vrt_check(file == once, "C10 running cleanup twice gives the same result as running it once");
    vrt_cover(true, "cleanup_function_chain_end");
}

// ------------------------------------------------------------------ C08 / C09: merge

/// template expansion: `@name` -> name + sfx (a global element name), `~` -> lid (content marker / long identifier)
fn expand(tpl: &str, sfx: &str, lid: &str) -> String {
    let b = tpl.as_bytes();
    let mut out = String::new();
    let mut i = 0;
    while i < b.len() {
        if b[i] == b'@' {
            i += 1;
            while i < b.len() && (b[i].is_ascii_alphanumeric() || b[i] == b'_') {
                out.push(b[i] as char);
                i += 1;
            }
            out.push_str(sfx);
        } else if b[i] == b'~' {
            out.push_str(lid);
            i += 1;
        } else {
            out.push(b[i] as char);
            i += 1;
        }
    }
    out
}

/// a consistent module that populates the reference sites of the grammar (names marked with @)
const MERGE_T: &str = "ASAP2_VERSION 1 71 /begin PROJECT p \"\" /begin MODULE m \"\"
/begin MOD_PAR \"\" /begin MEMORY_SEGMENT @seg \"~\" DATA FLASH INTERN 0 0 -1 -1 -1 -1 -1 /end MEMORY_SEGMENT /end MOD_PAR
/begin COMPU_METHOD @cm \"~\" TAB_INTP \"%6.3\" \"\" COMPU_TAB_REF @ct REF_UNIT @un STATUS_STRING_REF @cv /end COMPU_METHOD
/begin COMPU_TAB @ct \"~\" TAB_INTP 1 1 1 /end COMPU_TAB
/begin COMPU_VTAB @cv \"~\" TAB_VERB 1 1 \"x\" /end COMPU_VTAB
/begin UNIT @un \"~\" \"\" DERIVED REF_UNIT @un2 /end UNIT
/begin UNIT @un2 \"~\" \"\" DERIVED /end UNIT
/begin RECORD_LAYOUT @rl FNC_VALUES ~ UBYTE ROW_DIR DIRECT AXIS_PTS_X 1 UBYTE INDEX_INCR DIRECT /end RECORD_LAYOUT
/begin MEASUREMENT @ms \"~\" UBYTE @cm 0 0 0 255 REF_MEMORY_SEGMENT @seg /begin VIRTUAL @ms2 /end VIRTUAL /end MEASUREMENT
/begin MEASUREMENT @ms2 \"~\" UBYTE NO_COMPU_METHOD 0 0 0 255 /end MEASUREMENT
/begin AXIS_PTS @ap \"~\" 0 @ms @rl 0 @cm 2 0 255 /end AXIS_PTS
/begin CHARACTERISTIC @ch \"~\" CURVE 0 @rl 0 @cm 0 255
 /begin AXIS_DESCR COM_AXIS @ms @cm 2 0 255 AXIS_PTS_REF @ap /end AXIS_DESCR
 COMPARISON_QUANTITY @ms
 /begin DEPENDENT_CHARACTERISTIC \"f\" @ch2 /end DEPENDENT_CHARACTERISTIC
 /begin MAP_LIST @ch2 /end MAP_LIST
 /begin VIRTUAL_CHARACTERISTIC \"f\" @ch2 /end VIRTUAL_CHARACTERISTIC
 REF_MEMORY_SEGMENT @seg
/end CHARACTERISTIC
/begin CHARACTERISTIC @ch2 \"~\" CURVE 0 @rl 0 NO_COMPU_METHOD 0 255
 /begin AXIS_DESCR CURVE_AXIS NO_INPUT_QUANTITY NO_COMPU_METHOD 2 0 255 CURVE_AXIS_REF @ch /end AXIS_DESCR
/end CHARACTERISTIC
/begin TYPEDEF_AXIS @ta \"~\" @ms @rl 0 @cm 2 0 255 /end TYPEDEF_AXIS
/begin TYPEDEF_MEASUREMENT @tm \"~\" UBYTE @cm 0 0 0 255 /end TYPEDEF_MEASUREMENT
/begin TYPEDEF_CHARACTERISTIC @tc \"~\" CURVE @rl 0 @cm 0 255
 /begin AXIS_DESCR STD_AXIS @ms @cm 2 0 255 /end AXIS_DESCR
/end TYPEDEF_CHARACTERISTIC
/begin TYPEDEF_STRUCTURE @ts \"~\" 4 /begin STRUCTURE_COMPONENT c1 @tm 0 /end STRUCTURE_COMPONENT /end TYPEDEF_STRUCTURE
/begin INSTANCE @inst \"~\" @ts 0x100 /begin OVERWRITE c1 0 CONVERSION @cm INPUT_QUANTITY @ms /end OVERWRITE /end INSTANCE
/begin BLOB @bl \"~\" 0 4 /end BLOB
/begin TYPEDEF_BLOB @tb \"~\" 4 /end TYPEDEF_BLOB
/begin INSTANCE @inst2 \"~\" @tb 0x200 /end INSTANCE
/begin COMPU_VTAB_RANGE @cvr \"~\" 1 1 2 \"x\" /end COMPU_VTAB_RANGE
/begin COMPU_METHOD @cm2 \"~\" TAB_VERB \"%6.3\" \"\" COMPU_TAB_REF @cvr /end COMPU_METHOD
/begin FRAME @fr \"~\" 1 2 FRAME_MEASUREMENT @ms /end FRAME
/begin TRANSFORMER @tr \"~\" \"a\" \"b\" 1 ON_CHANGE @tr2
 /begin TRANSFORMER_IN_OBJECTS @ch /end TRANSFORMER_IN_OBJECTS /begin TRANSFORMER_OUT_OBJECTS @ch2 /end TRANSFORMER_OUT_OBJECTS
/end TRANSFORMER
/begin TRANSFORMER @tr2 \"~\" \"a\" \"b\" 1 ON_CHANGE NO_INVERSE_TRANSFORMER /end TRANSFORMER
/end MODULE /end PROJECT";

/// elements that are merged by name (FUNCTION, GROUP) or moved all-or-nothing; kept out of the all-conflict template
const MERGE_T2: &str = "ASAP2_VERSION 1 71 /begin PROJECT p \"\" /begin MODULE m \"\"
/begin MEASUREMENT @ms \"~\" UBYTE NO_COMPU_METHOD 0 0 0 255 /end MEASUREMENT
/begin RECORD_LAYOUT @rl FNC_VALUES 1 UBYTE ROW_DIR DIRECT /end RECORD_LAYOUT
/begin CHARACTERISTIC @ch \"~\" VALUE 0 @rl 0 NO_COMPU_METHOD 0 255 /end CHARACTERISTIC
/begin FUNCTION fn1 \"\" /begin IN_MEASUREMENT @ms /end IN_MEASUREMENT /begin LOC_MEASUREMENT @ms /end LOC_MEASUREMENT
 /begin OUT_MEASUREMENT @ms /end OUT_MEASUREMENT /begin DEF_CHARACTERISTIC @ch /end DEF_CHARACTERISTIC
 /begin REF_CHARACTERISTIC @ch /end REF_CHARACTERISTIC /begin SUB_FUNCTION fn2 /end SUB_FUNCTION /end FUNCTION
/begin FUNCTION fn2 \"\" /end FUNCTION
/begin GROUP g1 \"\" ROOT /begin REF_CHARACTERISTIC @ch /end REF_CHARACTERISTIC /begin REF_MEASUREMENT @ms /end REF_MEASUREMENT
 /begin FUNCTION_LIST fn1 /end FUNCTION_LIST /begin SUB_GROUP g2 /end SUB_GROUP /end GROUP
/begin GROUP g2 \"\" /end GROUP
/begin USER_RIGHTS usr /begin REF_GROUP g1 /end REF_GROUP /end USER_RIGHTS
/begin VARIANT_CODING /begin VAR_CRITERION crit \"\" v1 VAR_MEASUREMENT @ms /end VAR_CRITERION
 /begin VAR_CHARACTERISTIC @ch crit /end VAR_CHARACTERISTIC /end VARIANT_CODING
/end MODULE /end PROJECT";

fn load_ok(text: &str) -> A2lFile {
    load_from_string(text, None, false).unwrap().0
}

/// every element of `exp` must be present in `res` under its name with equal content (== ignores layout)
fn contains_all(res: &Module, exp: &Module) {
    for e in exp.unit.iter() { vrt_soft_check(res.unit.get(e.get_name()) == Some(e), "C09 UNIT from B is represented with its references renamed consistently"); }
    for e in exp.compu_tab.iter() { vrt_soft_check(res.compu_tab.get(e.get_name()) == Some(e), "C08 COMPU_TAB from B is represented"); }
    for e in exp.compu_vtab.iter() { vrt_soft_check(res.compu_vtab.get(e.get_name()) == Some(e), "C08 COMPU_VTAB from B is represented"); }
    for e in exp.compu_vtab_range.iter() { vrt_soft_check(res.compu_vtab_range.get(e.get_name()) == Some(e), "C08 COMPU_VTAB_RANGE from B is represented"); }
    for e in exp.blob.iter() { vrt_soft_check(res.blob.get(e.get_name()) == Some(e), "C08 BLOB from B is represented"); }
    for e in exp.typedef_blob.iter() { vrt_soft_check(res.typedef_blob.get(e.get_name()) == Some(e), "C08 TYPEDEF_BLOB from B is represented"); }
    for e in exp.compu_method.iter() { vrt_soft_check(res.compu_method.get(e.get_name()) == Some(e), "C09 COMPU_METHOD from B is represented with its references renamed consistently"); }
    for e in exp.record_layout.iter() { vrt_soft_check(res.record_layout.get(e.get_name()) == Some(e), "C08 RECORD_LAYOUT from B is represented"); }
    for e in exp.measurement.iter() { vrt_soft_check(res.measurement.get(e.get_name()) == Some(e), "C09 MEASUREMENT from B is represented with its references renamed consistently"); }
    for e in exp.axis_pts.iter() { vrt_soft_check(res.axis_pts.get(e.get_name()) == Some(e), "C09 AXIS_PTS from B is represented with its references renamed consistently"); }
    for e in exp.characteristic.iter() { vrt_soft_check(res.characteristic.get(e.get_name()) == Some(e), "C09 CHARACTERISTIC from B is represented with its references renamed consistently"); }
    for e in exp.typedef_axis.iter() { vrt_soft_check(res.typedef_axis.get(e.get_name()) == Some(e), "C09 TYPEDEF_AXIS from B is represented with its references renamed consistently"); }
    for e in exp.typedef_measurement.iter() { vrt_soft_check(res.typedef_measurement.get(e.get_name()) == Some(e), "C09 TYPEDEF_MEASUREMENT from B is represented with its references renamed consistently"); }
    for e in exp.typedef_characteristic.iter() { vrt_soft_check(res.typedef_characteristic.get(e.get_name()) == Some(e), "C09 TYPEDEF_CHARACTERISTIC from B is represented with its references renamed consistently"); }
    for e in exp.typedef_structure.iter() { vrt_soft_check(res.typedef_structure.get(e.get_name()) == Some(e), "C09 TYPEDEF_STRUCTURE from B is represented with its references renamed consistently"); }
    for e in exp.instance.iter() { vrt_soft_check(res.instance.get(e.get_name()) == Some(e), "C09 INSTANCE from B is represented with its references renamed consistently"); }
    for e in exp.frame.iter() { vrt_soft_check(res.frame.get(e.get_name()) == Some(e), "C09 FRAME from B is represented with its references renamed consistently"); }
    for e in exp.transformer.iter() { vrt_soft_check(res.transformer.get(e.get_name()) == Some(e), "C09 TRANSFORMER from B is represented with its references renamed consistently"); }
    if let (Some(rp), Some(ep)) = (&res.mod_par, &exp.mod_par) {
        for e in ep.memory_segment.iter() { vrt_soft_check(rp.memory_segment.get(e.get_name()) == Some(e), "C08 MEMORY_SEGMENT from B is represented"); }
    }
}

fn unique_names(m: &Module) {
    let objs = m.objects();
    vrt_check(objs.len() == m.measurement.len() + m.characteristic.len() + m.axis_pts.len() + m.blob.len() + m.instance.len(), "C08 object list sizes are consistent");
    let mut seen: Vec<String> = Vec::new();
    for o in objs.iter() {
        vrt_check(!seen.contains(&o.get_name().to_string()), "C08 object names stay unique within their namespace");
        seen.push(o.get_name().to_string());
    }
    let mut seen2: Vec<String> = Vec::new();
    for o in m.typedefs().iter() {
        vrt_check(!seen2.contains(&o.get_name().to_string()), "C08 typedef names stay unique within their namespace");
        seen2.push(o.get_name().to_string());
    }
    let mut seen3: Vec<String> = Vec::new();
    for o in m.compu_tabs().iter() {
        vrt_check(!seen3.contains(&o.get_name().to_string()), "C08 conversion table names stay unique within their namespace");
        seen3.push(o.get_name().to_string());
    }
}

/// the parts of a module that have no name: A2ML, MOD_PAR, MOD_COMMON, IF_DATA, USER_RIGHTS, VARIANT_CODING.
/// Presence in A / B is chosen independently; A's parts are kept unchanged, parts that only B has are taken over.
pub(crate) fn h_merge_unnamed_parts() {
    let parts_a = vrt_choice(4);      // bit 0: A has the optional blocks, bit 1: A has IF_DATA / USER_RIGHTS
    let parts_b = 1 + vrt_choice(3);  // B has at least one of the two groups
    let head = "ASAP2_VERSION 1 71 /begin PROJECT p \"\" /begin MODULE m \"\"\n";
    let build = |who: &str, parts: u32| -> String {
        let mut t = String::from(head);
        if parts & 1 == 1 {
            t.push_str("/begin A2ML block \"IF_DATA\" taggedunion { \"X\" uint; \"Y\" uint; };\n/end A2ML\n");
            t.push_str("/begin MOD_PAR \"par "); t.push_str(who); t.push_str("\" VERSION \"v"); t.push_str(who); t.push_str("\" /end MOD_PAR\n");
            t.push_str("/begin MOD_COMMON \"common "); t.push_str(who); t.push_str("\" BYTE_ORDER MSB_LAST /end MOD_COMMON\n");
            t.push_str("/begin VARIANT_CODING VAR_SEPARATOR \"."); t.push_str(who); t.push_str("\" /end VARIANT_CODING\n");
        }
        if parts & 2 == 2 {
            t.push_str("/begin IF_DATA X "); t.push_str(if who == "A" { "1" } else { "2" }); t.push_str(" /end IF_DATA\n");
            t.push_str("/begin USER_RIGHTS user_"); t.push_str(who); t.push_str(" /end USER_RIGHTS\n");
        }
        t.push_str("/end MODULE /end PROJECT");
        t
    };
    let mut a = load_ok(&build("A", parts_a));
    let mut b = load_ok(&build("B", parts_b));
    let a_before = a.clone();
    let b_before = b.clone();
    a.merge_modules(&mut b);
    let res = &a.project.module[0];
    let am = &a_before.project.module[0];
    let bm = &b_before.project.module[0];
    // A's parts are unchanged
    if am.a2ml.is_some() { vrt_check(res.a2ml == am.a2ml, "C08 A2ML of A is unchanged by the merge"); }
    if am.mod_common.is_some() { vrt_check(res.mod_common == am.mod_common, "C08 MOD_COMMON of A is unchanged by the merge"); }
    if am.variant_coding.is_some() { vrt_check(res.variant_coding == am.variant_coding, "C08 VARIANT_CODING of A is unchanged by the merge"); }
    if let (Some(rp), Some(ap)) = (&res.mod_par, &am.mod_par) {
        vrt_check(rp.comment == ap.comment && rp.version == ap.version, "C08 MOD_PAR of A keeps its own content");
    }
    for e in am.if_data.iter() { vrt_check(res.if_data.iter().any(|x| x == e), "C08 IF_DATA of A is kept"); }
    for e in am.user_rights.iter() { vrt_check(res.user_rights.iter().any(|x| x == e), "C08 USER_RIGHTS of A is kept"); }
    // parts that only B has are taken over
    if am.a2ml.is_none() { vrt_check(res.a2ml == bm.a2ml, "C08 A2ML that only B has is taken over"); }
    if am.mod_par.is_none() { vrt_check(res.mod_par == bm.mod_par, "C08 MOD_PAR that only B has is taken over"); }
    if am.mod_common.is_none() { vrt_check(res.mod_common == bm.mod_common, "C08 MOD_COMMON that only B has is taken over"); }
    if am.variant_coding.is_none() { vrt_check(res.variant_coding == bm.variant_coding, "C08 VARIANT_CODING that only B has is taken over"); }
    for e in bm.user_rights.iter() { vrt_check(res.user_rights.iter().any(|x| x == e), "C08 USER_RIGHTS of B is represented"); }
    // IF_DATA is deliberately all-or-nothing (documented in merge_if_data): B's blocks are taken only if A has none
    if am.if_data.is_empty() {
        for e in bm.if_data.iter() { vrt_check(res.if_data.iter().any(|x| x == e), "C08 IF_DATA that only B has is taken over"); }
    } else {
        vrt_check(res.if_data == am.if_data, "C08 IF_DATA of A is unchanged by the merge");
    }
    // merging B a second time changes nothing
    let once = a.clone();
    let mut b2 = b_before.clone();
    a.merge_modules(&mut b2);
    vrt_check(a == once, "C08 merging the same module a second time changes nothing (unnamed parts)");
    // the result can be written and loaded again. (Model equality after reload is only asserted when no IF_DATA is
    // involved: an uninterpreted IF_DATA that ends up next to an A2ML block is interpreted on reload - the
    // mechanism recorded as known finding D21.)
    let out = a.write_to_string();
    match load_from_string(&out, None, false) {
        Ok((f2, _)) => { if parts_a & 2 == 0 && parts_b & 2 == 0 { vrt_check(f2 == a, "C08 the merged model survives write and reload"); } }
        Err(_) => vrt_check(false, "C08 the merged model can be written and loaded"),
    }
    vrt_cover(true, "merge_unnamed_parts_end");
}

/// the same name `x` is used in every namespace of the module (unit, conversion table, compu method, record layout,
/// object, typedef, function, group, frame, transformer) and every kind of reference to it is populated. Exactly one
/// namespace conflicts between A and B, so exactly that namespace's `x` of B is renamed: references into the other
/// namespaces must keep the plain name - merging two consistent files never produces a dangling reference.
const SAME_NAME_T: &str = "ASAP2_VERSION 1 71 /begin PROJECT p \"\" /begin MODULE m \"\"
/begin UNIT x \"~0\" \"\" DERIVED /end UNIT
/begin COMPU_TAB x \"~1\" TAB_INTP 1 1 1 /end COMPU_TAB
/begin COMPU_METHOD x \"~2\" TAB_INTP \"%6.3\" \"\" COMPU_TAB_REF x REF_UNIT x /end COMPU_METHOD
/begin RECORD_LAYOUT x FNC_VALUES ~3 UBYTE ROW_DIR DIRECT AXIS_PTS_X 1 UBYTE INDEX_INCR DIRECT /end RECORD_LAYOUT
/begin MEASUREMENT x \"~4\" UBYTE x 0 0 0 255 /begin FUNCTION_LIST x /end FUNCTION_LIST /end MEASUREMENT
/begin TYPEDEF_MEASUREMENT x \"~5\" UBYTE x 0 0 0 255 /end TYPEDEF_MEASUREMENT
/begin INSTANCE inst \"\" x 0x100 /end INSTANCE
/begin CHARACTERISTIC ch \"\" CURVE 0 x 0 x 0 255 /begin AXIS_DESCR STD_AXIS x x 2 0 255 /end AXIS_DESCR /begin FUNCTION_LIST x /end FUNCTION_LIST /end CHARACTERISTIC
/begin FUNCTION x \"\" /begin LOC_MEASUREMENT x /end LOC_MEASUREMENT /begin SUB_FUNCTION y /end SUB_FUNCTION /end FUNCTION
/begin FUNCTION y \"\" /begin IN_MEASUREMENT x /end IN_MEASUREMENT /end FUNCTION
/begin GROUP x \"\" ROOT /begin REF_MEASUREMENT x /end REF_MEASUREMENT /begin FUNCTION_LIST x /end FUNCTION_LIST /begin SUB_GROUP y /end SUB_GROUP /end GROUP
/begin GROUP y \"\" /begin REF_CHARACTERISTIC ch /end REF_CHARACTERISTIC /end GROUP
/begin FRAME x \"~6\" 1 2 FRAME_MEASUREMENT x /end FRAME
/begin TRANSFORMER x \"~7\" \"a\" \"b\" 1 ON_CHANGE NO_INVERSE_TRANSFORMER /begin TRANSFORMER_IN_OBJECTS x /end TRANSFORMER_IN_OBJECTS /end TRANSFORMER
/begin USER_RIGHTS usr /begin REF_GROUP x /end REF_GROUP /end USER_RIGHTS
/end MODULE /end PROJECT";

fn same_name_doc(conflict: u32, variant: &str) -> String {
    // marker ~k is replaced by `variant` for k == conflict and by "1" otherwise
    let b = SAME_NAME_T.as_bytes();
    let mut out = String::new();
    let mut i = 0;
    while i < b.len() {
        if b[i] == b'~' {
            let k = (b[i + 1] - b'0') as u32;
            out.push_str(if k == conflict { variant } else { "1" });
            i += 2;
        } else {
            out.push(b[i] as char);
            i += 1;
        }
    }
    out
}

pub(crate) fn h_merge_same_name_across_namespaces() {
    let conflict = vrt_choice(8);
    let mut a = load_ok(&same_name_doc(conflict, "1"));
    let mut b = load_ok(&same_name_doc(conflict, "2"));
    vrt_check(xref_errors(&a) == 0 && xref_errors(&b) == 0, "C09 (harness) the same-name documents are consistent");
    a.merge_modules(&mut b);
    vrt_check(xref_errors(&a) == 0, "C09 merging two consistent files never produces a dangling reference (same name used in several namespaces)");
    unique_names(&a.project.module[0]);
    {
        let m = &a.project.module[0];
        // references into the function and group namespaces never change: nothing in them is renamed
        for g in m.group.iter() {
            if let Some(fl) = &g.function_list { for n in fl.name_list.iter() { vrt_check(m.function.contains_key(n), "C09 GROUP FUNCTION_LIST still names an existing FUNCTION"); } }
            if let Some(sg) = &g.sub_group { for n in sg.identifier_list.iter() { vrt_check(m.group.contains_key(n), "C09 SUB_GROUP still names an existing GROUP"); } }
        }
        for ur in m.user_rights.iter() { for rg in ur.ref_group.iter() { for n in rg.identifier_list.iter() { vrt_check(m.group.contains_key(n), "C09 REF_GROUP still names an existing GROUP"); } } }
        for ms in m.measurement.iter() { if let Some(fl) = &ms.function_list { for n in fl.name_list.iter() { vrt_check(m.function.contains_key(n), "C09 FUNCTION_LIST of a MEASUREMENT still names an existing FUNCTION"); } } }
        for f in m.frame.iter() { if let Some(fm) = &f.frame_measurement { for n in fm.identifier_list.iter() { vrt_check(m.measurement.contains_key(n), "C09 FRAME_MEASUREMENT still names an existing MEASUREMENT"); } } }
    }
    vrt_cover(true, "merge_same_name_end");
}

/// C09 second order: an element of B that is textually identical to A's element of the same name, but refers to a
/// name that this merge renames, is not an identical twin - its reference must follow B's target.
/// kind 0: TYPEDEF_AXIS twin (input quantity = conflicting MEASUREMENT), reached through B's INSTANCE.
/// kind 1: AXIS_PTS twin (object -> object reference), reached through B's CHARACTERISTIC (known finding D22).
fn merge_twin_refs(kind: u32, twin_run: bool) {
    let common = "/begin RECORD_LAYOUT rl FNC_VALUES 1 UBYTE ROW_DIR DIRECT AXIS_PTS_X 1 UBYTE INDEX_INCR DIRECT /end RECORD_LAYOUT\n";
    let twin = if kind == 0 { "/begin TYPEDEF_AXIS tw \"\" speed rl 0 NO_COMPU_METHOD 2 0 255 /end TYPEDEF_AXIS\n" }
               else { "/begin AXIS_PTS tw \"\" 0 speed rl 0 NO_COMPU_METHOD 2 0 255 /end AXIS_PTS\n" };
    let mut a = String::from("ASAP2_VERSION 1 71 /begin PROJECT p \"\" /begin MODULE m \"\"\n");
    a.push_str(common);
    a.push_str("/begin MEASUREMENT speed \"of A\" UBYTE NO_COMPU_METHOD 0 0 0 255 /end MEASUREMENT\n");
    a.push_str(twin);
    a.push_str("/end MODULE /end PROJECT");
    let mut b = String::from("ASAP2_VERSION 1 71 /begin PROJECT p \"\" /begin MODULE m \"\"\n");
    b.push_str(common);
    b.push_str("/begin MEASUREMENT speed \"of B\" UWORD NO_COMPU_METHOD 0 0 0 65535 /end MEASUREMENT\n");
    b.push_str(twin);
    if kind == 0 {
        b.push_str("/begin INSTANCE user_b \"\" tw 0x100 /end INSTANCE\n");
    } else {
        b.push_str("/begin CHARACTERISTIC user_b \"\" CURVE 0 rl 0 NO_COMPU_METHOD 0 255 /begin AXIS_DESCR COM_AXIS speed NO_COMPU_METHOD 2 0 255 AXIS_PTS_REF tw /end AXIS_DESCR /end CHARACTERISTIC\n");
    }
    b.push_str("/end MODULE /end PROJECT");
    let mut fa = load_ok(&a);
    let mut fb = load_ok(&b);
    vrt_check(xref_errors(&fa) == 0 && xref_errors(&fb) == 0, "C09 harness documents are consistent");
    fa.merge_modules(&mut fb);
    let m = &fa.project.module[0];
    vrt_check(xref_errors(&fa) == 0, "C09 merging two consistent files leaves no dangling reference");
    // follow the reference chain from B's user element to the measurement it finally designates
    let target: Option<String> = if kind == 0 {
        m.instance.get("user_b").and_then(|i| m.typedef_axis.get(&i.type_ref)).map(|t| t.input_quantity.clone())
    } else {
        m.characteristic.get("user_b").and_then(|c| c.axis_descr.get(0)).and_then(|ad| ad.axis_pts_ref.as_ref())
            .and_then(|r| m.axis_pts.get(&r.axis_points)).map(|ap| ap.input_quantity.clone())
    };
    match target.and_then(|t| m.measurement.get(&t)) {
        Some(ms) => {
            if twin_run {
                vrt_check(ms.long_identifier == "of B", "C09 D22 a reference chain of B still ends at the element that represents B's target (AXIS_PTS twin that refers to a renamed MEASUREMENT)");
            } else {
                vrt_check(ms.long_identifier == "of B", "C09 a reference chain of B still ends at the element that represents B's target (twin that refers to a renamed element)");
            }
        }
        None => vrt_check(false, "C09 the reference chain of B's element resolves after the merge"),
    }
    vrt_check(m.measurement.len() == 2, "C08 the conflicting MEASUREMENT of B is added under a fresh name");
}
pub(crate) fn h_merge_twin_refs() {
    let kind = vrt_choice(2);
    if kind == 1 && vrt_known("D22") { return; }
    merge_twin_refs(kind, false);
}
/// twin of known finding D22: exactly the recorded scenario
pub(crate) fn h_merge_twin_refs_known_d22() {
    merge_twin_refs(1, true);
}

/// scenario 0: every name conflicts (same names, different content) -> all of B is renamed to X.MERGE and must keep its
/// reference structure; 1: identical copy; 2: disjoint names; 3: merge into an empty module; 4: merge an empty module
pub(crate) fn h_merge_scenarios() {
    let sc = vrt_choice(5);
    let empty = "ASAP2_VERSION 1 71 /begin PROJECT p \"\" /begin MODULE m \"\" /end MODULE /end PROJECT";
    let a_text = match sc { 3 => String::from(empty), _ => expand(MERGE_T, "", "1") };
    let b_text = match sc { 0 => expand(MERGE_T, "", "2"), 1 => expand(MERGE_T, "", "1"), 2 => expand(MERGE_T, "_b", "2"), 3 => expand(MERGE_T, "", "2"), _ => String::from(empty) };
    let mut a = load_ok(&a_text);
    let mut b = load_ok(&b_text);
    let a_before = a.clone();
    let b_before = b.clone();
    vrt_check(xref_errors(&a) == 0 && xref_errors(&b) == 0, "C09 harness templates are consistent");
    a.merge_modules(&mut b);
    let res = &a.project.module[0];
    // C08: A is conserved
    contains_all(res, &a_before.project.module[0]);
    unique_names(res);
    match sc {
        0 => {
            let exp = load_ok(&expand(MERGE_T, ".MERGE", "2"));
            contains_all(res, &exp.project.module[0]);
            vrt_check(res.measurement.len() == 4 && res.unit.len() == 4 && res.compu_method.len() == 4 && res.characteristic.len() == 4 && res.blob.len() == 2 && res.typedef_blob.len() == 2 && res.compu_vtab_range.len() == 2 && res.instance.len() == 4, "C08 conflicting elements are added once under a fresh name");
        }
        1 | 4 => vrt_check(a == a_before, "C08 merging an identical copy / an empty module changes nothing"),
        2 => {
            contains_all(res, &b_before.project.module[0]);
            vrt_check(res.measurement.len() == 4 && res.unit.len() == 4, "C08 new names are added");
        }
        _ => {
            contains_all(res, &b_before.project.module[0]);
            vrt_check(res.measurement.len() == 2 && res.unit.len() == 2 && res.compu_method.len() == 2, "C08 merging into an empty module yields B's content");
        }
    }
    vrt_check(xref_errors(&a) == 0, "C09 merging two consistent files never produces a dangling reference");
}

/// FUNCTION / GROUP are merged by name, USER_RIGHTS / VARIANT_CODING are moved: their references must follow the renaming
pub(crate) fn h_merge_named_union() {
    let sc = vrt_choice(3);
    if sc == 2 {
        // A's FUNCTION / GROUP of the same name have no members and other attributes: they may only gain members
        let a_text = "ASAP2_VERSION 1 71 /begin PROJECT p \"\" /begin MODULE m \"\"\n/begin MEASUREMENT ms \"2\" UBYTE NO_COMPU_METHOD 0 0 0 255 /end MEASUREMENT\n/begin RECORD_LAYOUT rl FNC_VALUES 2 UBYTE ROW_DIR DIRECT /end RECORD_LAYOUT\n/begin CHARACTERISTIC ch \"2\" VALUE 0 rl 0 NO_COMPU_METHOD 0 255 /end CHARACTERISTIC\n/begin FUNCTION fn1 \"text of A\" FUNCTION_VERSION \"v1\" /end FUNCTION\n/begin FUNCTION fn2 \"\" /end FUNCTION\n/begin GROUP g1 \"text of A\" /end GROUP\n/begin GROUP g2 \"\" /end GROUP\n/end MODULE /end PROJECT";
        let mut a = load_ok(a_text);
        let mut b = load_ok(&expand(MERGE_T2, "", "2"));
        a.merge_modules(&mut b);
        let m = &a.project.module[0];
        let f = m.function.get("fn1").unwrap();
        vrt_soft_check(f.long_identifier == "text of A" && f.function_version.is_some(), "C08 a FUNCTION of A keeps its own attributes, it may only gain members");
        vrt_soft_check(f.in_measurement.is_some() && f.def_characteristic.is_some() && f.sub_function.is_some(), "C08 a FUNCTION of A gains the members of the same-name FUNCTION of B");
        let g = m.group.get("g1").unwrap();
        vrt_soft_check(g.long_identifier == "text of A", "C08 a GROUP of A keeps its own attributes, it may only gain members");
        vrt_soft_check(g.ref_measurement.is_some() && g.ref_characteristic.is_some(), "C08 a GROUP of A gains the members of the same-name GROUP of B");
        return;
    }
    // A has conflicting ms / ch / rl (so B's get renamed); sc 1: A additionally has its own fn1 / g1 to be united
    let mut a_text = expand(MERGE_T2, "", "1");
    if sc == 0 {
        // A without FUNCTION / GROUP / USER_RIGHTS / VARIANT_CODING
        a_text = String::from("ASAP2_VERSION 1 71 /begin PROJECT p \"\" /begin MODULE m \"\"\n/begin MEASUREMENT ms \"1\" UBYTE NO_COMPU_METHOD 0 0 0 255 /end MEASUREMENT\n/begin RECORD_LAYOUT rl FNC_VALUES 1 UBYTE ROW_DIR DIRECT /end RECORD_LAYOUT\n/begin CHARACTERISTIC ch \"1\" VALUE 0 rl 0 NO_COMPU_METHOD 0 255 /end CHARACTERISTIC\n/end MODULE /end PROJECT");
    }
    let mut a = load_ok(&a_text);
    let mut b = load_ok(&expand(MERGE_T2, "", "2"));
    vrt_check(xref_errors(&a) == 0 && xref_errors(&b) == 0, "C09 harness templates are consistent");
    a.merge_modules(&mut b);
    vrt_soft_check(xref_errors(&a) == 0, "C09 merging two consistent files never produces a dangling reference");
    let m = &a.project.module[0];
    vrt_soft_check(m.measurement.contains_key("ms.MERGE") && m.characteristic.contains_key("ch.MERGE"), "C08 conflicting objects are added under a fresh name");
    let f = m.function.get("fn1").unwrap();
    let has = |l: &Vec<String>, n: &str| l.iter().any(|x| x == n);
    vrt_soft_check(has(&f.in_measurement.as_ref().unwrap().identifier_list, "ms.MERGE"), "C09 FUNCTION IN_MEASUREMENT from B designates B's (renamed) measurement");
    vrt_soft_check(has(&f.loc_measurement.as_ref().unwrap().identifier_list, "ms.MERGE"), "C09 FUNCTION LOC_MEASUREMENT from B designates B's (renamed) measurement");
    vrt_soft_check(has(&f.out_measurement.as_ref().unwrap().identifier_list, "ms.MERGE"), "C09 FUNCTION OUT_MEASUREMENT from B designates B's (renamed) measurement");
    vrt_soft_check(has(&f.def_characteristic.as_ref().unwrap().identifier_list, "ch.MERGE"), "C09 FUNCTION DEF_CHARACTERISTIC from B designates B's (renamed) characteristic");
    vrt_soft_check(has(&f.ref_characteristic.as_ref().unwrap().identifier_list, "ch.MERGE"), "C09 FUNCTION REF_CHARACTERISTIC from B designates B's (renamed) characteristic");
    let g = m.group.get("g1").unwrap();
    vrt_soft_check(has(&g.ref_characteristic.as_ref().unwrap().identifier_list, "ch.MERGE"), "C09 GROUP REF_CHARACTERISTIC from B designates B's (renamed) characteristic");
    vrt_soft_check(has(&g.ref_measurement.as_ref().unwrap().identifier_list, "ms.MERGE"), "C09 GROUP REF_MEASUREMENT from B designates B's (renamed) measurement");
    if sc == 0 {
        let vc = m.variant_coding.as_ref().unwrap();
        vrt_soft_check(vc.var_criterion[0].var_measurement.as_ref().unwrap().name == "ms.MERGE", "C09 VAR_MEASUREMENT from B designates B's (renamed) measurement");
        vrt_soft_check(vc.var_characteristic[0].get_name() == "ch.MERGE", "C09 VAR_CHARACTERISTIC from B designates B's (renamed) characteristic");
        vrt_soft_check(vc.var_characteristic[0].criterion_name_list.len() == 1 && vc.var_characteristic[0].criterion_name_list[0] == "crit", "C09 criterion names of VAR_CHARACTERISTIC are not object references and stay unchanged");
        vrt_soft_check(m.user_rights.len() == 1, "C08 USER_RIGHTS from B is represented");
    }
}

/// fresh names: X conflicts; X.MERGE / X.MERGE2 may already exist in A and/or B (symbolic)
pub(crate) fn h_merge_unique_name() {
    let a1 = vrt_any_bool();
    let a2 = vrt_any_bool();
    let b1 = vrt_any_bool();
    let b2 = vrt_any_bool();
    let unit = |name: &str, lid: &str| -> String {
        let mut s = String::from("/begin UNIT ");
        s.push_str(name); s.push_str(" \""); s.push_str(lid); s.push_str("\" \"\" DERIVED /end UNIT\n");
        s
    };
    let head = "ASAP2_VERSION 1 71 /begin PROJECT p \"\" /begin MODULE m \"\"\n";
    let mut at = String::from(head);
    at.push_str(&unit("x", "1"));
    if a1 { at.push_str(&unit("x.MERGE", "1")); }
    if a2 { at.push_str(&unit("x.MERGE2", "1")); }
    at.push_str("/end MODULE /end PROJECT");
    let mut bt = String::from(head);
    bt.push_str(&unit("x", "2x"));
    if b1 { bt.push_str(&unit("x.MERGE", "2m")); }
    if b2 { bt.push_str(&unit("x.MERGE2", "2n")); }
    // users in B: one COMPU_METHOD per unit of B
    bt.push_str("/begin COMPU_METHOD cmx \"\" IDENTICAL \"%6.3\" \"\" REF_UNIT x /end COMPU_METHOD\n");
    if b1 { bt.push_str("/begin COMPU_METHOD cmm \"\" IDENTICAL \"%6.3\" \"\" REF_UNIT x.MERGE /end COMPU_METHOD\n"); }
    if b2 { bt.push_str("/begin COMPU_METHOD cmn \"\" IDENTICAL \"%6.3\" \"\" REF_UNIT x.MERGE2 /end COMPU_METHOD\n"); }
    bt.push_str("/end MODULE /end PROJECT");
    let mut a = load_ok(&at);
    let mut b = load_ok(&bt);
    let a_before = a.clone();
    let nb = b.project.module[0].unit.len();
    a.merge_modules(&mut b);
    let m = &a.project.module[0];
    for e in a_before.project.module[0].unit.iter() {
        vrt_check(m.unit.get(e.get_name()) == Some(e), "C08 every element of A is kept unchanged");
    }
    // every unit of B is represented: count units whose long identifier is "2"
    let mut from_b = 0;
    let mut names: Vec<String> = Vec::new();
    for u in m.unit.iter() {
        if u.long_identifier.starts_with('2') { from_b += 1; }
        vrt_check(!names.contains(&u.get_name().to_string()), "C08 names stay unique within the namespace");
        names.push(u.get_name().to_string());
    }
    vrt_check(from_b == nb, "C08 every named element of B is represented exactly once in the result");
    vrt_check(m.unit.len() == a_before.project.module[0].unit.len() + nb, "C08 conflicting elements are added, none is lost or duplicated");
    // C09: every REF_UNIT of B's compu methods designates exactly the unit that represents its original target
    for (cm, lid) in [("cmx", "2x"), ("cmm", "2m"), ("cmn", "2n")] {
        if let Some(c) = m.compu_method.get(cm) {
            match c.ref_unit.as_ref().and_then(|r| m.unit.get(&r.unit)) {
                Some(u) => vrt_check(u.long_identifier == lid, "C09 a reference of B designates the element that represents its original target, also when B already holds names of the form X.MERGE"),
                None => vrt_check(false, "C09 a reference of B still resolves after the merge (pre-existing X.MERGE names)"),
            }
        }
    }
}

/// the same name in different kinds of one shared namespace
pub(crate) fn h_merge_cross_kind() {
    let head = "ASAP2_VERSION 1 71 /begin PROJECT p \"\" /begin MODULE m \"\"\n/begin RECORD_LAYOUT rl FNC_VALUES 1 UBYTE ROW_DIR DIRECT AXIS_PTS_X 1 UBYTE INDEX_INCR DIRECT /end RECORD_LAYOUT\n";
    let obj = |k: u32| -> &'static str {
        match k {
            0 => "/begin MEASUREMENT x \"\" UBYTE NO_COMPU_METHOD 0 0 0 255 /end MEASUREMENT\n",
            1 => "/begin CHARACTERISTIC x \"\" VALUE 0 rl 0 NO_COMPU_METHOD 0 255 /end CHARACTERISTIC\n",
            2 => "/begin AXIS_PTS x \"\" 0 NO_INPUT_QUANTITY rl 0 NO_COMPU_METHOD 2 0 255 /end AXIS_PTS\n",
            3 => "/begin COMPU_TAB x \"\" TAB_INTP 1 1 1 /end COMPU_TAB\n",
            4 => "/begin COMPU_VTAB x \"\" TAB_VERB 1 1 \"x\" /end COMPU_VTAB\n",
            5 => "/begin TYPEDEF_MEASUREMENT x \"\" UBYTE NO_COMPU_METHOD 0 0 0 255 /end TYPEDEF_MEASUREMENT\n",
            _ => "/begin TYPEDEF_AXIS x \"\" NO_INPUT_QUANTITY rl 0 NO_COMPU_METHOD 2 0 255 /end TYPEDEF_AXIS\n",
        }
    };
    let ns = vrt_choice(3); // 0 objects, 1 tables, 2 typedefs
    let (ka, kb) = match ns { 0 => (vrt_choice(3), vrt_choice(3)), 1 => (3 + vrt_choice(2), 3 + vrt_choice(2)), _ => (5 + vrt_choice(2), 5 + vrt_choice(2)) };
    let mut at = String::from(head); at.push_str(obj(ka)); at.push_str("/end MODULE /end PROJECT");
    let mut bt = String::from(head); bt.push_str(obj(kb)); bt.push_str("/end MODULE /end PROJECT");
    let mut a = load_ok(&at);
    let mut b = load_ok(&bt);
    a.merge_modules(&mut b);
    let m = &a.project.module[0];
    unique_names(m);
    let total = m.objects().len() + m.compu_tabs().len() + m.typedefs().len();
    if ka == kb {
        vrt_check(total == 1, "C08 identical elements are shared");
    } else {
        vrt_check(total == 2, "C08 a same-name element of another kind in the same namespace is added under a fresh name");
    }
}

// ------------------------------------------------------------------ C16: /include is transparent for loading and preserved by writing

const INC_ELEMS: &[&str] = &[
    "/begin MEASUREMENT ms \"\" UBYTE NO_COMPU_METHOD 0 0 0 255\n/end MEASUREMENT\n",
    "/begin UNIT un \"\" \"\" DERIVED\n/end UNIT\n",
    "/begin COMPU_METHOD cm \"\" IDENTICAL \"%6.3\" \"\"\n/end COMPU_METHOD\n",
];

/// split a document at element boundaries into a main file and include files (quoted / unquoted names, nesting depth <= 2)
pub(crate) fn h_include_transparent() {
    let head = "ASAP2_VERSION 1 71\n/begin PROJECT p \"\"\n/begin MODULE m \"\"\n";
    let tail = "/end MODULE\n/end PROJECT\n";
    // which of the three elements live in the include file(s): 0 = main, 1 = inc1, 2 = inc2 (included from inc1)
    let w0 = vrt_choice(2);
    let w1 = vrt_choice(3);
    let w2 = vrt_choice(3);
    let quoted = vrt_choice(2) == 1;
    let place = [w0, w1, w2];
    let mut flat = String::from(head);
    let mut main = String::from(head);
    let mut inc1 = String::new();
    let mut inc2 = String::new();
    for i in 0..3 {
        flat.push_str(INC_ELEMS[i]);
        match place[i] { 0 => main.push_str(INC_ELEMS[i]), 1 => inc1.push_str(INC_ELEMS[i]), _ => inc2.push_str(INC_ELEMS[i]) }
    }
    let uses2 = !inc2.is_empty();
    let uses1 = !inc1.is_empty() || uses2;
    if uses2 { inc1.push_str("/include inc2.a2l\n"); }
    if uses1 { main.push_str(if quoted { "/include \"inc1.a2l\"\n" } else { "/include inc1.a2l\n" }); }
    // a further include directive of the main file behind the (possibly nested) one
    let with_tail = vrt_choice(2) == 1;
    if with_tail {
        let extra = "/begin RECORD_LAYOUT rlx FNC_VALUES 1 UBYTE ROW_DIR DIRECT\n/end RECORD_LAYOUT\n";
        flat.push_str(extra);
        vrt_fs_write("inc3.a2l", extra.as_bytes());
        main.push_str("/include inc3.a2l\n");
    }
    flat.push_str(tail);
    main.push_str(tail);
    vrt_fs_write("inc2.a2l", inc2.as_bytes());
    vrt_fs_write("inc1.a2l", inc1.as_bytes());
    let path = vrt_fs_write("main.a2l", main.as_bytes());
    let (flat_file, _) = load_from_string(&flat, None, true).unwrap();
    match load(&path, None, true) {
        Ok((mut file, log)) => {
            vrt_check(log.is_empty(), "C16 a file with includes loads without diagnostics");
            vrt_check(file == flat_file, "C16 loading through /include yields the same model as loading the flattened text");
            let out = file.write_to_string();
            if uses1 || with_tail {
                vrt_check(out.contains("/include"), "C16 writing reproduces the include directive");
                vrt_check(!out.contains("MEASUREMENT") || place[0] == 0, "C16 included elements are not written into the including file");
            }
            // the written main file, in the same directory, loads to an equal model
            let path2 = vrt_fs_write("main2.a2l", out.as_bytes());
            match load(&path2, None, true) {
                Ok((file2, _)) => vrt_check(file2 == flat_file, "C16 the written file loads to an equal model from the same directory"),
                Err(_) => vrt_check(false, "C16 the written file loads again"),
            }
            file.merge_includes();
            let out3 = file.write_to_string();
            vrt_check(!out3.contains("/include"), "C16 merge_includes makes the output self-contained");
            match load_from_string(&out3, None, true) {
                Ok((file3, _)) => vrt_check(file3 == flat_file, "C16 the self-contained output loads to an equal model"),
                Err(_) => vrt_check(false, "C16 the self-contained output loads"),
            }
        }
        Err(_) => vrt_check(false, "C16 a file whose include files exist loads"),
    }
}

/// include names are resolved relative to the including file: sub-directories, both separators, quoted and unquoted
/// names, a decoy file of the same name in the directory of the main file (= current directory), and an A2ML
/// /include inside an included fragment that lives in a sub-directory
pub(crate) fn h_include_paths() {
    let sep = if vrt_choice(2) == 1 { "\\" } else { "/" };
    let quoted = vrt_choice(2) == 1;
    let main_in_subdir = vrt_choice(2) == 1;       // the main file itself lives in a directory below the current one
    let with_a2ml = vrt_choice(2) == 1;
    let head = "ASAP2_VERSION 1 71\n/begin PROJECT p \"\"\n/begin MODULE m \"\"\n";
    let tail = "/end MODULE\n/end PROJECT\n";
    let ms = "/begin MEASUREMENT ms \"\" UBYTE NO_COMPU_METHOD 0 0 0 255\n/end MEASUREMENT\n";
    let good = "/begin COMPU_METHOD cm_good \"\" IDENTICAL \"%6.3\" \"\"\n/end COMPU_METHOD\n";
    let decoy = "/begin COMPU_METHOD cm_decoy \"\" IDENTICAL \"%6.3\" \"\"\n/end COMPU_METHOD\n";
    let aml_good = "block \"IF_DATA\" taggedunion if_data { \"XA\" uint; };";
    let aml_decoy = "block \"IF_DATA\" taggedunion if_data { \"XB\" uint; };";
    let ifd = "/begin IF_DATA XA 1\n/end IF_DATA\n";
    let base = if main_in_subdir { "proj/" } else { "" };
    // proj?/main.a2l -> ecu/meas.a2l -> common.a2l (means ecu/common.a2l), decoys: common.a2l next to main and in the current directory
    let mut meas = String::from(ms);
    meas.push_str(if quoted { "/include \"common.a2l\"\n" } else { "/include common.a2l\n" });
    if with_a2ml {
        meas.push_str("/begin A2ML\n/include \"defs.aml\"\n/end A2ML\n");
        meas.push_str(ifd);
    }
    let mut main = String::from(head);
    main.push_str("/include ");
    if quoted { main.push('"'); }
    main.push_str("ecu");
    main.push_str(sep);
    main.push_str("meas.a2l");
    if quoted { main.push('"'); }
    main.push('\n');
    main.push_str(tail);
    let mut flat = String::from(head);
    flat.push_str(ms);
    flat.push_str(good);
    if with_a2ml {
        flat.push_str("/begin A2ML\n");
        flat.push_str(aml_good);
        flat.push_str("\n/end A2ML\n");
        flat.push_str(ifd);
    }
    flat.push_str(tail);
    let mut n = String::from(base); n.push_str("ecu/meas.a2l");
    vrt_fs_write(&n, meas.as_bytes());
    let mut n = String::from(base); n.push_str("ecu/common.a2l");
    vrt_fs_write(&n, good.as_bytes());
    let mut n = String::from(base); n.push_str("common.a2l");
    vrt_fs_write(&n, decoy.as_bytes());
    vrt_fs_write("common.a2l", decoy.as_bytes());
    if with_a2ml {
        let mut n = String::from(base); n.push_str("ecu/defs.aml");
        vrt_fs_write(&n, aml_good.as_bytes());
        let mut n = String::from(base); n.push_str("defs.aml");
        vrt_fs_write(&n, aml_decoy.as_bytes());
        vrt_fs_write("defs.aml", aml_decoy.as_bytes());
    }
    let mut n = String::from(base); n.push_str("main.a2l");
    let path = vrt_fs_write(&n, main.as_bytes());
    let (flat_file, _) = load_from_string(&flat, None, true).unwrap();
    match load(&path, None, true) {
        Ok((mut file, log)) => {
            vrt_check(log.is_empty(), "C16 a file with includes in sub-directories loads without diagnostics");
            let m = &file.project.module[0];
            vrt_check(m.compu_method.contains_key("cm_good") && !m.compu_method.contains_key("cm_decoy"), "C16 a nested include name is resolved relative to the including file, not to the main file or the current directory");
            vrt_check(m.measurement.len() == flat_file.project.module[0].measurement.len() && m.compu_method.len() == 1, "C16 the included elements are loaded exactly once");
            if with_a2ml {
                vrt_check(m.if_data.len() == 1 && m.if_data[0].ifdata_valid, "C16 an A2ML /include inside an included file is resolved relative to that file");
            } else {
                vrt_check(file == flat_file, "C16 loading through /include in sub-directories yields the same model as loading the flattened text");
            }
            let out = file.write_to_string();
            vrt_check(out.contains("/include"), "C16 writing reproduces the include directive");
            let mut n2 = String::from(base); n2.push_str("main2.a2l");
            let path2 = vrt_fs_write(&n2, out.as_bytes());
            match load(&path2, None, true) {
                Ok((file2, _)) => vrt_check(file2 == file, "C16 the written file loads to an equal model from the same directory"),
                Err(_) => vrt_check(false, "C16 the written file loads again from the same directory"),
            }
            file.merge_includes();
            let out3 = file.write_to_string();
            vrt_check(!out3.contains("/include \"ecu") && !out3.contains("/include ecu") && !out3.contains("/include common") && !out3.contains("/include \"common"), "C16 merge_includes makes the A2L output self-contained");
        }
        Err(_) => vrt_check(false, "C16 a file whose include files exist in sub-directories loads"),
    }
    vrt_cover(true, "include_paths_end");
}

/// include files that contribute nothing or little: empty, only a comment, only white space; the directive as the
/// last item of a block; one include file that holds several elements; an element between two directives
pub(crate) fn h_include_edge_cases() {
    let content = match vrt_choice(5) {
        0 => "",
        1 => "/* only a comment */\n",
        2 => "\n  \n",
        3 => "/begin MEASUREMENT m1 \"\" UBYTE NO_COMPU_METHOD 0 0 0 255\n/end MEASUREMENT\n/begin MEASUREMENT m2 \"\" UBYTE NO_COMPU_METHOD 0 0 0 255\n/end MEASUREMENT\n",
        _ => "/begin UNIT u1 \"\" \"\" DERIVED\n/end UNIT\n// trailing comment\n",
    };
    let place = vrt_choice(3);   // 0: first item of MODULE, 1: between two elements, 2: last item of MODULE
    let quoted = vrt_choice(2) == 1;
    let e1 = "/begin COMPU_METHOD c1 \"\" IDENTICAL \"%6.3\" \"\"\n/end COMPU_METHOD\n";
    let e2 = "/begin COMPU_METHOD c2 \"\" IDENTICAL \"%6.3\" \"\"\n/end COMPU_METHOD\n";
    let head = "ASAP2_VERSION 1 71\n/begin PROJECT p \"\"\n/begin MODULE m \"\"\n";
    let tail = "/end MODULE\n/end PROJECT\n";
    let directive = if quoted { "/include \"part.a2l\"\n" } else { "/include part.a2l\n" };
    let mut main = String::from(head);
    let mut flat = String::from(head);
    if place == 0 { main.push_str(directive); flat.push_str(content); }
    main.push_str(e1); flat.push_str(e1);
    if place == 1 { main.push_str(directive); flat.push_str(content); }
    main.push_str(e2); flat.push_str(e2);
    if place == 2 { main.push_str(directive); flat.push_str(content); }
    main.push_str(tail); flat.push_str(tail);
    vrt_fs_write("part.a2l", content.as_bytes());
    let path = vrt_fs_write("main.a2l", main.as_bytes());
    let (flat_file, _) = load_from_string(&flat, None, true).unwrap();
    match load(&path, None, true) {
        Ok((mut file, _)) => {
            vrt_check(file == flat_file, "C16 loading through /include yields the same model as loading the flattened text (sparse include files)");
            let out = file.write_to_string();
            let path2 = vrt_fs_write("main2.a2l", out.as_bytes());
            match load(&path2, None, true) {
                Ok((file2, _)) => vrt_check(file2 == flat_file, "C16 the written file loads to an equal model from the same directory (sparse include files)"),
                Err(_) => vrt_check(false, "C16 the written file loads again (sparse include files)"),
            }
            file.merge_includes();
            let out3 = file.write_to_string();
            vrt_check(!out3.contains("/include"), "C16 merge_includes makes the output self-contained (sparse include files)");
            match load_from_string(&out3, None, true) {
                Ok((file3, _)) => vrt_check(file3 == flat_file, "C16 the self-contained output loads to an equal model (sparse include files)"),
                Err(_) => vrt_check(false, "C16 the self-contained output loads (sparse include files)"),
            }
        }
        Err(_) => vrt_check(false, "C16 a file whose include file exists loads (sparse include files)"),
    }
    vrt_cover(true, "include_edge_cases_end");
}

/// an /include inside an IF_DATA block (with and without an A2ML definition for it): the content is loaded as if it
/// stood there, the directive is written back, merge_includes() makes the output self-contained
pub(crate) fn h_include_in_ifdata() {
    let with_a2ml = vrt_choice(2) == 1;
    let quoted = vrt_choice(2) == 1;
    let split = vrt_choice(3);            // which part of the IF_DATA content comes from the include file
    let head = "ASAP2_VERSION 1 71\n/begin PROJECT p \"\"\n/begin MODULE m \"\"\n";
    let aml = "/begin A2ML\nblock \"IF_DATA\" taggedunion if_data { \"XCP\" taggedstruct { \"VER\" uint; block \"DAQ\" struct { uint; }; (\"EV\" uint)*; }; };\n/end A2ML\n";
    let parts = ["VER 1\n", "/begin DAQ 2\n/end DAQ\n", "EV 3\nEV 4\n"];
    let directive = if quoted { "/include \"part.aml\"\n" } else { "/include part.aml\n" };
    let mut main = String::from(head);
    let mut flat = String::from(head);
    if with_a2ml { main.push_str(aml); flat.push_str(aml); }
    main.push_str("/begin IF_DATA XCP\n");
    flat.push_str("/begin IF_DATA XCP\n");
    for i in 0..3u32 {
        flat.push_str(parts[i as usize]);
        if i == split { main.push_str(directive); } else { main.push_str(parts[i as usize]); }
    }
    main.push_str("/end IF_DATA\n/end MODULE\n/end PROJECT\n");
    flat.push_str("/end IF_DATA\n/end MODULE\n/end PROJECT\n");
    vrt_fs_write("part.aml", parts[split as usize].as_bytes());
    let path = vrt_fs_write("main.a2l", main.as_bytes());
    let (flat_file, _) = load_from_string(&flat, None, true).unwrap();
    match load(&path, None, true) {
        Ok((mut file, _)) => {
            vrt_check(file == flat_file, "C16 an /include inside IF_DATA yields the same model as the flattened text");
            vrt_check(file.project.module[0].if_data[0].ifdata_valid == with_a2ml, "C16 (harness) the IF_DATA is interpreted exactly when the A2ML definition is present");
            let out = file.write_to_string();
            let path2 = vrt_fs_write("main2.a2l", out.as_bytes());
            match load(&path2, None, true) {
                Ok((file2, _)) => vrt_check(file2 == flat_file, "C16 the written file (include inside IF_DATA) loads to an equal model from the same directory"),
                Err(_) => vrt_check(false, "C16 the written file (include inside IF_DATA) loads again"),
            }
            file.merge_includes();
            let out3 = file.write_to_string();
            vrt_check(!out3.contains("/include"), "C16 merge_includes makes the output self-contained, also inside IF_DATA");
            match load_from_string(&out3, None, true) {
                Ok((file3, _)) => vrt_check(file3 == flat_file, "C16 the self-contained output (include inside IF_DATA) loads to an equal model"),
                Err(_) => vrt_check(false, "C16 the self-contained output (include inside IF_DATA) loads"),
            }
        }
        Err(_) => vrt_check(false, "C16 a file with an /include inside IF_DATA loads"),
    }
    vrt_cover(true, "include_in_ifdata_end");
}

/// a missing include file is an error naming the directive, not a panic or a partial result
pub(crate) fn h_include_missing() {
    let quoted = vrt_choice(2) == 1;
    let nested = vrt_choice(2) == 1;
    let mut main = String::from("ASAP2_VERSION 1 71\n/begin PROJECT p \"\"\n/begin MODULE m \"\"\n");
    main.push_str(if quoted { "/include \"inc1.a2l\"\n" } else { "/include inc1.a2l\n" });
    main.push_str("/end MODULE\n/end PROJECT\n");
    if nested {
        vrt_fs_write("inc1.a2l", b"/include gone.a2l\n");
    }
    let path = vrt_fs_write("mainx.a2l", main.as_bytes());
    match load(&path, None, false) {
        Ok(_) => vrt_check(nested == false && false, "C16 a missing include file is reported as an error"),
        Err(e) => {
            let msg = e.to_string();
            vrt_check(msg.contains(if nested { "gone.a2l" } else { "inc1.a2l" }), "C16 the error names the include directive that failed");
        }
    }
}

// ------------------------------------------------------------------ C06: strict and non-strict loading agree except on recoverable problems

fn is_deprecation(e: &A2lError) -> bool {
    match e {
        A2lError::ParserError { parser_error } => matches!(parser_error, ParserError::BlockRefDeprecated { .. } | ParserError::EnumRefDeprecated { .. }),
        _ => false,
    }
}

fn error_line(e: &A2lError) -> Option<u32> {
    match e {
        A2lError::ParserError { parser_error } => match parser_error {
            ParserError::UnexpectedTokenType { error_line, .. } | ParserError::MalformedNumber { error_line, .. }
            | ParserError::InvalidEnumValue { error_line, .. } | ParserError::InvalidMultiplicityTooMany { error_line, .. }
            | ParserError::InvalidMultiplicityNotPresent { error_line, .. } | ParserError::IncorrectBlockError { error_line, .. }
            | ParserError::IncorrectKeywordError { error_line, .. } | ParserError::IncorrectEndTag { error_line, .. }
            | ParserError::UnknownSubBlock { error_line, .. } | ParserError::UnexpectedEOF { error_line, .. }
            | ParserError::StringTooLong { error_line, .. } | ParserError::BlockRefTooNew { error_line, .. }
            | ParserError::BlockRefDeprecated { error_line, .. } | ParserError::EnumRefTooNew { error_line, .. }
            | ParserError::EnumRefDeprecated { error_line, .. } | ParserError::InvalidIdentifier { error_line, .. }
            | ParserError::AdditionalTokensError { error_line, .. } => Some(*error_line),
            _ => None,
        },
        _ => None,
    }
}

/// one document per fault kind; the faulty element starts on line 6. With `split` the first parameter of that
/// element stands on line 7 (so a diagnostic about the parameter must say 7, one about the element 6).
/// Kinds 11 / 12: the version line is missing / names a version the library does not know.
fn faulty_document(kind: u32, split: bool) -> (String, u32) {
    // returns (text, line of the token at which the problem is detected)
    let version = if kind == 7 || kind == 8 { "ASAP2_VERSION 1 60\n" } else if kind == 11 { "\n" } else if kind == 12 { "ASAP2_VERSION 1 80\n" } else { "ASAP2_VERSION 1 71\n" };
    let mut t = String::from(version);
    if kind == 16 {
        // a required element is missing: PROJECT without MODULE (diagnostic at the /end of the block)
        t.push_str("/begin PROJECT p \"\"\n/begin HEADER \"h\"\n/end HEADER\n/end PROJECT\n");
        return (t, 5);
    }
    if kind >= 13 && kind <= 15 {
        // a block closed with the wrong end tag: A2ML (hand-written parser), IF_DATA, ordinary generated block
        t.push_str("/begin PROJECT p \"\"\n/begin MODULE m \"\"\n/begin MEASUREMENT ms \"\" UBYTE NO_COMPU_METHOD 0 0 0 255\n/end MEASUREMENT\n/begin UNIT u \"\" \"\" DERIVED\n");
        t.push_str(match kind {
            13 => "/end UNIT\n/begin A2ML block \"IF_DATA\" taggedunion { \"X\" uint; };\n/end A2ML_BLOCK\n",
            14 => "/end UNIT\n/begin IF_DATA X 1\n/end IF_DATAX\n",
            _ => "/end UNITS\n",
        });
        t.push_str("/end MODULE\n/end PROJECT\n");
        let line = if kind == 13 || kind == 14 { 9 } else { 7 };
        return (t, line);
    }
    t.push_str("/begin PROJECT p \"\"\n/begin MODULE m \"\"\n/begin MEASUREMENT ms \"\" UBYTE NO_COMPU_METHOD 0 0 0 255\nECU_ADDRESS 0x10\n");
    // line 6:
    let (line6, at_param) = match kind {
        0 => ("FORMAT \"%6.3\"\n", false),                 // no fault
        1 => ("PHYS_UNIT unquoted\n", true),               // identifier in place of a string
        2 => ("FROBNICATE 1 2\n", false),                  // unknown keyword
        3 => ("ECU_ADDRESS 0x20\n", false),                // optional element occurs too often
        4 => ("/begin FORMAT \"%6.3\" /end FORMAT\n", false), // keyword written as block: hard fault in both modes
        5 => ("BYTE_ORDER MSB_LAST_ODD\n", true),          // unknown enum value: hard fault
        6 => ("ECU_ADDRESS\n", false),                     // missing parameter: hard fault
        7 => ("ADDRESS_TYPE PBYTE\n", false),              // element newer than the declared file version (1.7.0 > 1.6.0)
        8 => ("FORMAT \"%6.3\"\n", false),                 // older version, nothing wrong
        9 => ("/begin FUNCTION_LIST 1fn /end FUNCTION_LIST\n", true), // identifier starting with a digit
        17 => ("BYTE_ORDER BIG_ENDIAN\n", true),          // enum value that is deprecated at the declared version: a notice, not a problem
        _ => ("FORMAT \"%6.3\"\n", false),
    };
    if split {
        // put the first parameter on its own line: "KEYWORD param" -> "KEYWORD\nparam", "/begin KEYWORD param" likewise
        let skip = if line6.starts_with("/begin ") { 7 } else { 0 };
        match line6[skip..].find(' ') {
            Some(p) => { t.push_str(&line6[..skip + p]); t.push('\n'); t.push_str(&line6[skip + p + 1..]); }
            None => t.push_str(line6),
        }
    } else {
        t.push_str(line6);
    }
    t.push_str("/end MEASUREMENT\n/end MODULE\n/end PROJECT\n");
    if kind == 10 { t.push_str("SOMETHING_ELSE\n"); }      // additional tokens after the end of the file content
    let has_second_line = split && line6.trim_end().contains(' ');
    let line = if kind == 10 { if has_second_line { 11 } else { 10 } } else if at_param && has_second_line { 7 } else { 6 };
    (t, line)
}

pub(crate) fn h_strict_vs_nonstrict() {
    let kind = vrt_choice(18);
    let split = vrt_choice(2) == 1;
    let (text, fault_line) = faulty_document(kind, split);
    let strict = load_from_string(&text, None, true);
    let relaxed = load_from_string(&text, None, false);
    match (&strict, &relaxed) {
        (Ok((fs, ls)), Ok((fr, lr))) => {
            vrt_check(fs == fr, "C06 both modes yield equal models when both succeed");
            vrt_check(ls.iter().all(is_deprecation), "C06 strict loading succeeds only with deprecation notices");
            vrt_check(lr.iter().all(is_deprecation), "C06 strict loading fails exactly when non-strict loading reports a problem other than a deprecation notice");
        }
        (Ok(_), Err(_)) => vrt_check(false, "C06 if strict loading succeeds, non-strict loading succeeds as well"),
        (Err(_), Ok((_, lr))) => {
            vrt_check(lr.iter().any(|e| !is_deprecation(e)), "C06 if non-strict loading succeeds without problems, strict loading succeeds");
            // every diagnostic carries the line of the token at which the problem was detected
            for e in lr.iter() {
                if let Some(l) = error_line(e) {
                    // kind 3 (element occurs too often): detected after the repeated element was parsed - its first or its last token
                    vrt_check(l == fault_line || (kind == 3 && split && l == 7), "C06 every diagnostic carries the line of the token at which the problem was detected");
                }
            }
        }
        (Err(_), Err(_)) => {}
    }
    if let Err(e) = &strict {
        // the strict error is about the same token
        if let Some(l) = error_line(e) {
            if kind != 4 && kind != 6 {
                vrt_check(l == fault_line || (kind == 3 && split && l == 7), "C06 the strict error carries the line of the token at which the problem was detected");
            }
        }
    }
    vrt_observe_bool(strict.is_ok());
    vrt_observe_bool(relaxed.is_ok());
    match kind {
        0 | 8 => vrt_check(strict.is_ok(), "C06 a valid document loads in strict mode"),
        17 => {
            vrt_check(strict.is_ok() && relaxed.is_ok(), "C06 a deprecated enum value does not make loading fail in either mode");
            if let Ok((_, lr)) = &relaxed { vrt_check(lr.len() == 1 && is_deprecation(&lr[0]), "C06 a deprecated enum value is reported as a deprecation notice"); }
        }
        1 | 2 | 3 | 7 | 9 | 10 | 11 | 12 | 13 | 14 | 15 | 16 => {
            vrt_check(strict.is_err(), "C06 strict loading rejects a recoverable problem");
            vrt_check(relaxed.is_ok(), "C06 non-strict loading recovers from a recoverable problem");
        }
        _ => {}
    }
}

/// C06 over the generated deviation family: every document with one recoverable problem (element too often, element or
/// enum value newer than the file version, required element missing, block closed with another tag) is rejected by
/// strict loading and accepted - with a diagnostic - by non-strict loading. The same call (error_or_log) sits in every
/// generated element parser: one document per block of the grammar reaches each of them.
fn strict_vs_nonstrict_generated(idx: &[u32]) {
    vrt_cover(!idx.is_empty(), "c06 generated documents are in place");
    if idx.is_empty() { return; }
    let k = idx[vrt_choice(idx.len() as u32) as usize];
    let (text, _kind, _expect, _hard) = crate::verif_dev::dev_doc(k);
    let strict = load_from_string(text, None, true);
    let relaxed = load_from_string(text, None, false);
    vrt_check(strict.is_err(), "C06 strict loading rejects a recoverable problem in every element of the grammar");
    match &relaxed {
        Ok((_, log)) => vrt_check(log.iter().any(|e| !is_deprecation(e)), "C06 non-strict loading reports the recoverable problem it recovered from"),
        Err(_) => vrt_check(false, "C06 non-strict loading recovers from a recoverable problem in every element of the grammar"),
    }
    vrt_observe_u64(k as u64);
}
pub(crate) fn h_strict_vs_nonstrict_end_tags() { strict_vs_nonstrict_generated(crate::verif_dev::DEV_END_TAG); }
pub(crate) fn h_strict_vs_nonstrict_recoverable() { strict_vs_nonstrict_generated(crate::verif_dev::DEV_RECOVERABLE); }

// ------------------------------------------------------------------ C14: sort() on a module that populates every list

const ALL_KINDS_T: &str = "ASAP2_VERSION 1 71 /begin PROJECT p \"\" /begin MODULE m \"\"
/begin UNIT @b \"\" \"\" DERIVED /end UNIT /begin UNIT @a \"\" \"\" DERIVED /end UNIT
/begin TRANSFORMER @b \"v\" \"x\" \"y\" 1 ON_CHANGE NO_INVERSE_TRANSFORMER /end TRANSFORMER /begin TRANSFORMER @a \"v\" \"x\" \"y\" 1 ON_CHANGE NO_INVERSE_TRANSFORMER /end TRANSFORMER
/begin RECORD_LAYOUT @b /end RECORD_LAYOUT /begin RECORD_LAYOUT @a /end RECORD_LAYOUT
/begin GROUP @b \"\" /end GROUP /begin GROUP @a \"\" /end GROUP
/begin FUNCTION @b \"\" /end FUNCTION /begin FUNCTION @a \"\" /end FUNCTION
/begin FRAME @b \"\" 1 2 /end FRAME /begin FRAME @a \"\" 1 2 /end FRAME
/begin TYPEDEF_BLOB @tbb \"\" 4 /end TYPEDEF_BLOB /begin TYPEDEF_BLOB @tba \"\" 4 /end TYPEDEF_BLOB
/begin TYPEDEF_AXIS @tab \"\" NO_INPUT_QUANTITY rl 0 NO_COMPU_METHOD 2 0 255 /end TYPEDEF_AXIS /begin TYPEDEF_AXIS @taa \"\" NO_INPUT_QUANTITY rl 0 NO_COMPU_METHOD 2 0 255 /end TYPEDEF_AXIS
/begin TYPEDEF_MEASUREMENT @tmb \"\" UBYTE NO_COMPU_METHOD 0 0 0 255 /end TYPEDEF_MEASUREMENT /begin TYPEDEF_MEASUREMENT @tma \"\" UBYTE NO_COMPU_METHOD 0 0 0 255 /end TYPEDEF_MEASUREMENT
/begin TYPEDEF_CHARACTERISTIC @tcb \"\" VALUE rl 0 NO_COMPU_METHOD 0 255 /end TYPEDEF_CHARACTERISTIC /begin TYPEDEF_CHARACTERISTIC @tca \"\" VALUE rl 0 NO_COMPU_METHOD 0 255 /end TYPEDEF_CHARACTERISTIC
/begin TYPEDEF_STRUCTURE @tsb \"\" 4 /end TYPEDEF_STRUCTURE /begin TYPEDEF_STRUCTURE @tsa \"\" 4 /end TYPEDEF_STRUCTURE
/begin COMPU_VTAB_RANGE @vrb \"\" 1 1 2 \"x\" /end COMPU_VTAB_RANGE /begin COMPU_VTAB_RANGE @vra \"\" 1 1 2 \"x\" /end COMPU_VTAB_RANGE
/begin COMPU_VTAB @cvb \"\" TAB_VERB 1 1 \"x\" /end COMPU_VTAB /begin COMPU_VTAB @cva \"\" TAB_VERB 1 1 \"x\" /end COMPU_VTAB
/begin COMPU_TAB @ctb \"\" TAB_INTP 1 1 1 /end COMPU_TAB /begin COMPU_TAB @cta \"\" TAB_INTP 1 1 1 /end COMPU_TAB
/begin COMPU_METHOD @b \"\" IDENTICAL \"%6.3\" \"\" /end COMPU_METHOD /begin COMPU_METHOD @a \"\" IDENTICAL \"%6.3\" \"\" /end COMPU_METHOD
/begin BLOB @blb \"\" 0 4 /end BLOB /begin BLOB @bla \"\" 0 4 /end BLOB
/begin INSTANCE @inb \"\" tsa 0 /end INSTANCE /begin INSTANCE @ina \"\" tsa 0 /end INSTANCE
/begin AXIS_PTS @apb \"\" 0 NO_INPUT_QUANTITY rl 0 NO_COMPU_METHOD 2 0 255 /end AXIS_PTS /begin AXIS_PTS @apa \"\" 0 NO_INPUT_QUANTITY rl 0 NO_COMPU_METHOD 2 0 255 /end AXIS_PTS
/begin MEASUREMENT @msb \"\" UBYTE NO_COMPU_METHOD 0 0 0 255 /end MEASUREMENT /begin MEASUREMENT @msa \"\" UBYTE NO_COMPU_METHOD 0 0 0 255 /end MEASUREMENT
/begin CHARACTERISTIC @chb \"\" VALUE 0 rl 0 NO_COMPU_METHOD 0 255 /end CHARACTERISTIC /begin CHARACTERISTIC @cha \"\" VALUE 0 rl 0 NO_COMPU_METHOD 0 255 /end CHARACTERISTIC
/begin VARIANT_CODING /end VARIANT_CODING
/begin USER_RIGHTS ub /end USER_RIGHTS /begin USER_RIGHTS uc /end USER_RIGHTS /begin USER_RIGHTS ua /end USER_RIGHTS
/begin A2ML block \"IF_DATA\" taggedunion { \"XA\" uint; \"XB\" uint; };
/end A2ML
/begin IF_DATA XA 1 /end IF_DATA /begin IF_DATA XB 2 /end IF_DATA
/begin MOD_PAR \"\" /end MOD_PAR
/begin MOD_COMMON \"\" /end MOD_COMMON
/end MODULE /end PROJECT";

const SORTED_KIND_ORDER: [&str; 26] = ["A2ML", "MOD_COMMON", "MOD_PAR", "IF_DATA", "CHARACTERISTIC", "MEASUREMENT", "AXIS_PTS", "INSTANCE", "BLOB",
    "COMPU_METHOD", "COMPU_TAB", "COMPU_VTAB", "COMPU_VTAB_RANGE", "TYPEDEF_STRUCTURE", "TYPEDEF_CHARACTERISTIC", "TYPEDEF_MEASUREMENT", "TYPEDEF_AXIS",
    "TYPEDEF_BLOB", "FRAME", "FUNCTION", "GROUP", "RECORD_LAYOUT", "TRANSFORMER", "UNIT", "USER_RIGHTS", "VARIANT_CODING"];

fn tag_of(line: &str) -> Option<(String, String)> {
    // "/begin KIND name ..." at the start of a line of the written text -> (KIND, name)
    let l = line.trim_start();
    if let Some(rest) = l.strip_prefix("/begin ") {
        let mut it = rest.split_whitespace();
        let kind = it.next()?.to_string();
        let name = it.next().unwrap_or("").to_string();
        return Some((kind, name));
    }
    None
}

/// every list of the module holds two elements in reverse alphabetical order, and the kinds appear in reverse canonical order
pub(crate) fn h_sort_all_kinds() {
    let (mut file, _) = load_from_string(&expand(ALL_KINDS_T, "", ""), None, false).unwrap();
    let before = file.clone();
    file.sort();
    {
        let m = &file.project.module[0];
        let b = &before.project.module[0];
        contains_all(m, b);
        for e in b.group.iter() { vrt_soft_check(m.group.get(e.get_name()) == Some(e), "C14 GROUP content unchanged by sort"); }
        for e in b.function.iter() { vrt_soft_check(m.function.get(e.get_name()) == Some(e), "C14 FUNCTION content unchanged by sort"); }
        for e in b.blob.iter() { vrt_soft_check(m.blob.get(e.get_name()) == Some(e), "C14 BLOB content unchanged by sort"); }
        for e in b.typedef_blob.iter() { vrt_soft_check(m.typedef_blob.get(e.get_name()) == Some(e), "C14 TYPEDEF_BLOB content unchanged by sort"); }
        for e in b.compu_vtab_range.iter() { vrt_soft_check(m.compu_vtab_range.get(e.get_name()) == Some(e), "C14 COMPU_VTAB_RANGE content unchanged by sort"); }
        vrt_check(m.objects().len() == 10 && m.typedefs().len() == 10 && m.compu_tabs().len() == 6 && m.unit.len() == 2 && m.group.len() == 2 && m.function.len() == 2
            && m.frame.len() == 2 && m.transformer.len() == 2 && m.record_layout.len() == 2 && m.compu_method.len() == 2, "C14 each list holds exactly the same elements after sort()");
    }
    let out = file.write_to_string();
    // module-level blocks of the written file: grouped by kind, alphabetical within a kind
    let mut kinds_seen: Vec<String> = Vec::new();
    let mut last_kind = String::new();
    let mut last_name = String::new();
    let mut n_blocks = 0;
    for line in out.lines() {
        if let Some((kind, name)) = tag_of(line) {
            if kind == "PROJECT" || kind == "MODULE" { continue; }
            n_blocks += 1;
            if kind != last_kind {
                vrt_check(!kinds_seen.contains(&kind), "C14 the written file lists the elements grouped by kind");
                kinds_seen.push(kind.clone());
                last_kind = kind;
            } else {
                vrt_check(last_name.as_str() < name.as_str(), "C14 the written file lists the elements of a kind alphabetically by name");
            }
            last_name = name;
        }
    }
    vrt_check(n_blocks == 49 && kinds_seen.len() == 26, "C14 the written file contains every element of every kind");
    {
        let m = &file.project.module[0];
        let b = &before.project.module[0];
        vrt_check(m.user_rights.len() == 3 && m.if_data.len() == 2 && m.a2ml == b.a2ml && m.mod_common == b.mod_common && m.mod_par == b.mod_par && m.variant_coding == b.variant_coding,
            "C14 unnamed lists and optional blocks hold the same elements after sort()");
        for e in b.user_rights.iter() { vrt_check(m.user_rights.iter().any(|x| x == e), "C14 USER_RIGHTS content unchanged by sort"); }
        vrt_check(m.if_data == b.if_data, "C14 IF_DATA blocks unchanged by sort");
        vrt_check(m.user_rights[0].user_level_id == "ua" && m.user_rights[1].user_level_id == "ub" && m.user_rights[2].user_level_id == "uc", "C14 USER_RIGHTS are ordered by user level id");
    }
    // the grouping follows the order documented in sort(): information blocks first, USER_RIGHTS and VARIANT_CODING last
    let mut order_ok = kinds_seen.len() == SORTED_KIND_ORDER.len();
    if order_ok { for i in 0..kinds_seen.len() { if kinds_seen[i] != SORTED_KIND_ORDER[i] { order_ok = false; } } }
    vrt_check(order_ok, "C14 the written file lists the kinds in the order documented in sort()");
    let (reloaded, _) = load_from_string(&out, None, false).unwrap();
    vrt_check(reloaded == file, "C14 loading the sorted output yields the same model in the same order");
    let out2 = reloaded.write_to_string();
    vrt_check(out2 == out, "C14 the sorted output is stable under reload and write");
    let once = file.clone();
    file.sort();
    vrt_check(file == once && file.write_to_string() == out, "C14 sorting a second time changes nothing");
}

/// twin of known finding D21: an A2ML block that follows an IF_DATA block in the source. sort() moves A2ML to the front
/// ("to allow following IF_DATA to be parsed"), so the reloaded file interprets the IF_DATA that was uninterpreted before.
pub(crate) fn h_sort_a2ml_after_ifdata_known_d21() {
    let t = "ASAP2_VERSION 1 71\n/begin PROJECT p \"\"\n/begin MODULE m \"\"\n/begin IF_DATA XA 1\n/end IF_DATA\n/begin A2ML\nblock \"IF_DATA\" taggedunion { \"XA\" uint; };\n/end A2ML\n/end MODULE\n/end PROJECT";
    let (mut file, _) = load_from_string(t, None, false).unwrap();
    file.sort();
    let out = file.write_to_string();
    let (reloaded, _) = load_from_string(&out, None, false).unwrap();
    vrt_check(reloaded == file, "C14 D21 loading the sorted output yields the same model (A2ML after IF_DATA in the source)");
}

// ------------------------------------------------------------------ C18 / C01 / C02: IF_DATA interpreted as the A2ML says; pass-through of uninterpreted data

const AML_DEFS: &[&str] = &[
    "block \"IF_DATA\" struct { int; ulong; float; char[8]; enum { \"A\" = 1, \"B\" = 2 }; };",
    "block \"IF_DATA\" taggedunion { \"T1\" int; block \"B1\" (uint)*; };",
    "block \"IF_DATA\" taggedstruct { (\"REP\" long)*; \"OPT\" struct { int; int64; }; };",
    "block \"IF_DATA\" struct { uint[3]; double; uint64; };",
    "struct Inner { uchar; taggedstruct { \"FLAG\"; \"VAL\" uint; }; }; block \"IF_DATA\" struct { struct Inner; };",
    "block \"IF_DATA\" taggedunion { \"T1\" int; \"T2\" int; \"FLAG\"; };",
    "block \"IF_DATA\" struct { uint; taggedunion { \"A\" int; \"B\" int; }; };",
    "block \"IF_DATA\" struct { char; int; long; int64; int[2]; };",
    "enum E { \"A\", \"B\" = 5, \"C\" }; block \"IF_DATA\" struct { enum E; enum E; };",
    "/* comment */ block \"IF_DATA\" struct { struct { uint; struct { int; }; }; // c\n uchar; };",
    "taggedstruct TS { \"K\" uint; }; block \"IF_DATA\" struct { taggedstruct TS; uint; };",
    "block \"IF_DATA\" taggedunion { block \"B\" taggedstruct { (block \"E\" struct { uint; })*; \"F\"; }; };",
];

/// (conforming instance, instance with a single-token deviation) per definition
const AML_INST: &[(&str, &str)] = &[
    ("-5 0x10 1.5 \"text\" B", "-5 0x10 1.5 \"text\" C"),
    ("/begin B1 1 2 3 /end B1", "/begin B1 1 2 x /end B1"),
    ("REP 1 REP 0x2 OPT 3 -4", "REP 1 REP 0x2 OPT 3"),
    ("1 2 3 2.5 18446744073709551615", "1 2 2.5 18446744073709551615"),
    ("7 FLAG VAL 0xFFFF", "7 FLAG VAL"),
    ("T1 1", "T1 1 T2 2"),                 // a taggedunion holds at most one member
    ("5 A 1", "5 A 1 B 2"),
    ("0x80 0xFFFE 0x80000000 0x8000000000000000 0x8000 0x7FFF", "0x80 0xFFFE 0x80000000 0x8000000000000000 0x8000"),   // signed types in hex with the sign bit set
    ("A C", "A D"),                         // named enum with implicit and explicit values
    ("1 -2 3", "1 -2"),                     // nested anonymous structs, comments inside the A2ML text
    ("K 1 2", "K 1"),                       // taggedstruct referenced by name, followed by a scalar
    ("/begin B /begin E 1 /end E /begin E 2 /end E F /end B", "/begin B /begin E 1 /end E /begin E x /end E /end B"),   // repeated block inside a block
];

fn ifdata_document(def: usize, inst: &str, crlf: bool) -> String {
    let nl = if crlf { "\r\n" } else { "\n" };
    let mut t = String::from("ASAP2_VERSION 1 71");
    t.push_str(nl);
    t.push_str("/begin PROJECT p \"\"");
    t.push_str(nl);
    t.push_str("/begin MODULE m \"\"");
    t.push_str(nl);
    t.push_str("/begin A2ML");
    t.push_str(nl);
    t.push_str(AML_DEFS[def]);
    t.push_str(nl);
    t.push_str("/end A2ML");
    t.push_str(nl);
    t.push_str("/begin IF_DATA ");
    t.push_str(inst);
    t.push_str(nl);
    t.push_str("/end IF_DATA");
    t.push_str(nl);
    t.push_str("/end MODULE");
    t.push_str(nl);
    t.push_str("/end PROJECT");
    t
}

pub(crate) fn h_ifdata_definitions() {
    let def = vrt_choice(AML_DEFS.len() as u32) as usize;
    let conforming = vrt_choice(2) == 0;
    let crlf = vrt_choice(2) == 1;
    let inst = if conforming { AML_INST[def].0 } else { AML_INST[def].1 };
    let text = ifdata_document(def, inst, crlf);
    match load_from_string(&text, None, false) {
        Ok((mut file, _log)) => {
            {
                let ifd = &file.project.module[0].if_data;
                vrt_check(ifd.len() == 1, "C18 the IF_DATA block is kept");
                vrt_check(ifd[0].ifdata_valid == conforming, "C18 IF_DATA is flagged valid exactly when it conforms to the A2ML definition");
            }
            // values survive load and write unchanged (token level), reload gives an equal model, second write is identical
            let out1 = file.write_to_string();
            let a = significant(&text);
            let b = significant(&out1);
            vrt_check(a.len() == b.len(), "C18 load+write keeps the number of significant tokens (A2ML text and IF_DATA content)");
            let n = if a.len() < b.len() { a.len() } else { b.len() };
            for i in 0..n {
                // line ends inside the raw A2ML text may be normalised (whitespace); everything else must be identical
                vrt_check(a[i].0 == b[i].0 && a[i].1.replace('\r', "") == b[i].1.replace('\r', ""), "C18 every IF_DATA / A2ML token survives load and write unchanged");
            }
            match load_from_string(&out1, None, false) {
                Ok((file2, _)) => {
                    vrt_check(file2 == file, "C01 load(write(M)) == M with A2ML and IF_DATA");
                    vrt_check(file2.write_to_string() == out1, "C01 second write is identical with A2ML and IF_DATA");
                }
                Err(_) => vrt_check(false, "C01 the written text loads again"),
            }
            file.ifdata_cleanup();
            vrt_check(file.project.module[0].if_data.len() == if conforming { 1 } else { 0 }, "C18 ifdata_cleanup removes exactly the IF_DATA blocks that are flagged invalid");
        }
        Err(_) => vrt_check(false, "C18 structurally balanced IF_DATA never makes loading fail"),
    }
}

/// the A2ML definition supplied as built-in specification (second argument of load_from_string) instead of an A2ML
/// block in the file: same validity verdicts, same token conservation, same cleanup behaviour
pub(crate) fn h_ifdata_builtin_spec() {
    let def = vrt_choice(AML_DEFS.len() as u32) as usize;
    let conforming = vrt_choice(2) == 0;
    let inst = if conforming { AML_INST[def].0 } else { AML_INST[def].1 };
    let mut text = String::from("ASAP2_VERSION 1 71\n/begin PROJECT p \"\"\n/begin MODULE m \"\"\n/begin IF_DATA ");
    text.push_str(inst);
    text.push_str("\n/end IF_DATA\n/end MODULE\n/end PROJECT");
    match load_from_string(&text, Some(String::from(AML_DEFS[def])), false) {
        Ok((mut file, _log)) => {
            {
                let ifd = &file.project.module[0].if_data;
                vrt_check(ifd.len() == 1, "C18 the IF_DATA block is kept (built-in specification)");
                vrt_check(ifd[0].ifdata_valid == conforming, "C18 IF_DATA is flagged valid exactly when it conforms to the built-in A2ML specification");
            }
            let out1 = file.write_to_string();
            let a = significant(&text);
            let b = significant(&out1);
            vrt_check(a.len() == b.len(), "C18 load+write keeps the number of significant tokens (built-in specification)");
            let n = if a.len() < b.len() { a.len() } else { b.len() };
            for i in 0..n { vrt_check(a[i].0 == b[i].0 && a[i].1 == b[i].1, "C18 every IF_DATA token survives load and write unchanged (built-in specification)"); }
            file.ifdata_cleanup();
            vrt_check(file.project.module[0].if_data.len() == if conforming { 1 } else { 0 }, "C18 ifdata_cleanup removes exactly the IF_DATA blocks that are flagged invalid (built-in specification)");
        }
        Err(_) => vrt_check(false, "C18 structurally balanced IF_DATA never makes loading fail (built-in specification)"),
    }
    // an invalid built-in specification is an error value, not a panic
    let r = load_from_string(&text, Some(String::from("block \"IF_DATA\" struct { uint; ")), false);
    vrt_check(r.is_err(), "C18 an invalid built-in A2ML specification is reported as an error");
    vrt_cover(true, "ifdata_builtin_spec_end");
}

fn number_value(t: &str) -> Option<f64> {
    if t.len() > 2 && (t.starts_with("0x") || t.starts_with("0X")) {
        u64::from_str_radix(&t[2..], 16).ok().map(|v| v as f64)
    } else {
        t.parse::<f64>().ok()
    }
}

/// uninterpreted IF_DATA (no A2ML at all): every token passes through with its value intact
pub(crate) fn h_ifdata_uninterpreted() {
    let payloads: [&str; 11] = ["1", "-7", "0x1F", "4294967297", "0x1FFFFFFFF", "1.5", "\"s\" ident", "/begin X 1 /begin Y \"a\" /end Y /end X",
        "/begin DAQ /begin EVENT 1 /end EVENT /begin EVENT 2 /end EVENT /begin EVENT 3 /end EVENT /end DAQ",
        "KEY 1 KEY 2 /begin B 1 /end B KEY 3", "0.1234567891 -1e-7 1E3"];
    let k = vrt_choice(11) as usize;
    let mut t = String::from("ASAP2_VERSION 1 71\n/begin PROJECT p \"\"\n/begin MODULE m \"\"\n/begin IF_DATA VENDOR ");
    t.push_str(payloads[k]);
    t.push_str("\n/end IF_DATA\n/end MODULE\n/end PROJECT");
    let (file, log) = load_from_string(&t, None, false).unwrap();
    let out1 = file.write_to_string();
    let a = significant(&t);
    let b = significant(&out1);
    vrt_check(a.len() == b.len(), "C02 uninterpreted IF_DATA keeps its number of tokens");
    let n = if a.len() < b.len() { a.len() } else { b.len() };
    let mut changed = false;
    for i in 0..n {
        if a[i].0 == 5 && b[i].0 == 5 {
            // numbers may change their notation, not their value
            if number_value(&a[i].1) != number_value(&b[i].1) { changed = true; }
        } else if !(a[i].0 == b[i].0 && a[i].1 == b[i].1) { changed = true; }
    }
    // a value the library cannot keep must be diagnosed, never silently changed
    vrt_check(!changed || !log.is_empty(), "C02 uninterpreted IF_DATA passes through with its values intact (or the loss is diagnosed)");
}

/// a sequence whose element can match zero tokens must not make the loader spin
pub(crate) fn h_ifdata_empty_sequence() {
    let def = match vrt_choice(3) {
        0 => "block \"IF_DATA\" (taggedstruct { \"X\" int; })*;",
        1 => "block \"IF_DATA\" struct { (taggedstruct { \"X\" int; })*; };",
        _ => "block \"IF_DATA\" (struct { taggedstruct { \"X\" int; }; })*;",
    };
    let mut t = String::from("ASAP2_VERSION 1 71\n/begin PROJECT p \"\"\n/begin MODULE m \"\"\n/begin A2ML\n");
    t.push_str(def);
    t.push_str("\n/end A2ML\n/begin IF_DATA Y 1\n/end IF_DATA\n/end MODULE\n/end PROJECT");
    let r = load_from_string(&t, None, false);
    vrt_observe_bool(r.is_ok());
}

/// layout of list and array parameters: every item of an identifier list, a value-pair list, a long[5] array and a
/// string list may stand on its own line or share the line; the writer must reproduce exactly that
pub(crate) fn h_layout_sequences() {
    // gap kinds: same line / next line / blank line in between; the continuation indent is the writer's own (2 per level)
    let ka = vrt_choice(3);
    let kb = vrt_choice(3);
    let kc = vrt_choice(3);
    fn gap(kind: u32, indent: usize) -> String {
        let mut g = String::new();
        match kind { 0 => g.push(' '), 1 => { g.push('\n'); for _ in 0..indent { g.push(' '); } } _ => { g.push_str("\n\n"); for _ in 0..indent { g.push(' '); } } }
        g
    }
    let mut t = String::from("ASAP2_VERSION 1 71\n/begin PROJECT p \"\"\n  /begin MODULE m \"\"\n");
    // identifier list (items at level 4)
    t.push_str("    /begin FUNCTION f \"\"\n      /begin IN_MEASUREMENT"); t.push_str(&gap(ka, 8)); t.push_str("m1"); t.push_str(&gap(kb, 8)); t.push_str("m2"); t.push_str(&gap(kc, 8)); t.push_str("m3\n      /end IN_MEASUREMENT\n    /end FUNCTION\n");
    // value pairs (struct sequence, level 3)
    t.push_str("    /begin COMPU_VTAB cv \"\" TAB_VERB 2"); t.push_str(&gap(ka, 6)); t.push_str("1"); t.push_str(&gap(kb, 6)); t.push_str("\"one\""); t.push_str(&gap(kc, 6)); t.push_str("2 \"two\"\n    /end COMPU_VTAB\n");
    // array parameter long[5] (level 4)
    t.push_str("    /begin MOD_PAR \"\"\n      /begin MEMORY_LAYOUT PRG_DATA 0x100 0x20"); t.push_str(&gap(ka, 8)); t.push_str("-1"); t.push_str(&gap(kb, 8)); t.push_str("0x2"); t.push_str(&gap(kc, 8)); t.push_str("-3 4 5\n      /end MEMORY_LAYOUT\n    /end MOD_PAR\n");
    // string list (level 5) and float list (level 5)
    t.push_str("    /begin AXIS_PTS ap \"\" 0 NO_INPUT_QUANTITY rl 0 NO_COMPU_METHOD 3 0 10\n      /begin ANNOTATION\n        /begin ANNOTATION_TEXT"); t.push_str(&gap(ka, 10)); t.push_str("\"l1\""); t.push_str(&gap(kb, 10)); t.push_str("\"l2\"\n        /end ANNOTATION_TEXT\n      /end ANNOTATION\n    /end AXIS_PTS\n");
    t.push_str("    /begin CHARACTERISTIC ch \"\" CURVE 0 rl 0 NO_COMPU_METHOD 0 255\n      /begin AXIS_DESCR FIX_AXIS NO_INPUT_QUANTITY NO_COMPU_METHOD 3 0 10\n        /begin FIX_AXIS_PAR_LIST"); t.push_str(&gap(ka, 10)); t.push_str("1.5"); t.push_str(&gap(kb, 10)); t.push_str("2"); t.push_str(&gap(kc, 10)); t.push_str("3000\n        /end FIX_AXIS_PAR_LIST\n      /end AXIS_DESCR\n    /end CHARACTERISTIC\n");
    t.push_str("  /end MODULE\n/end PROJECT\n");
    match load_from_string(&t, None, true) {
        Ok((file, log)) => {
            vrt_check(log.is_empty(), "C05 (harness) the sequence layout document is valid");
            let out1 = file.write_to_string();
            vrt_check(out1.trim() == t.trim(), "C05 line breaks between the items of list and array parameters are reproduced byte for byte");
            match load_from_string(&out1, None, true) {
                Ok((file2, _)) => vrt_check(file2 == file && file2.write_to_string() == out1, "C05 the layout of list parameters is stable over write and reload"),
                Err(_) => vrt_check(false, "C05 the written document loads again"),
            }
        }
        Err(_) => vrt_check(false, "C05 (harness) the sequence layout document loads in strict mode"),
    }
    vrt_cover(true, "layout_sequences_end");
}

/// multi-line block comments in front of tokens, with LF / CRLF / lone CR line ends: line bookkeeping
/// (get_line_offset subtracts line numbers) must not underflow, and the layout must be stable over write + reload
pub(crate) fn h_comment_layout_lineends() {
    let nl = match vrt_choice(3) { 0 => "\n", 1 => "\r\n", _ => "\r" };
    let k = vrt_choice(4);      // line breaks inside the comment
    let j = vrt_choice(3);      // line breaks between the comment and the next token
    let site = vrt_choice(3);   // header / in front of MODULE / in front of /end MODULE
    let indent = vrt_choice(3); // the comment starts in column 0 / after four blanks / after a tab (the blanks belong to the comment token)
    let mut c = String::from(match indent { 0 => "/* a", 1 => "    /* a", _ => "\t/* a" });
    for _ in 0..k { c.push_str(nl); c.push_str(" b"); }
    c.push_str(" */");
    for _ in 0..j { c.push_str(nl); }
    if j == 0 { c.push(' '); }
    let mut t = String::new();
    if site == 0 { t.push_str(&c); }
    t.push_str("ASAP2_VERSION 1 71"); t.push_str(nl);
    t.push_str("/begin PROJECT p \"\""); t.push_str(nl);
    if site == 1 { t.push_str(&c); }
    t.push_str("/begin MODULE m \"\""); t.push_str(nl);
    if site == 2 { t.push_str(&c); }
    t.push_str("/end MODULE"); t.push_str(nl);
    t.push_str("/end PROJECT");
    match load_from_string(&t, None, true) {
        Ok((file, _)) => {
            let out1 = file.write_to_string();
            match load_from_string(&out1, None, true) {
                Ok((file2, _)) => {
                    vrt_check(file2 == file, "C01 reload of a document with a multi-line comment gives an equal model");
                    vrt_check(file2.write_to_string() == out1, "C05 layout with a multi-line comment is stable over write and reload");
                }
                Err(_) => vrt_check(false, "C01 written document with a multi-line comment loads again"),
            }
        }
        Err(_) => vrt_check(false, "C03 a valid document with a multi-line comment loads in strict mode"),
    }
    vrt_cover(true, "comment_layout_end");
}

/// entry point load_fragment (module content without PROJECT / MODULE), with no / a valid / an invalid built-in A2ML
/// specification: lexeme soups at module level, including a premature `/end MODULE`, unbalanced /begin and /end,
/// an /include of a missing file and the end of input. Must return Ok or Err: no panic, no hang.
fn fragment_soup(n: usize) {
    let mut t = String::new();
    for _ in 0..n {
        match vrt_choice(13) {
            12 => t.push_str("/include "),
            0 => t.push_str("/begin MEASUREMENT ms \"\" UBYTE NO_COMPU_METHOD 0 0 0 255 /end MEASUREMENT "),
            1 => t.push_str("/begin "),
            2 => t.push_str("/end "),
            3 => t.push_str("/end MODULE "),
            4 => t.push_str("UNIT "),
            5 => t.push_str("0x1F "),
            6 => t.push_str("\"s\" "),
            7 => t.push_str("/* c */ "),
            8 => t.push_str("// c\n"),
            9 => t.push_str("/include nofile.a2l "),
            10 => t.push_str("/begin A2ML block \"IF_DATA\" taggedunion { \"X\" uint; }; /end A2ML "),
            _ => t.push_str("/begin IF_DATA X 1 /end IF_DATA "),
        }
    }
    let spec = match vrt_choice(3) {
        0 => None,
        1 => Some(String::from("block \"IF_DATA\" taggedunion { \"X\" uint; };")),
        _ => Some(String::from("block \"IF_DATA\" taggedunion { \"X\" ")),
    };
    let invalid_spec = matches!(&spec, Some(s) if !s.ends_with(';'));
    let r = crate::load_fragment(&t, spec);
    if invalid_spec {
        vrt_check(r.is_err(), "C03 an invalid built-in A2ML specification is reported as an error value");
    }
    if let Ok(module) = &r {
        // what was accepted is a module: it can be put into a file, written and loaded again
        let mut file = crate::new();
        file.project.module[0] = module.clone();
        let out = file.write_to_string();
        vrt_observe_bool(load_from_string(&out, None, false).is_ok());
    }
    vrt_observe_bool(r.is_ok());
}
pub(crate) fn h_fragment_soup_1() { fragment_soup(1); }
pub(crate) fn h_fragment_soup_2() { fragment_soup(2); }
pub(crate) fn h_fragment_soup_3() { fragment_soup(3); }

/// uninterpreted IF_DATA (no A2ML definition): arbitrary lexeme soups inside the block, including comments, an embedded
/// `/begin A2ML` section whose raw text is a single quote, unbalanced /begin and /end and the end of input.
/// Loading must return (Ok or Err): no panic, no hang.
fn ifdata_soup_text(lex: &[u32], closed: bool) -> String {
    let mut t = String::from("ASAP2_VERSION 1 71\n/begin PROJECT p \"\"\n/begin MODULE m \"\"\n/begin IF_DATA X ");
    for l in lex {
        match *l {
            0 => t.push_str("/begin B "),
            1 => t.push_str("/end B "),
            2 => t.push_str("id "),
            3 => t.push_str("0x1F "),
            4 => t.push_str("\"s\" "),
            5 => t.push_str("/* c */ "),
            6 => t.push_str("// c\n"),
            7 => t.push_str("/begin A2ML\"/end A2ML "),
            8 => t.push_str("/begin A2ML x y /end A2ML "),
            9 => t.push_str("\"\" "),
            _ => t.push_str("/include "),       // a directive without a name: in front of another lexeme, or the end of the input
        }
    }
    if closed {
        t.push_str("/end IF_DATA\n/end MODULE\n/end PROJECT");
    }
    t
}

fn ifdata_soup(n: usize) {
    let mut lex = Vec::new();
    for _ in 0..n { lex.push(vrt_choice(11)); }
    let closed = vrt_choice(2) == 0;
    let strict = vrt_choice(2) == 1;
    let t = ifdata_soup_text(&lex, closed);
    let r = load_from_string(&t, None, strict);
    if let Ok((file, _)) = &r {
        // C01: whatever was accepted can be written and loaded again.
        // Known finding D20 (while listed): a line comment followed by tokens that the non-strict loader drops from
        // the line of the closing /end is written with the /end on the comment's line.
        let mut line_comment_not_last = false;
        for i in 0..lex.len() { if lex[i] == 6 && i + 1 < lex.len() { line_comment_not_last = true; } }
        let out = file.write_to_string();
        let reload_ok = load_from_string(&out, None, false).is_ok();
        if !(vrt_known("D20") && line_comment_not_last) {
            vrt_check(reload_ok, "C01 text written from an accepted uninterpreted IF_DATA loads again");
        }
    }
    vrt_observe_bool(r.is_ok());
}
/// twin of known finding D20: exactly the recorded input; must keep failing while the finding is listed
pub(crate) fn h_ifdata_soup_known_d20() {
    let t = ifdata_soup_text(&[1, 6, 2], true);
    let (file, _) = load_from_string(&t, None, false).unwrap();
    let out = file.write_to_string();
    vrt_check(load_from_string(&out, None, false).is_ok(), "C01 D20 text written after a line comment followed by dropped tokens loads again");
}
pub(crate) fn h_ifdata_soup_1() { ifdata_soup(1); }
pub(crate) fn h_ifdata_soup_2() { ifdata_soup(2); }
pub(crate) fn h_ifdata_soup_3() { ifdata_soup(3); }

// ------------------------------------------------------------------ C07 (whole pipeline): unknown elements inside real blocks

/// (block text up to the insertion point list) : documents with numbered insertion points `@k`
const C07_DOC: &str = "ASAP2_VERSION 1 71
/begin PROJECT p \"\"
/begin MODULE m \"\"
@0
/begin RECORD_LAYOUT rl
@1
FNC_VALUES 1 UBYTE ROW_DIR DIRECT
@2
AXIS_PTS_X 2 UBYTE INDEX_INCR DIRECT
@3
AXIS_PTS_Y 3 UBYTE INDEX_INCR DIRECT
@4
OFFSET_X 4 UBYTE
@5
STATIC_RECORD_LAYOUT
@6
/end RECORD_LAYOUT
/begin MEASUREMENT ms \"\" UBYTE NO_COMPU_METHOD 0 0 0 255
@7
ECU_ADDRESS 0x10
@8
FORMAT \"%6.3\"
@9
/end MEASUREMENT
/begin CHARACTERISTIC ch \"\" MAP 0 rl 0 NO_COMPU_METHOD 0 255
@10
/begin AXIS_DESCR STD_AXIS NO_INPUT_QUANTITY NO_COMPU_METHOD 2 0 255
@11
FORMAT \"%6.3\"
@12
/end AXIS_DESCR
/begin AXIS_DESCR STD_AXIS NO_INPUT_QUANTITY NO_COMPU_METHOD 2 0 255 /end AXIS_DESCR
@13
EXTENDED_LIMITS 0 300
@14
/end CHARACTERISTIC
/begin COMPU_METHOD cm \"\" RAT_FUNC \"%6.3\" \"\"
@15
COEFFS 0 1 0 0 0 1
@16
/end COMPU_METHOD
@17
/end MODULE
/end PROJECT";

const C07_POINTS: u32 = 18;

fn c07_document(point: u32, payload: &str) -> String {
    // replace @point by the payload, drop all other markers
    let mut out = String::new();
    for line in C07_DOC.lines() {
        if let Some(num) = line.strip_prefix('@') {
            if num.parse::<u32>().unwrap() == point {
                out.push_str(payload);
                out.push('\n');
            }
        } else {
            out.push_str(line);
            out.push('\n');
        }
    }
    out
}

pub(crate) fn h_unknown_in_real_blocks() {
    let point = vrt_choice(C07_POINTS);
    let payload = match vrt_choice(4) {
        0 => "FROBNICATE 1 \"two\" three",
        1 => "/begin FROBNICATE 1 /begin INNER \"x\" /* c */ /end INNER /end FROBNICATE",
        2 => "FROBNICATE",
        _ => "/begin FROBNICATE /begin A /begin B 1 /end B /end A 0x2 /end FROBNICATE",
    };
    let reference = load_from_string(&c07_document(99, ""), None, true).unwrap().0;
    let text = c07_document(point, payload);
    match load_from_string(&text, None, false) {
        Ok((file, log)) => {
            vrt_check(log.len() == 1, "C07 an unknown element is skipped with exactly one warning");
            vrt_check(file == reference, "C07 the rest of the file is loaded exactly as if the unknown element were not there");
        }
        Err(_) => vrt_check(false, "C07 non-strict mode skips an unknown element"),
    }
    match load_from_string(&text, None, true) {
        Ok(_) => vrt_check(false, "C07 strict mode rejects an unknown element"),
        Err(e) => vrt_check(e.to_string().contains("FROBNICATE"), "C07 the strict-mode error names the unknown element"),
    }
}

// ------------------------------------------------------------------ C11: THIS. references of TYPEDEF_CHARACTERISTICs inside structures

pub(crate) fn h_check_this_refs() {
    // a TYPEDEF_CHARACTERISTIC used as component of 1 or 2 structures; each structure may or may not have the component `ax`
    let two = vrt_choice(2) == 1;
    let has1 = vrt_choice(2) == 1;
    let has2 = vrt_choice(2) == 1;
    let mut t = String::from("ASAP2_VERSION 1 71 /begin PROJECT p \"\" /begin MODULE m \"\"\n/begin RECORD_LAYOUT rl FNC_VALUES 1 UBYTE ROW_DIR DIRECT AXIS_PTS_X 2 UBYTE INDEX_INCR DIRECT /end RECORD_LAYOUT\n");
    t.push_str("/begin TYPEDEF_AXIS tax \"\" NO_INPUT_QUANTITY rl 0 NO_COMPU_METHOD 2 0 255 /end TYPEDEF_AXIS\n");
    t.push_str("/begin TYPEDEF_CHARACTERISTIC tc \"\" CURVE rl 0 NO_COMPU_METHOD 0 255 /begin AXIS_DESCR COM_AXIS NO_INPUT_QUANTITY NO_COMPU_METHOD 2 0 255 AXIS_PTS_REF THIS.ax /end AXIS_DESCR /end TYPEDEF_CHARACTERISTIC\n");
    t.push_str("/begin TYPEDEF_STRUCTURE s1 \"\" 8 /begin STRUCTURE_COMPONENT vals tc 0 /end STRUCTURE_COMPONENT");
    if has1 { t.push_str(" /begin STRUCTURE_COMPONENT ax tax 4 /end STRUCTURE_COMPONENT"); }
    t.push_str(" /end TYPEDEF_STRUCTURE\n");
    if two {
        t.push_str("/begin TYPEDEF_STRUCTURE s2 \"\" 8 /begin STRUCTURE_COMPONENT vals tc 0 /end STRUCTURE_COMPONENT");
        if has2 { t.push_str(" /begin STRUCTURE_COMPONENT ax tax 4 /end STRUCTURE_COMPONENT"); }
        t.push_str(" /end TYPEDEF_STRUCTURE\n");
    }
    t.push_str("/end MODULE /end PROJECT");
    let (file, _) = load_from_string(&t, None, true).unwrap();
    let mut n = 0;
    for e in file.check().iter() {
        if let A2lError::CrossReferenceError { target_name, .. } = e {
            if target_name == "ax" { n += 1; }
        }
    }
    let resolves = has1 && (!two || has2);
    vrt_check((n == 0) == resolves, "C11 a THIS. reference is reported exactly when some containing structure lacks the component");
}

// ------------------------------------------------------------------ C01 / C02 on the repository's own 340-line sample (touches every element kind once)

const SAMPLE_2: &str = include_str!("sample_a2l_2.txt");

pub(crate) fn h_sample_roundtrip() {
    let (file, _log) = load_from_string(SAMPLE_2, None, false).unwrap();
    let out1 = file.write_to_string();
    let a = significant(SAMPLE_2);
    let b = significant(&out1);
    vrt_check(a.len() == b.len(), "C02 load+write keeps the number of significant tokens of the sample document");
    let n = if a.len() < b.len() { a.len() } else { b.len() };
    let mut mismatches = 0u32;
    for i in 0..n {
        let same = if a[i].0 == 5 && b[i].0 == 5 {
            number_value(&a[i].1) == number_value(&b[i].1)
        } else if a[i].0 == 0 && b[i].0 == 4 {
            // an identifier used in place of a string (accepted in non-strict mode) is written as the string it denotes
            b[i].1.len() == a[i].1.len() + 2 && &b[i].1[1..b[i].1.len() - 1] == a[i].1.as_str()
        } else {
            a[i].0 == b[i].0 && a[i].1 == b[i].1
        };
        if !same { mismatches += 1; }
    }
    vrt_observe_u64(mismatches as u64);
    match load_from_string(&out1, None, false) {
        Ok((file2, _)) => {
            vrt_check(file2 == file, "C01 load(write(M)) == M on the sample document");
            let out2 = file2.write_to_string();
            vrt_check(out2 == out1, "C01 the second write of the sample document is identical to the first");
        }
        Err(_) => vrt_check(false, "C01 the written sample document loads again"),
    }
    vrt_check(mismatches == 0, "C02 load+write keeps every significant token of the sample document in order (numbers by value)");
}

// ------------------------------------------------------------------ C20: observation harnesses for the relational check
// (shipped specification.rs vs. a fresh expansion of specification_orig.rs by the in-tree generator). They assert
// nothing; they only observe model, diagnostics and written text. vf/c20.py runs them on both builds and asks the
// solver whether any input makes the observations differ.

fn c20_observe(r: &Result<(A2lFile, Vec<A2lError>), A2lError>) {
    match r {
        Ok((file, log)) => {
            vrt_observe_u64(1);
            vrt_observe_u64(log.len() as u64);
            let mut first_line = 0u32;
            if log.len() > 0 { if let Some(l) = error_line(&log[0]) { first_line = l; } }
            vrt_observe_u64(first_line as u64);
            let out = file.write_to_string();
            vrt_observe_bytes(out.as_bytes());
            // every data field of the model, not only what the writer shows
            vrt_observe_bytes(&crate::verif_fp::fingerprint(file));
        }
        Err(e) => {
            vrt_observe_u64(0);
            vrt_observe_u64(error_line(e).unwrap_or(0) as u64);
            let msg = e.to_string();
            vrt_observe_u64(msg.len() as u64);
        }
    }
}

/// one MEASUREMENT with symbolic content that flows through generated code: file version (version gates of optional
/// elements), data type keyword, an optional element, two symbolic hex digits in ECU_ADDRESS, symbolic strictness
pub(crate) fn h_c20_measurement() {
    let minor = match vrt_choice(6) { 0 => "50", 1 => "51", 2 => "60", 3 => "61", 4 => "70", _ => "71" };
    let strict = vrt_any_bool();
    let dt = match vrt_choice(4) { 0 => "UBYTE", 1 => "SWORD", 2 => "FLOAT64_IEEE", _ => "UQUAD" };
    let opt = match vrt_choice(9) {
        0 => "",
        1 => "ADDRESS_TYPE PBYTE\n",
        2 => "MODEL_LINK \"ml\"\n",
        3 => "DISCRETE\n",
        4 => "LAYOUT ROW_DIR\n",
        5 => "READ_WRITE\n",
        6 => "ERROR_MASK 0xF0\n",
        7 => "ARRAY_SIZE 4\n",
        _ => "BYTE_ORDER LITTLE_ENDIAN\n",
    };
    let h1 = vrt_byte_from(b"09afAFg");
    let h2 = vrt_byte_from(b"09afAFg");
    let mut t = String::from("ASAP2_VERSION 1 ");
    t.push_str(minor);
    t.push_str("\n/begin PROJECT p \"\"\n/begin MODULE m \"\"\n/begin MEASUREMENT ms \"\" ");
    t.push_str(dt);
    t.push_str(" NO_COMPU_METHOD 0 0 0 255\nECU_ADDRESS 0x");
    t.push(h1 as char);
    t.push(h2 as char);
    t.push('\n');
    t.push_str(opt);
    t.push_str("/end MEASUREMENT\n/end MODULE\n/end PROJECT\n");
    let r = load_from_string(&t, None, strict);
    c20_observe(&r);
}

/// the repository's sample document and the all-kinds module: every element kind they contain, load + write (+ sort)
pub(crate) fn h_c20_documents() {
    match vrt_choice(3) {
        0 => c20_observe(&load_from_string(SAMPLE_2, None, false)),
        1 => c20_observe(&load_from_string(SAMPLE_2, None, true)),
        _ => {
            let r = load_from_string(&expand(ALL_KINDS_T, "", ""), None, true);
            c20_observe(&r);
            if let Ok((mut file, _)) = r {
                file.sort();
                vrt_observe_bytes(file.write_to_string().as_bytes());
                file.sort_new_items();
                vrt_observe_bytes(file.write_to_string().as_bytes());
            }
        }
    }
}

/// fault kinds of the C06 family in both modes, unknown elements inside real blocks (C07 family)
pub(crate) fn h_c20_faults() {
    let kind = vrt_choice(18);
    let split = vrt_choice(2) == 1;
    let strict = vrt_choice(2) == 1;
    let (text, _) = faulty_document(kind, split);
    c20_observe(&load_from_string(&text, None, strict));
}

pub(crate) fn h_c20_unknown_elements() {
    let point = vrt_choice(C07_POINTS);
    let payload = match vrt_choice(3) {
        0 => "FROBNICATE 1 \"two\" three",
        1 => "/begin FROBNICATE 1 /begin INNER \"x\" /* c */ /end INNER /end FROBNICATE",
        _ => "FROBNICATE",
    };
    let strict = vrt_choice(2) == 1;
    c20_observe(&load_from_string(&c07_document(point, payload), None, strict));
}

/// consistency check, merge and cleanup on the merge template: generated PartialEq / name accessors / merge glue
pub(crate) fn h_c20_module_ops() {
    let (mut a, _) = load_from_string(&expand(MERGE_T, "", "1"), None, false).unwrap();
    let (mut b, _) = load_from_string(&expand(MERGE_T, "", "2"), None, false).unwrap();
    vrt_observe_u64(a.check().len() as u64);
    a.merge_modules(&mut b);
    vrt_observe_bytes(a.write_to_string().as_bytes());
    a.cleanup();
    vrt_observe_bytes(a.write_to_string().as_bytes());
}

// ------------------------------------------------------------------ every element of the grammar (document generated from the DSL)

const EVERY_ELEMENT: &str = include_str!("verif_every_element.txt");

/// One document that holds every block and keyword of the grammar (generated at check time from the DSL in
/// specification_orig.rs, file version 1.71): it loads in strict mode without a diagnostic, every token is written
/// back, the reloaded model is equal (also field by field through the generated fingerprint), the second write is
/// identical.
pub(crate) fn h_every_element_roundtrip() {
    vrt_cover(!crate::verif_fp::VERIF_FP_STUB, "generated document and fingerprint module are in place");
    match load_from_string(EVERY_ELEMENT, None, true) {
        Ok((file, log)) => {
            vrt_soft_check(log.is_empty(), "C01 a document built from the grammar loads in strict mode without any diagnostic");
            let out1 = file.write_to_string();
            vrt_soft_check(out1.trim() == EVERY_ELEMENT.trim(), "C05 a document in the writer's own format (every element of the grammar) is reproduced byte for byte");
            let a = significant(EVERY_ELEMENT);
            let b = significant(&out1);
            vrt_soft_check(a.len() == b.len(), "C02 load+write keeps the number of significant tokens of the every-element document");
            let n = if a.len() < b.len() { a.len() } else { b.len() };
            let mut mismatches = 0u32;
            for i in 0..n {
                let same = if a[i].0 == 5 && b[i].0 == 5 { number_value(&a[i].1) == number_value(&b[i].1) } else { a[i].0 == b[i].0 && a[i].1 == b[i].1 };
                if !same { mismatches += 1; }
            }
            vrt_soft_check(mismatches == 0, "C02 every token of the every-element document survives load and write with its value");
            match load_from_string(&out1, None, true) {
                Ok((file2, _)) => {
                    vrt_soft_check(file2 == file, "C01 load(write(M)) == M on the every-element document");
                    vrt_soft_check(crate::verif_fp::fingerprint(&file2) == crate::verif_fp::fingerprint(&file), "C01 every data field of the reloaded every-element model is equal");
                    vrt_soft_check(file2.write_to_string() == out1, "C01 the second write of the every-element document is identical to the first");
                }
                Err(_) => vrt_soft_check(false, "C01 the written every-element document loads again"),
            }
            vrt_observe_u64(crate::verif_fp::fingerprint(&file).len() as u64);
        }
        Err(_) => vrt_soft_check(false, "C01 a document built from the grammar loads in strict mode"),
    }
}

/// C20: the every-element document on both builds: diagnostics, written text and every data field of the model
pub(crate) fn h_c20_every_element() {
    vrt_cover(!crate::verif_fp::VERIF_FP_STUB, "generated document and fingerprint module are in place");
    let strict = vrt_choice(2) == 1;
    let r = load_from_string(EVERY_ELEMENT, None, strict);
    c20_observe(&r);
}

// ------------------------------------------------------------------ C04: the grammar element by element (documents generated from the frozen reference grammar)

fn parser_error_variant(e: &A2lError) -> &'static str {
    match e {
        A2lError::ParserError { parser_error } => match parser_error {
            ParserError::UnexpectedTokenType { .. } => "UnexpectedTokenType",
            ParserError::MalformedNumber { .. } => "MalformedNumber",
            ParserError::InvalidEnumValue { .. } => "InvalidEnumValue",
            ParserError::InvalidMultiplicityTooMany { .. } => "InvalidMultiplicityTooMany",
            ParserError::InvalidMultiplicityNotPresent { .. } => "InvalidMultiplicityNotPresent",
            ParserError::IncorrectBlockError { .. } => "IncorrectBlockError",
            ParserError::IncorrectKeywordError { .. } => "IncorrectKeywordError",
            ParserError::IncorrectEndTag { .. } => "IncorrectEndTag",
            ParserError::UnknownSubBlock { .. } => "UnknownSubBlock",
            ParserError::UnexpectedEOF { .. } => "UnexpectedEOF",
            ParserError::StringTooLong { .. } => "StringTooLong",
            ParserError::BlockRefDeprecated { .. } => "BlockRefDeprecated",
            ParserError::BlockRefTooNew { .. } => "BlockRefTooNew",
            ParserError::EnumRefDeprecated { .. } => "EnumRefDeprecated",
            ParserError::EnumRefTooNew { .. } => "EnumRefTooNew",
            ParserError::InvalidIdentifier { .. } => "InvalidIdentifier",
            ParserError::AdditionalTokensError { .. } => "AdditionalTokensError",
            _ => "other",
        },
        _ => "not a parser error",
    }
}

/// document k of the generated family: one (parent, element) pair of the reference grammar, either in its specified
/// form or with exactly one deviation. `chunk` of `chunks` selects every chunks-th document.
fn grammar_deviation(chunk: u32, chunks: u32) {
    let n = crate::verif_dev::N_DEV;
    vrt_cover(n > 0, "deviation documents are in place");
    if n == 0 { return; }
    let per = (n + chunks - 1 - chunk) / chunks;
    let k = chunk + chunks * vrt_choice(per);
    let (text, kind, expect, hard) = crate::verif_dev::dev_doc(k);
    let strict = load_from_string(text, None, true);
    let relaxed = load_from_string(text, None, false);
    if kind == "valid" {
        match &strict {
            Ok((file, log)) => {
                vrt_check(log.is_empty(), "C04 an element in its specified form loads in strict mode without any diagnostic");
                // every value is readable from the model: the written text holds the same tokens
                let out = file.write_to_string();
                let a = significant(text);
                let b = significant(&out);
                let mut same = a.len() == b.len();
                if same { for i in 0..a.len() { if a[i].0 != b[i].0 || (a[i].0 != 5 && a[i].1 != b[i].1) || (a[i].0 == 5 && number_value(&a[i].1) != number_value(&b[i].1)) { same = false; } } }
                vrt_check(same, "C04 every value of an element in its specified form is readable from the model");
            }
            Err(_) => vrt_check(false, "C04 an element in its specified form is accepted in strict mode"),
        }
        match &relaxed {
            Ok((_, log)) => vrt_check(log.is_empty(), "C04 an element in its specified form loads without any diagnostic"),
            Err(_) => vrt_check(false, "C04 an element in its specified form is accepted"),
        }
    } else if hard {
        match (&strict, &relaxed) {
            (Err(es), Err(er)) => {
                if expect != "*" {
                    vrt_check(parser_error_variant(es) == expect && parser_error_variant(er) == expect, "C04 a structural deviation produces the corresponding diagnostic class");
                }
            }
            _ => vrt_check(false, "C04 a structural deviation (missing parameter, wrong block form, unknown enum value) is an error in both modes"),
        }
    } else if kind == "deprecated" {
        match (&strict, &relaxed) {
            (Ok((_, ls)), Ok((_, lr))) => {
                vrt_check(ls.len() == 1 && parser_error_variant(&ls[0]) == expect && lr.len() == 1 && parser_error_variant(&lr[0]) == expect, "C04 a deprecated element produces a deprecation notice");
            }
            _ => vrt_check(false, "C04 a deprecated element is accepted with a notice in both modes"),
        }
    } else {
        match &strict {
            Err(e) => vrt_check(parser_error_variant(e) == expect, "C04 a recoverable deviation makes strict loading fail with the corresponding diagnostic class"),
            Ok(_) => vrt_check(false, "C04 a recoverable deviation (multiplicity, version) is rejected in strict mode"),
        }
        match &relaxed {
            Ok((_, log)) => {
                let mut found = false;
                for e in log.iter() { if parser_error_variant(e) == expect { found = true; } }
                vrt_check(found, "C04 a recoverable deviation is reported with the corresponding diagnostic class in non-strict mode");
            }
            Err(_) => vrt_check(false, "C04 non-strict loading recovers from a recoverable deviation"),
        }
    }
    vrt_observe_u64(k as u64);
}
pub(crate) fn h_grammar_0() { grammar_deviation(0, 4); }
pub(crate) fn h_grammar_1() { grammar_deviation(1, 4); }
pub(crate) fn h_grammar_2() { grammar_deviation(2, 4); }
pub(crate) fn h_grammar_3() { grammar_deviation(3, 4); }

/// version gates with the file version as solver variable: for every version-gated element / enum value of the
/// reference grammar the diagnostic appears exactly for the file versions outside the specified range
pub(crate) fn h_grammar_versions() {
    let n = crate::verif_dev::N_GATED;
    vrt_cover(n > 0, "version-open documents are in place");
    if n == 0 { return; }
    let k = vrt_choice(n);
    let (rest, lo, up, kind) = crate::verif_dev::gated_doc(k);
    let d1 = vrt_byte_from(b"567");
    let d2 = vrt_byte_from(b"01");
    let v = 100 + (d1 - b'0') as u32 * 10 + (d2 - b'0') as u32;
    let mut text = String::from("ASAP2_VERSION 1 ");
    text.push(d1 as char);
    text.push(d2 as char);
    text.push('\n');
    text.push_str(rest);
    let expect = if kind == "too_new" { "BlockRefTooNew" } else if kind == "enum_value_too_new" { "EnumRefTooNew" } else if kind == "enum_value_deprecated" { "EnumRefDeprecated" } else { "BlockRefDeprecated" };
    let strict = load_from_string(&text, None, true);
    match load_from_string(&text, None, false) {
        Ok((_, log)) => {
            let mut has = false;
            for e in log.iter() { if parser_error_variant(e) == expect { has = true; } }
            if lo > 0 {
                vrt_check(has == (v < lo), "C04 an element / enum value is reported as too new exactly for file versions below its lower bound");
                if v >= lo {
                    vrt_check(log.is_empty() && strict.is_ok(), "C04 an element at or above its lower version bound loads without any diagnostic, also in strict mode");
                } else {
                    vrt_check(strict.is_err(), "C04 an element below its lower version bound is rejected in strict mode");
                }
            }
            if up > 0 {
                vrt_check(has == (v > up), "C04 an element is reported as deprecated exactly for file versions above its upper bound");
            }
        }
        Err(_) => vrt_check(false, "C04 non-strict loading accepts a version-gated element at every file version"),
    }
    vrt_observe_u64(v as u64);
}

// ------------------------------------------------------------------ C15 / C01: many children, several new elements tied in the writer's order

/// a module with 24 placed elements (MEASUREMENT / UNIT interleaved) gets 4 new MEASUREMENTs in one go: they are tied
/// in the writer's comparison (same position id after sort_new_items, line 0, same tag), so their output order is the
/// list order only as long as the writer's sort is stable. More than 20 children: std's unstable sort is no longer an
/// insertion sort there.
pub(crate) fn h_sort_new_many_children() {
    let shape = vrt_choice(3);
    let (pairs, news) = match shape { 0 => (12u8, 4u32), 1 => (9u8, 12u32), _ => (5u8, 16u32) };
    let mut t = String::from("ASAP2_VERSION 1 71\n/begin PROJECT p \"\"\n  /begin MODULE m \"\"\n");
    for i in 0..pairs {
        t.push_str("    /begin MEASUREMENT ms");
        t.push((b'a' + i) as char);
        t.push_str(" \"\" UBYTE NO_COMPU_METHOD 0 0 0 255\n    /end MEASUREMENT\n    /begin UNIT un");
        t.push((b'a' + i) as char);
        t.push_str(" \"\" \"\" DERIVED\n    /end UNIT\n");
    }
    t.push_str("  /end MODULE\n/end PROJECT\n");
    let (mut file, _) = load_from_string(&t, None, true).unwrap();
    let first = vrt_choice(4);
    for k in 0..news {
        // insertion order is not alphabetical: rotated by `first`
        let mut name = String::from("new_");
        name.push((b'a' + ((first * 3 + k) % news) as u8) as char);
        file.project.module[0].measurement.push(Measurement::new(name, String::new(), DataType::Ubyte, String::from("NO_COMPU_METHOD"), 0, 0.0, 0.0, 255.0));
    }
    let total = pairs as usize + news as usize;
    file.sort_new_items();
    let out1 = file.write_to_string();
    // the new elements are written behind the last placed MEASUREMENT, in list order
    let mut names: Vec<String> = Vec::new();
    for line in out1.lines() {
        if let Some((kind, name)) = tag_of(line) { if kind == "MEASUREMENT" { names.push(name); } }
    }
    vrt_check(names.len() == total, "C15 every MEASUREMENT is written");
    if names.len() == total {
        // sort_new_items orders the new elements of a kind by name inside the list; the writer must keep that order
        let list = &file.project.module[0].measurement;
        for k in 0..total {
            vrt_check(names[k] == list[k].get_name(), "C15 elements are written in the order of the list (new elements placed in one call are tied in the writer's comparison)");
        }
        for k in (pairs as usize)..total {
            vrt_check(names[k].starts_with("new_"), "C15 new elements are written behind the last placed element of their kind");
        }
    }
    match load_from_string(&out1, None, true) {
        Ok((file2, _)) => vrt_check(file2 == file, "C01 load(write(M)) == M for a model with several new elements of one kind"),
        Err(_) => vrt_check(false, "C01 the written model loads again"),
    }
    for _ in 0..2 {
        file.sort_new_items();
        vrt_check(file.write_to_string() == out1, "C15 a further sort_new_items / write cycle does not reorder anything");
    }
    // two more insert / sort_new_items / write cycles: one new UNIT, then two new MEASUREMENTs
    file.project.module[0].unit.push(Unit::new(String::from("new_unit"), String::new(), String::from("x"), UnitType::Derived));
    file.sort_new_items();
    let out2 = file.write_to_string();
    file.project.module[0].measurement.push(Measurement::new(String::from("zz_1"), String::new(), DataType::Ubyte, String::from("NO_COMPU_METHOD"), 0, 0.0, 0.0, 255.0));
    file.project.module[0].measurement.push(Measurement::new(String::from("zz_0"), String::new(), DataType::Ubyte, String::from("NO_COMPU_METHOD"), 0, 0.0, 0.0, 255.0));
    file.sort_new_items();
    let out3 = file.write_to_string();
    for out in [&out2, &out3] {
        let mut ms: Vec<String> = Vec::new();
        for line in out.lines() {
            if let Some((kind, name)) = tag_of(line) { if kind == "MEASUREMENT" { ms.push(name); } }
        }
        // elements that were already placed keep their relative output order: the first `total` MEASUREMENTs are the old ones
        let mut same = ms.len() >= total;
        if same { for k in 0..total { if ms[k] != names[k] { same = false; } } }
        vrt_check(same, "C15 elements that were already placed keep their relative output order over further cycles");
    }
    match load_from_string(&out3, None, true) {
        Ok((file3, _)) => vrt_check(file3 == file, "C01 load(write(M)) == M after several insert / sort_new_items cycles"),
        Err(_) => vrt_check(false, "C01 the written model loads again after several cycles"),
    }
    vrt_cover(true, "sort_new_many_children_end");
}

/// C20 (thorough): every version-gated element / enum value with the file version as solver variable, observed on both builds
pub(crate) fn h_c20_versions() {
    let n = crate::verif_dev::N_GATED;
    vrt_cover(n > 0, "version-open documents are in place");
    if n == 0 { return; }
    let k = vrt_choice(n);
    let (rest, _lo, _up, _kind) = crate::verif_dev::gated_doc(k);
    let strict = vrt_choice(2) == 1;
    let d1 = vrt_byte_from(b"567");
    let d2 = vrt_byte_from(b"01");
    let mut text = String::from("ASAP2_VERSION 1 ");
    text.push(d1 as char);
    text.push(d2 as char);
    text.push('\n');
    text.push_str(rest);
    c20_observe(&load_from_string(&text, None, strict));
}

/// C20: the single-deviation documents of the reference grammar on both builds (chunk c of n: every n-th document;
/// in addition every document whose deviation is a missing required element)
fn c20_deviation(chunk: u32, chunks: u32) {
    let n = crate::verif_dev::N_DEV;
    vrt_cover(n > 0, "deviation documents are in place");
    if n == 0 { return; }
    let per = (n + chunks - 1 - chunk) / chunks;
    let mut extra: Vec<u32> = Vec::new();
    if chunk == 0 {
        for k in 0..n { if crate::verif_dev::dev_doc(k).1 == "required_missing" { extra.push(k); } }
    }
    let j = vrt_choice(per + extra.len() as u32);
    let k = if j < per { chunk + chunks * j } else { extra[(j - per) as usize] };
    let strict = vrt_choice(2) == 1;
    let (text, _kind, _expect, _hard) = crate::verif_dev::dev_doc(k);
    c20_observe(&load_from_string(text, None, strict));
}
pub(crate) fn h_c20_deviations_q() { c20_deviation(0, 8); }
pub(crate) fn h_c20_deviations_1() { c20_deviation(1, 8); }
pub(crate) fn h_c20_deviations_2() { c20_deviation(2, 8); }
pub(crate) fn h_c20_deviations_3() { c20_deviation(3, 8); }
pub(crate) fn h_c20_deviations_4() { c20_deviation(4, 8); }
pub(crate) fn h_c20_deviations_5() { c20_deviation(5, 8); }
pub(crate) fn h_c20_deviations_6() { c20_deviation(6, 8); }
pub(crate) fn h_c20_deviations_7() { c20_deviation(7, 8); }

/// C04: every parameter of every element is readable from the model under the field name the reference grammar gives
/// it (documents and accessor expressions generated from the frozen DSL)
fn grammar_readback(chunk: u32, chunks: u32) {
    let n = crate::verif_rb::N_READBACK;
    vrt_cover(n > 0, "readback documents are in place");
    if n == 0 { return; }
    let per = (n + chunks - 1 - chunk) / chunks;
    let k = chunk + chunks * vrt_choice(per);
    match load_from_string(crate::verif_rb::readback_doc(k), None, true) {
        Ok((file, log)) => {
            vrt_check(log.is_empty(), "C04 an element in its specified form loads in strict mode without any diagnostic (readback document)");
            vrt_check(crate::verif_rb::readback_check(k, &file), "C04 every parameter value is readable from the model under the name and at the position the reference grammar specifies");
        }
        Err(_) => vrt_check(false, "C04 an element in its specified form is accepted in strict mode (readback document)"),
    }
    vrt_observe_u64(k as u64);
}
pub(crate) fn h_grammar_readback_0() { grammar_readback(0, 2); }
pub(crate) fn h_grammar_readback_1() { grammar_readback(1, 2); }

/// C07 over the whole grammar: an unknown keyword with three arguments directly in front of every element of the
/// reference grammar, inside the element's real parent block (its generated TAG_LIST is the stop list)
fn unknown_before_element(chunk: u32, chunks: u32) {
    let n = crate::verif_rb::N_UNK;
    vrt_cover(n > 0, "unknown-element documents are in place");
    if n == 0 { return; }
    let per = (n + chunks - 1 - chunk) / chunks;
    let k = chunk + chunks * vrt_choice(per);
    let (with_unknown, reference) = crate::verif_rb::unk_doc(k);
    let (ref_file, _) = load_from_string(reference, None, true).unwrap();
    match load_from_string(with_unknown, None, false) {
        Ok((file, log)) => {
            vrt_check(log.len() == 1, "C07 an unknown element in front of a known one is skipped with exactly one warning");
            vrt_check(file == ref_file, "C07 the rest of the file is loaded exactly as if the unknown element were not there (every element of the grammar)");
            vrt_check(crate::verif_fp::fingerprint(&file) == crate::verif_fp::fingerprint(&ref_file), "C07 every data field of the model is the same as without the unknown element");
        }
        Err(_) => vrt_check(false, "C07 non-strict mode skips an unknown element in front of a known one"),
    }
    match load_from_string(with_unknown, None, true) {
        Ok(_) => vrt_check(false, "C07 strict mode rejects an unknown element"),
        Err(e) => vrt_check(parser_error_variant(&e) == "UnknownSubBlock", "C07 the strict-mode error is the unknown-element error"),
    }
    vrt_observe_u64(k as u64);
}
pub(crate) fn h_unknown_before_element_0() { unknown_before_element(0, 2); }
pub(crate) fn h_unknown_before_element_1() { unknown_before_element(1, 2); }

// ------------------------------------------------------------------ C01: a model built and edited through the public API

/// a model made only with new()/T::new()/push and field edits (every layout value is the constructor default) is
/// written, loaded again and compared; then edited, written and compared again
pub(crate) fn h_api_built_model() {
    let mut file = crate::new();
    // a few values are symbolic (small widths: formatting and re-parsing 32/64-bit symbolic values is C02's subject)
    let addr = 0xFFFF_0000u32 | vrt_any_u8() as u32;
    let mask = u64::MAX;
    let off = vrt_any_i8() as i32;
    {
        let m = &mut file.project.module[0];
        let mut rl = RecordLayout::new(String::from("rl"));
        rl.fnc_values = Some(FncValues::new(1, DataType::Ubyte, IndexMode::RowDir, AddrType::Direct));
        m.record_layout.push(rl);
        let mut cm = CompuMethod::new(String::from("cm"), String::from("linear"), ConversionType::RatFunc, String::from("%6.3"), String::from("unit"));
        cm.coeffs = Some(Coeffs::new(0.0, 2.0, 1.0, 0.0, 0.0, 1.0));
        m.compu_method.push(cm);
        let mut ms = Measurement::new(String::from("ms"), String::from("a \"quoted\" text"), DataType::Uword, String::from("cm"), 1, 0.5, 0.0, 131071.0);
        ms.ecu_address = Some(EcuAddress::new(addr));
        ms.bit_mask = Some(BitMask::new(mask));
        ms.symbol_link = Some(SymbolLink::new(String::from("sym"), off));
        let mut an = Annotation::new();
        an.annotation_label = Some(AnnotationLabel::new(String::from("label")));
        let mut at = AnnotationText::new();
        at.annotation_text_list.push(String::from("line 1"));
        at.annotation_text_list.push(String::from("line 2"));
        an.annotation_text = Some(at);
        ms.annotation.push(an);
        let mut md = MatrixDim::new();
        md.dim_list.push(2);
        md.dim_list.push(3);
        ms.matrix_dim = Some(md);
        m.measurement.push(ms);
        let ch = Characteristic::new(String::from("ch"), String::new(), CharacteristicType::Value, 0x1000, String::from("rl"), 0.0, String::from("NO_COMPU_METHOD"), 0.0, 255.0);
        m.characteristic.push(ch);
        let mut g = Group::new(String::from("grp"), String::from("group"));
        let mut rm = RefMeasurement::new();
        rm.identifier_list.push(String::from("ms"));
        g.ref_measurement = Some(rm);
        m.group.push(g);
        let mut f = Function::new(String::from("fn1"), String::new());
        m.function.push(f);
    }
    let out1 = file.write_to_string();
    match load_from_string(&out1, None, true) {
        Ok((file2, log)) => {
            vrt_check(log.is_empty(), "C01 a model built through the API is written as a document that loads in strict mode without diagnostics");
            vrt_check(file2 == file, "C01 load(write(M)) == M for a model built through the public API");
            vrt_check(crate::verif_fp::fingerprint(&file2) == crate::verif_fp::fingerprint(&file), "C01 every data field of an API-built model survives write and reload");
            let out2 = file2.write_to_string();
            vrt_check(out2 == out1, "C01 the second write of an API-built model is identical to the first");
            // edit through the API: a field edit, a removed optional element, a new element
            let mut file3 = file2.clone();
            {
                let m = &mut file3.project.module[0];
                m.measurement[0].resolution = 7;
                m.measurement[0].symbol_link = None;
                m.unit.push(Unit::new(String::from("un"), String::from("new unit"), String::from("x"), UnitType::Derived));
            }
            let out3 = file3.write_to_string();
            match load_from_string(&out3, None, true) {
                Ok((file4, _)) => {
                    vrt_check(file4 == file3, "C01 load(write(M)) == M after edits through the API");
                    vrt_check(file4.write_to_string() == out3, "C01 the second write after edits is identical");
                }
                Err(_) => vrt_check(false, "C01 an edited model can be written and loaded"),
            }
        }
        Err(_) => vrt_check(false, "C01 a model built through the API can be written and loaded in strict mode"),
    }
    vrt_cover(true, "api_built_model_end");
}

const EVERY_ELEMENT_STAGGERED: &str = include_str!("verif_every_element_staggered.txt");

/// the every-element document with a staggered layout: the i-th parameter of each element starts on the same line, on
/// the next line or after a blank line, in rotation - adjacent parameters always differ in their line offset, so any
/// mix-up of the per-parameter layout slots of an element shows in the written text
pub(crate) fn h_every_element_layout() {
    vrt_cover(!crate::verif_fp::VERIF_FP_STUB, "generated document and fingerprint module are in place");
    match load_from_string(EVERY_ELEMENT_STAGGERED, None, true) {
        Ok((file, log)) => {
            vrt_soft_check(log.is_empty(), "C05 (harness) the staggered every-element document is valid");
            let out1 = file.write_to_string();
            vrt_soft_check(out1.trim() == EVERY_ELEMENT_STAGGERED.trim(), "C05 the line position of every parameter of every element is reproduced byte for byte");
            match load_from_string(&out1, None, true) {
                Ok((file2, _)) => {
                    vrt_soft_check(file2 == file, "C01 load(write(M)) == M on the staggered every-element document");
                    vrt_soft_check(file2.write_to_string() == out1, "C01 the second write of the staggered every-element document is identical to the first");
                }
                Err(_) => vrt_soft_check(false, "C01 the written staggered every-element document loads again"),
            }
        }
        Err(_) => vrt_soft_check(false, "C05 (harness) the staggered every-element document loads in strict mode"),
    }
}

// ------------------------------------------------------------------ C01: write() to a file, with and without a banner

/// A2lFile::write(path, banner): the file it writes loads to an equal model, the banner is the first comment and does
/// not shift the content (the banner is put on the first line if that is empty, otherwise on a line of its own)
pub(crate) fn h_write_with_banner() {
    let lead = vrt_choice(3);          // 0: document starts with a token, 1: with an empty line, 2: with a comment line
    let banner = vrt_choice(3);        // 0: none, 1: short text, 2: text containing a quote and a slash
    let mut t = String::new();
    match lead { 1 => t.push('\n'), 2 => t.push_str("/* first comment */\n"), _ => {} }
    t.push_str("ASAP2_VERSION 1 71\n/begin PROJECT p \"\"\n\n  /begin MODULE m \"\"\n    /begin MEASUREMENT ms \"\" UBYTE NO_COMPU_METHOD 0 0 0 255\n    /end MEASUREMENT\n  /end MODULE\n/end PROJECT\n");
    let (file, _) = load_from_string(&t, None, true).unwrap();
    let b = match banner { 0 => None, 1 => Some("written by a2lfile"), _ => Some("tool \"x\" 1/2") };
    let path = vrt_fs_write("out.a2l", b"");
    match file.write(&path, b) {
        Ok(()) => {}
        Err(_) => { vrt_check(false, "C01 write() to a writable path succeeds"); return; }
    }
    match load(&path, None, true) {
        Ok((file2, log)) => {
            vrt_check(log.is_empty(), "C01 a file written with write() loads in strict mode without diagnostics");
            vrt_check(file2.project == file.project && file2.asap2_version == file.asap2_version, "C01 the model read back from a file written with write() equals the original (banner aside)");
            if banner == 0 { vrt_check(file2 == file && file2.write_to_string() == file.write_to_string(), "C01 write() without a banner stores exactly write_to_string()"); }
            // writing the reloaded model without a banner reproduces the banner comment as an ordinary comment: still loads
            let out = file2.write_to_string();
            vrt_check(load_from_string(&out, None, true).is_ok(), "C01 the model read back from a bannered file can be written and loaded again");
        }
        Err(_) => vrt_check(false, "C01 a file written with write() loads again"),
    }
    vrt_cover(true, "write_with_banner_end");
}

const EVERY_ELEMENT_X2: &str = include_str!("verif_every_element_x2.txt");

/// thorough tier: every repeatable element of the grammar twice (lists with two entries on every level, ~2400 lines)
pub(crate) fn h_every_element_x2() {
    vrt_cover(!crate::verif_fp::VERIF_FP_STUB, "generated document and fingerprint module are in place");
    match load_from_string(EVERY_ELEMENT_X2, None, true) {
        Ok((file, log)) => {
            vrt_soft_check(log.is_empty(), "C01 the doubled every-element document loads in strict mode without any diagnostic");
            let out1 = file.write_to_string();
            vrt_soft_check(out1.trim() == EVERY_ELEMENT_X2.trim(), "C05 the doubled every-element document is reproduced byte for byte");
            match load_from_string(&out1, None, true) {
                Ok((file2, _)) => {
                    vrt_soft_check(file2 == file, "C01 load(write(M)) == M on the doubled every-element document");
                    vrt_soft_check(crate::verif_fp::fingerprint(&file2) == crate::verif_fp::fingerprint(&file), "C01 every data field of the reloaded doubled every-element model is equal");
                    vrt_soft_check(file2.write_to_string() == out1, "C01 the second write of the doubled every-element document is identical to the first");
                }
                Err(_) => vrt_soft_check(false, "C01 the written doubled every-element document loads again"),
            }
        }
        Err(_) => vrt_soft_check(false, "C01 the doubled every-element document loads in strict mode"),
    }
}

const EVERY_ELEMENT_IFDATA: &str = include_str!("verif_every_element_ifdata.txt");

fn count_occurrences(hay: &str, needle: &str) -> usize {
    let mut n = 0;
    let mut rest = hay;
    while let Some(p) = rest.find(needle) { n += 1; rest = &rest[p + needle.len()..]; }
    n
}

/// ifdata_cleanup() over every place of the grammar where IF_DATA may stand (the doubled every-element document with
/// conforming and non-conforming IF_DATA blocks alternating): exactly the invalid blocks disappear, wherever they are
pub(crate) fn h_ifdata_cleanup_all_sites() {
    vrt_cover(!crate::verif_fp::VERIF_FP_STUB, "generated document and fingerprint module are in place");
    let n_valid = count_occurrences(EVERY_ELEMENT_IFDATA, "\"ifd\"");
    let n_invalid = count_occurrences(EVERY_ELEMENT_IFDATA, "\"wrong\"");
    vrt_cover(n_valid > 10 && n_invalid > 10, "IF_DATA of both kinds at many sites");
    match load_from_string(EVERY_ELEMENT_IFDATA, None, false) {
        Ok((mut file, _)) => {
            let before = file.write_to_string();
            vrt_check(count_occurrences(&before, "\"ifd\"") == n_valid && count_occurrences(&before, "\"wrong\"") == n_invalid, "C18 every IF_DATA block is kept by load and write, conforming or not");
            file.ifdata_cleanup();
            let after = file.write_to_string();
            vrt_check(count_occurrences(&after, "\"wrong\"") == 0, "C18 ifdata_cleanup removes every IF_DATA block that is flagged invalid, at every site of the grammar");
            vrt_check(count_occurrences(&after, "\"ifd\"") == n_valid, "C18 ifdata_cleanup keeps every valid IF_DATA block");
            vrt_check(count_occurrences(&after, "/begin IF_DATA") == n_valid, "C18 after ifdata_cleanup exactly the valid IF_DATA blocks remain");
            vrt_observe_u64(n_valid as u64);
            vrt_observe_u64(n_invalid as u64);
        }
        Err(_) => vrt_check(false, "C18 structurally balanced IF_DATA never makes loading fail (every site)"),
    }
}

/// C15 over every list of a module: sort_new_items() on a fully placed module (two elements in each of the 20 named
/// lists plus the unnamed parts) must not change the output at all, however often it is called
pub(crate) fn h_sort_new_all_kinds() {
    let (mut file, _) = load_from_string(&expand(ALL_KINDS_T, "", ""), None, false).unwrap();
    let out0 = file.write_to_string();
    for _ in 0..3 {
        file.sort_new_items();
        vrt_check(file.write_to_string() == out0, "C15 sort_new_items never changes the relative output order of elements that were already placed (every list of the module)");
    }
    // one new element of a kind in the middle of the file goes directly behind the last placed element of its kind
    file.project.module[0].typedef_blob.push(TypedefBlob::new(String::from("zz_new"), String::new(), 4));
    file.project.module[0].blob.push(Blob::new(String::from("zz_newblob"), String::new(), 0, 4));
    file.sort_new_items();
    let out1 = file.write_to_string();
    let mut kinds: Vec<(String, String)> = Vec::new();
    for line in out1.lines() { if let Some(kn) = tag_of(line) { kinds.push(kn); } }
    for i in 0..kinds.len() {
        if kinds[i].1 == "zz_new" { vrt_check(i > 0 && kinds[i - 1].0 == "TYPEDEF_BLOB", "C15 a new TYPEDEF_BLOB is written directly behind the last placed TYPEDEF_BLOB"); }
        if kinds[i].1 == "zz_newblob" { vrt_check(i > 0 && kinds[i - 1].0 == "BLOB", "C15 a new BLOB is written directly behind the last placed BLOB"); }
    }
    // without the two new elements the order is the old one
    let mut old_order: Vec<(String, String)> = Vec::new();
    for line in out0.lines() { if let Some(kn) = tag_of(line) { old_order.push(kn); } }
    let mut rest: Vec<(String, String)> = Vec::new();
    for kn in kinds.iter() { if kn.1 != "zz_new" && kn.1 != "zz_newblob" { rest.push(kn.clone()); } }
    vrt_check(rest == old_order, "C15 placed elements keep their order when new elements are inserted");
    vrt_cover(true, "sort_new_all_kinds_end");
}

/// C20: a comment and an element that come from an include file, at MODULE level and inside a FUNCTION: observed on both builds
pub(crate) fn h_c20_include_comment() {
    let inner = vrt_choice(2) == 1;
    let part = "/* comment of the include file */\n/begin UNIT u1 \"\" \"\" DERIVED\n/end UNIT\n// second comment\n";
    let part_fn = "/* comment inside */\n/begin LOC_MEASUREMENT ms\n/end LOC_MEASUREMENT\n";
    let mut main = String::from("ASAP2_VERSION 1 71\n/begin PROJECT p \"\"\n/begin MODULE m \"\"\n/begin MEASUREMENT ms \"\" UBYTE NO_COMPU_METHOD 0 0 0 255\n/end MEASUREMENT\n");
    if inner {
        main.push_str("/begin FUNCTION f \"\"\n/include part.a2l\n/end FUNCTION\n");
        vrt_fs_write("part.a2l", part_fn.as_bytes());
    } else {
        main.push_str("/include part.a2l\n");
        vrt_fs_write("part.a2l", part.as_bytes());
    }
    main.push_str("/end MODULE\n/end PROJECT\n");
    let path = vrt_fs_write("main.a2l", main.as_bytes());
    match load(&path, None, true) {
        Ok((mut file, log)) => {
            vrt_observe_u64(1);
            vrt_observe_u64(log.len() as u64);
            vrt_observe_bytes(file.write_to_string().as_bytes());
            file.merge_includes();
            vrt_observe_bytes(file.write_to_string().as_bytes());
        }
        Err(_) => vrt_observe_u64(0),
    }
}
