// E2 harnesses at the public API level (whole pipeline: tokenizer + generated parser + writer)
use crate::verif_rt::*;

pub(crate) fn h_load_minimal() {
    let text = "ASAP2_VERSION 1 71 /begin PROJECT p \"\" /begin MODULE m \"\" /end MODULE /end PROJECT";
    match load_from_string(text, None, true) {
        Ok((file, _log)) => {
            vrt_check(file.project.module.len() == 1, "minimal file loads with one module");
            let out = file.write_to_string();
            vrt_observe_bytes(out.as_bytes());
        }
        Err(_) => vrt_check(false, "minimal file loads"),
    }
}

// ------------------------------------------------------------------ C01 / C02 / C05: whole pipeline on a template with symbolic layout

use crate::tokenizer::A2lTokenType;

/// separator between two parameters / keywords inside an element
fn sep_inner(t: &mut String) {
    match vrt_choice(4) {
        0 => t.push(' '),
        1 => t.push('\n'),
        2 => t.push_str("\n\n"),
        _ => t.push_str("\r\n"),
    }
}

/// separator between two block-level elements (comments are allowed there)
fn sep_block(t: &mut String) {
    match vrt_choice(7) {
        0 => t.push('\n'),
        1 => t.push_str("\n\n"),
        2 => t.push_str("\n/* c */\n"),
        3 => t.push_str("\n// c\n"),
        4 => t.push_str("\n/* a\nb */\n"),
        5 => t.push_str(" /* c */ "),
        _ => t.push_str("\r\n"),
    }
}

fn significant(text: &str) -> Vec<(u64, String, u32)> {
    let toks = crate::tokenizer::verif_h::tok_for_harness(text).unwrap();
    let mut v = Vec::new();
    for t in toks.iter() {
        if t.ttype != A2lTokenType::Comment {
            let code = match t.ttype { A2lTokenType::Identifier => 0, A2lTokenType::Begin => 1, A2lTokenType::End => 2, A2lTokenType::Include => 3, A2lTokenType::String => 4, A2lTokenType::Number => 5, A2lTokenType::Comment => 6 };
            v.push((code, text[t.startpos..t.endpos].to_string(), t.line));
        }
    }
    v
}

fn pipeline_checks(text: &str) {
    match load_from_string(text, None, true) {
        Ok((file, log)) => {
            vrt_check(log.is_empty(), "C04/C06 a valid document loads in strict mode without diagnostics");
            let out1 = file.write_to_string();
            let a = significant(text);
            let b = significant(&out1);
            vrt_check(a.len() == b.len(), "C02 load+write keeps the number of significant tokens");
            let n = if a.len() < b.len() { a.len() } else { b.len() };
            for i in 0..n {
                vrt_check(a[i].0 == b[i].0 && a[i].1 == b[i].1, "C02 load+write keeps every significant token (same order, same text)");
                vrt_check(a[i].2 == b[i].2, "C05 every significant token is written on the line it had in the input");
            }
            match load_from_string(&out1, None, true) {
                Ok((file2, _)) => {
                    vrt_check(file2 == file, "C01 load(write(M)) == M");
                    let out2 = file2.write_to_string();
                    vrt_check(out2 == out1, "C01 writing the reloaded model reproduces the same text (fixpoint)");
                }
                Err(_) => vrt_check(false, "C01 the written text loads again"),
            }
            vrt_observe_u64(out1.len() as u64);
        }
        Err(_) => vrt_check(false, "C04 a valid document is accepted in strict mode"),
    }
}

/// symbolic layout inside one MEASUREMENT (parameters and an optional keyword)
pub(crate) fn h_layout_inner() {
    let mut t = String::from("ASAP2_VERSION 1 71\n/begin PROJECT p \"\"\n/begin MODULE m \"\"\n/begin MEASUREMENT");
    sep_inner(&mut t);
    t.push_str("ms \"\" UBYTE");
    sep_inner(&mut t);
    t.push_str("NO_COMPU_METHOD 0 0 0");
    sep_inner(&mut t);
    t.push_str("255");
    sep_inner(&mut t);
    t.push_str("ECU_ADDRESS 0x10\n/end MEASUREMENT\n/end MODULE\n/end PROJECT");
    pipeline_checks(&t);
}

/// symbolic separators (incl. both comment kinds, multi-line comments, blank lines, CRLF) between block-level elements
pub(crate) fn h_layout_blocks() {
    let mut t = String::from("ASAP2_VERSION 1 71\n/begin PROJECT p \"\"\n/begin MODULE m \"\"");
    sep_block(&mut t);
    t.push_str("/begin MEASUREMENT ms \"\" UBYTE NO_COMPU_METHOD 0 0 0 255\n/end MEASUREMENT");
    sep_block(&mut t);
    t.push_str("/begin UNIT u \"\" \"\" DERIVED\n/end UNIT");
    sep_block(&mut t);
    t.push_str("/end MODULE\n/end PROJECT");
    pipeline_checks(&t);
}
