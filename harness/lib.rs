// E2 harnesses at the public API level (whole pipeline: tokenizer + generated parser + writer)
use crate::verif_rt::*;

pub(crate) fn h_load_minimal() {
    let text = "ASAP2_VERSION 1 71 /begin PROJECT p \"\" /begin MODULE m \"\" /end MODULE /end PROJECT";
    match load_from_string(text, None, true) {
        Ok((file, _log)) => {
            vrt_check(file.project.module.len() == 1, "minimal file loads with one module");
            let out = file.write_to_string();
            vrt_observe_bytes(out.as_bytes());
        }
        Err(_) => vrt_check(false, "minimal file loads"),
    }
}

// ------------------------------------------------------------------ C01 / C02 / C05: whole pipeline on a template with symbolic layout

use crate::tokenizer::A2lTokenType;

/// separator between two parameters / keywords inside an element
fn sep_inner(t: &mut String) {
    match vrt_choice(4) {
        0 => t.push(' '),
        1 => t.push('\n'),
        2 => t.push_str("\n\n"),
        _ => t.push_str("\r\n"),
    }
}

/// separator between two block-level elements (comments are allowed there)
fn sep_block(t: &mut String) {
    match vrt_choice(7) {
        0 => t.push('\n'),
        1 => t.push_str("\n\n"),
        2 => t.push_str("\n/* c */\n"),
        3 => t.push_str("\n// c\n"),
        4 => t.push_str("\n/* a\nb */\n"),
        5 => t.push_str(" /* c */ "),
        _ => t.push_str("\r\n"),
    }
}

fn significant(text: &str) -> Vec<(u64, String, u32)> {
    let toks = crate::tokenizer::verif_h::tok_for_harness(text).unwrap();
    let mut v = Vec::new();
    for t in toks.iter() {
        if t.ttype != A2lTokenType::Comment {
            let code = match t.ttype { A2lTokenType::Identifier => 0, A2lTokenType::Begin => 1, A2lTokenType::End => 2, A2lTokenType::Include => 3, A2lTokenType::String => 4, A2lTokenType::Number => 5, A2lTokenType::Comment => 6 };
            v.push((code, text[t.startpos..t.endpos].to_string(), t.line));
        }
    }
    v
}

fn pipeline_checks(text: &str) {
    match load_from_string(text, None, true) {
        Ok((file, log)) => {
            vrt_check(log.is_empty(), "C04/C06 a valid document loads in strict mode without diagnostics");
            let out1 = file.write_to_string();
            let a = significant(text);
            let b = significant(&out1);
            vrt_check(a.len() == b.len(), "C02 load+write keeps the number of significant tokens");
            let n = if a.len() < b.len() { a.len() } else { b.len() };
            for i in 0..n {
                vrt_check(a[i].0 == b[i].0 && a[i].1 == b[i].1, "C02 load+write keeps every significant token (same order, same text)");
                vrt_check(a[i].2 == b[i].2, "C05 every significant token is written on the line it had in the input");
            }
            match load_from_string(&out1, None, true) {
                Ok((file2, _)) => {
                    vrt_check(file2 == file, "C01 load(write(M)) == M");
                    let out2 = file2.write_to_string();
                    vrt_check(out2 == out1, "C01 writing the reloaded model reproduces the same text (fixpoint)");
                }
                Err(_) => vrt_check(false, "C01 the written text loads again"),
            }
            vrt_observe_u64(out1.len() as u64);
        }
        Err(_) => vrt_check(false, "C04 a valid document is accepted in strict mode"),
    }
}

/// symbolic layout inside one MEASUREMENT (parameters and an optional keyword)
pub(crate) fn h_layout_inner() {
    let mut t = String::from("ASAP2_VERSION 1 71\n/begin PROJECT p \"\"\n/begin MODULE m \"\"\n/begin MEASUREMENT");
    sep_inner(&mut t);
    t.push_str("ms \"\" UBYTE");
    sep_inner(&mut t);
    t.push_str("NO_COMPU_METHOD 0 0 0");
    sep_inner(&mut t);
    t.push_str("255");
    sep_inner(&mut t);
    t.push_str("ECU_ADDRESS 0x10\n/end MEASUREMENT\n/end MODULE\n/end PROJECT");
    pipeline_checks(&t);
}

/// symbolic separators (incl. both comment kinds, multi-line comments, blank lines, CRLF) between block-level elements
pub(crate) fn h_layout_blocks() {
    let mut t = String::from("ASAP2_VERSION 1 71\n/begin PROJECT p \"\"\n/begin MODULE m \"\"");
    sep_block(&mut t);
    t.push_str("/begin MEASUREMENT ms \"\" UBYTE NO_COMPU_METHOD 0 0 0 255\n/end MEASUREMENT");
    sep_block(&mut t);
    t.push_str("/begin UNIT u \"\" \"\" DERIVED\n/end UNIT");
    sep_block(&mut t);
    t.push_str("/end MODULE\n/end PROJECT");
    pipeline_checks(&t);
}

// ------------------------------------------------------------------ C11: reference diagnostics sound, complete, total

/// the consistent reference name, or a missing one at the corrupted site
fn rf(t: &mut String, site: u32, this: u32, good: &str) {
    t.push(' ');
    if site == this { t.push_str("zz_missing"); } else { t.push_str(good); }
    t.push(' ');
}

const N_SITES: u32 = 41;

fn consistent_module(site: u32) -> String {
    let mut t = String::from("ASAP2_VERSION 1 71 /begin PROJECT p \"\" /begin MODULE m \"\"\n");
    t.push_str("/begin MOD_PAR \"\" /begin MEMORY_SEGMENT seg \"\" DATA FLASH INTERN 0 0 -1 -1 -1 -1 -1 /end MEMORY_SEGMENT /end MOD_PAR\n");
    t.push_str("/begin COMPU_METHOD cm \"\" TAB_INTP \"%6.3\" \"\" COMPU_TAB_REF"); rf(&mut t, site, 0, "ct");
    t.push_str("REF_UNIT"); rf(&mut t, site, 1, "un");
    t.push_str("STATUS_STRING_REF"); rf(&mut t, site, 2, "cv");
    t.push_str("/end COMPU_METHOD\n");
    t.push_str("/begin COMPU_TAB ct \"\" TAB_INTP 1 1 1 /end COMPU_TAB\n/begin COMPU_VTAB cv \"\" TAB_VERB 1 1 \"x\" /end COMPU_VTAB\n");
    t.push_str("/begin UNIT un \"\" \"\" DERIVED /end UNIT\n");
    t.push_str("/begin RECORD_LAYOUT rl FNC_VALUES 1 UBYTE ROW_DIR DIRECT AXIS_PTS_X 1 UBYTE INDEX_INCR DIRECT /end RECORD_LAYOUT\n");
    // MEASUREMENT
    t.push_str("/begin MEASUREMENT ms \"\" UBYTE"); rf(&mut t, site, 3, "cm");
    t.push_str("0 0 0 255 REF_MEMORY_SEGMENT"); rf(&mut t, site, 4, "seg");
    t.push_str("/begin FUNCTION_LIST"); rf(&mut t, site, 5, "fn1"); t.push_str("/end FUNCTION_LIST /end MEASUREMENT\n");
    // AXIS_PTS
    t.push_str("/begin AXIS_PTS ap \"\" 0"); rf(&mut t, site, 6, "ms"); rf(&mut t, site, 7, "rl");
    t.push_str("0"); rf(&mut t, site, 8, "cm"); t.push_str("2 0 255 /end AXIS_PTS\n");
    // CHARACTERISTIC (CURVE with COM_AXIS)
    t.push_str("/begin CHARACTERISTIC ch \"\" CURVE 0"); rf(&mut t, site, 9, "rl"); t.push_str("0"); rf(&mut t, site, 10, "cm");
    t.push_str("0 255 /begin AXIS_DESCR COM_AXIS"); rf(&mut t, site, 11, "ms"); rf(&mut t, site, 12, "cm");
    t.push_str("2 0 255 AXIS_PTS_REF"); rf(&mut t, site, 13, "ap"); t.push_str("/end AXIS_DESCR\n");
    t.push_str("COMPARISON_QUANTITY"); rf(&mut t, site, 14, "ms");
    t.push_str("/begin DEPENDENT_CHARACTERISTIC \"f\""); rf(&mut t, site, 15, "ch2"); t.push_str("/end DEPENDENT_CHARACTERISTIC\n");
    t.push_str("/begin MAP_LIST"); rf(&mut t, site, 16, "ch2"); t.push_str("/end MAP_LIST\n");
    t.push_str("/begin VIRTUAL_CHARACTERISTIC \"f\""); rf(&mut t, site, 17, "ch2"); t.push_str("/end VIRTUAL_CHARACTERISTIC\n");
    t.push_str("/begin FUNCTION_LIST"); rf(&mut t, site, 18, "fn1"); t.push_str("/end FUNCTION_LIST REF_MEMORY_SEGMENT"); rf(&mut t, site, 19, "seg");
    t.push_str("/end CHARACTERISTIC\n");
    // second CHARACTERISTIC (CURVE with CURVE_AXIS)
    t.push_str("/begin CHARACTERISTIC ch2 \"\" CURVE 0 rl 0 NO_COMPU_METHOD 0 255 /begin AXIS_DESCR CURVE_AXIS NO_INPUT_QUANTITY NO_COMPU_METHOD 2 0 255 CURVE_AXIS_REF");
    rf(&mut t, site, 20, "ch"); t.push_str("/end AXIS_DESCR /end CHARACTERISTIC\n");
    // TYPEDEFs, INSTANCE
    t.push_str("/begin TYPEDEF_AXIS ta \"\""); rf(&mut t, site, 21, "ms"); rf(&mut t, site, 22, "rl"); t.push_str("0"); rf(&mut t, site, 23, "cm"); t.push_str("2 0 255 /end TYPEDEF_AXIS\n");
    t.push_str("/begin TYPEDEF_MEASUREMENT tm \"\" UBYTE"); rf(&mut t, site, 24, "cm"); t.push_str("0 0 0 255 /end TYPEDEF_MEASUREMENT\n");
    t.push_str("/begin TYPEDEF_CHARACTERISTIC tc \"\" VALUE"); rf(&mut t, site, 25, "rl"); t.push_str("0"); rf(&mut t, site, 26, "cm"); t.push_str("0 255 /end TYPEDEF_CHARACTERISTIC\n");
    t.push_str("/begin TYPEDEF_STRUCTURE ts \"\" 4 /begin STRUCTURE_COMPONENT c1"); rf(&mut t, site, 27, "tm"); t.push_str("0 /end STRUCTURE_COMPONENT /end TYPEDEF_STRUCTURE\n");
    t.push_str("/begin INSTANCE inst \"\""); rf(&mut t, site, 28, "ts"); t.push_str("0x100 /end INSTANCE\n");
    // FUNCTION
    t.push_str("/begin FUNCTION fn1 \"\" /begin IN_MEASUREMENT"); rf(&mut t, site, 29, "ms"); t.push_str("/end IN_MEASUREMENT /begin LOC_MEASUREMENT");
    rf(&mut t, site, 30, "ms"); t.push_str("/end LOC_MEASUREMENT /begin OUT_MEASUREMENT"); rf(&mut t, site, 31, "ms");
    t.push_str("/end OUT_MEASUREMENT /begin DEF_CHARACTERISTIC"); rf(&mut t, site, 32, "ch"); t.push_str("/end DEF_CHARACTERISTIC /begin REF_CHARACTERISTIC");
    rf(&mut t, site, 33, "ch2"); t.push_str("/end REF_CHARACTERISTIC /begin SUB_FUNCTION"); rf(&mut t, site, 34, "fn2"); t.push_str("/end SUB_FUNCTION /end FUNCTION\n");
    t.push_str("/begin FUNCTION fn2 \"\" /end FUNCTION\n");
    // GROUP
    t.push_str("/begin GROUP g1 \"\" ROOT /begin REF_CHARACTERISTIC"); rf(&mut t, site, 35, "ch"); t.push_str("/end REF_CHARACTERISTIC /begin REF_MEASUREMENT");
    rf(&mut t, site, 36, "ms"); t.push_str("/end REF_MEASUREMENT /begin FUNCTION_LIST"); rf(&mut t, site, 37, "fn1"); t.push_str("/end FUNCTION_LIST /begin SUB_GROUP");
    rf(&mut t, site, 38, "g2"); t.push_str("/end SUB_GROUP /end GROUP\n/begin GROUP g2 \"\" /end GROUP\n");
    // TRANSFORMER
    t.push_str("/begin TRANSFORMER tr \"v\" \"a\" \"b\" 1 ON_CHANGE NO_INVERSE_TRANSFORMER /begin TRANSFORMER_IN_OBJECTS"); rf(&mut t, site, 39, "ch");
    t.push_str("/end TRANSFORMER_IN_OBJECTS /begin TRANSFORMER_OUT_OBJECTS"); rf(&mut t, site, 40, "ch2"); t.push_str("/end TRANSFORMER_OUT_OBJECTS /end TRANSFORMER\n");
    t.push_str("/end MODULE /end PROJECT");
    t
}

fn cross_ref_report(file: &A2lFile) -> (usize, usize, usize) {
    // (cross reference errors naming zz_missing, other cross reference errors, all other diagnostics)
    let before = file.clone();
    let report = file.check();
    vrt_check(*file == before, "C11 check() does not modify the model");
    let mut hit = 0;
    let mut other_xref = 0;
    let mut rest = 0;
    for e in report.iter() {
        match e {
            A2lError::CrossReferenceError { target_name, .. } => {
                if target_name == "zz_missing" { hit += 1; } else { other_xref += 1; }
            }
            _ => rest += 1,
        }
    }
    (hit, other_xref, rest)
}

/// one corrupted reference site (or none): the report names exactly the missing target
pub(crate) fn h_check_refs() {
    let site = vrt_choice(N_SITES + 1);
    let text = consistent_module(site);
    match load_from_string(&text, None, true) {
        Ok((file, log)) => {
            vrt_check(log.is_empty(), "C11 harness template loads without diagnostics");
            let (hit, other_xref, rest) = cross_ref_report(&file);
            vrt_check(other_xref == 0, "C11 no cross reference error for a reference that resolves (no false positives)");
            if site == N_SITES {
                vrt_check(hit == 0 && rest == 0, "C11 a fully consistent file yields an empty report");
            } else {
                vrt_check(hit >= 1, "C11 a corrupted reference yields a cross reference error naming the missing target");
            }
            vrt_observe_u64(hit as u64);
            vrt_observe_u64(rest as u64);
        }
        Err(_) => vrt_check(false, "C11 harness template is accepted in strict mode"),
    }
}

/// the naming conventions: NO_COMPU_METHOD / NO_INPUT_QUANTITY / NO_INVERSE_TRANSFORMER never count as missing
pub(crate) fn h_check_conventions() {
    let mut t = String::from("ASAP2_VERSION 1 71 /begin PROJECT p \"\" /begin MODULE m \"\"\n");
    t.push_str("/begin RECORD_LAYOUT rl FNC_VALUES 1 UBYTE ROW_DIR DIRECT AXIS_PTS_X 1 UBYTE INDEX_INCR DIRECT /end RECORD_LAYOUT\n");
    t.push_str("/begin MEASUREMENT ms \"\" UBYTE NO_COMPU_METHOD 0 0 0 255 /end MEASUREMENT\n");
    t.push_str("/begin AXIS_PTS ap \"\" 0 NO_INPUT_QUANTITY rl 0 NO_COMPU_METHOD 2 0 255 /end AXIS_PTS\n");
    t.push_str("/begin CHARACTERISTIC ch \"\" CURVE 0 rl 0 NO_COMPU_METHOD 0 255 /begin AXIS_DESCR STD_AXIS NO_INPUT_QUANTITY NO_COMPU_METHOD 2 0 255 /end AXIS_DESCR /end CHARACTERISTIC\n");
    t.push_str("/begin TYPEDEF_AXIS ta \"\" NO_INPUT_QUANTITY rl 0 NO_COMPU_METHOD 2 0 255 /end TYPEDEF_AXIS\n");
    t.push_str("/begin TYPEDEF_MEASUREMENT tm \"\" UBYTE NO_COMPU_METHOD 0 0 0 255 /end TYPEDEF_MEASUREMENT\n");
    t.push_str("/begin TRANSFORMER tr \"v\" \"a\" \"b\" 1 ON_CHANGE NO_INVERSE_TRANSFORMER /end TRANSFORMER\n");
    t.push_str("/end MODULE /end PROJECT");
    let (file, _) = load_from_string(&t, None, true).unwrap();
    let (hit, other_xref, rest) = cross_ref_report(&file);
    vrt_check(hit == 0 && other_xref == 0 && rest == 0, "C11 the NO_* conventions are not reported as missing references");
}

/// totality: 0..=7 AXIS_DESCR of any attribute on a CHARACTERISTIC never make check() panic
pub(crate) fn h_check_axis_descr_count() {
    let n = vrt_choice(8);
    let mut t = String::from("ASAP2_VERSION 1 71 /begin PROJECT p \"\" /begin MODULE m \"\"\n");
    t.push_str("/begin RECORD_LAYOUT rl FNC_VALUES 1 UBYTE ROW_DIR DIRECT AXIS_PTS_X 1 UBYTE INDEX_INCR DIRECT /end RECORD_LAYOUT\n");
    t.push_str("/begin CHARACTERISTIC ch \"\" CUBE_5 0 rl 0 NO_COMPU_METHOD 0 255\n");
    let attr = match vrt_choice(3) { 0 => "STD_AXIS", 1 => "FIX_AXIS", _ => "COM_AXIS" };
    for _ in 0..n {
        t.push_str("/begin AXIS_DESCR ");
        t.push_str(attr);
        t.push_str(" NO_INPUT_QUANTITY NO_COMPU_METHOD 2 0 255 /end AXIS_DESCR\n");
    }
    t.push_str("/end CHARACTERISTIC /end MODULE /end PROJECT");
    let (file, _) = load_from_string(&t, None, false).unwrap();
    let report = file.check();
    vrt_observe_u64(report.len() as u64);
}

/// C12 dispatch: each STD_AXIS is judged by the AXIS_PTS_<position> entry of the record layout
pub(crate) fn h_check_axis_datatype_dispatch() {
    let first = match vrt_choice(3) { 0 => "STD_AXIS", 1 => "FIX_AXIS", _ => "COM_AXIS" };
    let mut t = String::from("ASAP2_VERSION 1 71 /begin PROJECT p \"\" /begin MODULE m \"\"\n");
    t.push_str("/begin RECORD_LAYOUT rl FNC_VALUES 1 UBYTE ROW_DIR DIRECT AXIS_PTS_X 2 UBYTE INDEX_INCR DIRECT AXIS_PTS_Y 3 UWORD INDEX_INCR DIRECT /end RECORD_LAYOUT\n");
    t.push_str("/begin AXIS_PTS ap \"\" 0 NO_INPUT_QUANTITY rl 0 NO_COMPU_METHOD 2 0 255 /end AXIS_PTS\n");
    t.push_str("/begin CHARACTERISTIC ch \"\" MAP 0 rl 0 NO_COMPU_METHOD 0 255\n/begin AXIS_DESCR ");
    t.push_str(first);
    t.push_str(" NO_INPUT_QUANTITY NO_COMPU_METHOD 2 0 200");
    if first == "COM_AXIS" { t.push_str(" AXIS_PTS_REF ap"); }
    t.push_str(" /end AXIS_DESCR\n/begin AXIS_DESCR STD_AXIS NO_INPUT_QUANTITY NO_COMPU_METHOD 2 ");
    // limits of the second (Y) axis: valid for UWORD, or valid only for a wider type
    let wide = vrt_choice(2) == 1;
    t.push_str(if wide { "0 70000" } else { "0 60000" });
    t.push_str(" /end AXIS_DESCR /end CHARACTERISTIC /end MODULE /end PROJECT");
    let (file, _) = load_from_string(&t, None, true).unwrap();
    let report = file.check();
    let mut limit_errors = 0;
    for e in report.iter() {
        if let A2lError::LimitCheckError { .. } = e { limit_errors += 1; }
    }
    if wide {
        vrt_check(limit_errors == 1, "C12 Y axis limits outside the UWORD range are a limit error");
    } else {
        vrt_check(limit_errors == 0, "C12 Y axis limits inside the UWORD range of AXIS_PTS_Y are no limit error");
    }
}

// ------------------------------------------------------------------ C10: cleanup removes only, and all, unreferenced helpers

fn xref_errors(file: &A2lFile) -> usize {
    let mut n = 0;
    for e in file.check().iter() {
        if let A2lError::CrossReferenceError { .. } = e { n += 1; }
    }
    n
}

/// helper element `hx` that is referenced from exactly one (possibly unusual) site, chosen by `site`
fn cleanup_case(site: u32) -> (String, &'static str, &'static str) {
    // returns (text, kind of the helper under test, name of the helper under test)
    let mut t = String::from("ASAP2_VERSION 1 71 /begin PROJECT p \"\" /begin MODULE m \"\"\n");
    if site == 5 { t.push_str("/begin MOD_COMMON \"\" S_REC_LAYOUT hx /end MOD_COMMON\n"); }
    t.push_str("/begin RECORD_LAYOUT rl FNC_VALUES 1 UBYTE ROW_DIR DIRECT AXIS_PTS_X 1 UBYTE INDEX_INCR DIRECT /end RECORD_LAYOUT\n");
    t.push_str("/begin COMPU_METHOD cm \"\" TAB_INTP \"%6.3\" \"\"");
    if site == 1 { t.push_str(" STATUS_STRING_REF hx"); }
    if site == 2 { t.push_str(" COMPU_TAB_REF hx"); }
    if site == 3 { t.push_str(" REF_UNIT hx"); }
    if site == 4 { t.push_str(" REF_UNIT u1"); }
    t.push_str(" /end COMPU_METHOD\n");
    t.push_str("/begin MEASUREMENT ms \"\" UBYTE cm 0 0 0 255");
    if site == 12 { t.push_str(" /begin FUNCTION_LIST hx /end FUNCTION_LIST"); }
    t.push_str(" /end MEASUREMENT\n");
    t.push_str("/begin CHARACTERISTIC ch \"\" VALUE 0 rl 0 NO_COMPU_METHOD 0 255 /end CHARACTERISTIC\n");
    let (kind, name): (&'static str, &'static str) = match site {
        1 => { t.push_str("/begin COMPU_VTAB hx \"\" TAB_VERB 1 1 \"x\" /end COMPU_VTAB\n"); ("COMPU_VTAB", "hx") }
        2 => { t.push_str("/begin COMPU_VTAB_RANGE hx \"\" 1 1 2 \"x\" /end COMPU_VTAB_RANGE\n"); ("COMPU_VTAB_RANGE", "hx") }
        3 => { t.push_str("/begin UNIT hx \"\" \"\" DERIVED /end UNIT\n"); ("UNIT", "hx") }
        4 => {
            // chain u1 -> u2 -> hx, u1 referenced by the used COMPU_METHOD
            t.push_str("/begin UNIT u1 \"\" \"\" DERIVED REF_UNIT u2 /end UNIT\n/begin UNIT u2 \"\" \"\" DERIVED REF_UNIT hx /end UNIT\n/begin UNIT hx \"\" \"\" DERIVED /end UNIT\n");
            ("UNIT", "hx")
        }
        5 => { t.push_str("/begin RECORD_LAYOUT hx FNC_VALUES 1 UBYTE ROW_DIR DIRECT /end RECORD_LAYOUT\n"); ("RECORD_LAYOUT", "hx") }
        6 => {
            t.push_str("/begin RECORD_LAYOUT hx AXIS_PTS_X 1 UBYTE INDEX_INCR DIRECT /end RECORD_LAYOUT\n/begin TYPEDEF_AXIS ta \"\" NO_INPUT_QUANTITY hx 0 NO_COMPU_METHOD 2 0 255 /end TYPEDEF_AXIS\n");
            ("RECORD_LAYOUT", "hx")
        }
        7 => {
            t.push_str("/begin RECORD_LAYOUT hx FNC_VALUES 1 UBYTE ROW_DIR DIRECT /end RECORD_LAYOUT\n/begin TYPEDEF_CHARACTERISTIC tc \"\" VALUE hx 0 NO_COMPU_METHOD 0 255 /end TYPEDEF_CHARACTERISTIC\n");
            ("RECORD_LAYOUT", "hx")
        }
        8 => {
            // COMPU_METHOD referenced only from an AXIS_DESCR inside a TYPEDEF_CHARACTERISTIC
            t.push_str("/begin COMPU_METHOD hx \"\" IDENTICAL \"%6.3\" \"\" /end COMPU_METHOD\n");
            t.push_str("/begin TYPEDEF_CHARACTERISTIC tc \"\" CURVE rl 0 NO_COMPU_METHOD 0 255 /begin AXIS_DESCR STD_AXIS NO_INPUT_QUANTITY hx 2 0 255 /end AXIS_DESCR /end TYPEDEF_CHARACTERISTIC\n");
            ("COMPU_METHOD", "hx")
        }
        9 => {
            // COMPU_METHOD referenced only from an INSTANCE OVERWRITE
            t.push_str("/begin COMPU_METHOD hx \"\" IDENTICAL \"%6.3\" \"\" /end COMPU_METHOD\n");
            t.push_str("/begin TYPEDEF_MEASUREMENT tm \"\" UBYTE NO_COMPU_METHOD 0 0 0 255 /end TYPEDEF_MEASUREMENT\n");
            t.push_str("/begin INSTANCE inst \"\" tm 0x10 /begin OVERWRITE inst 0 CONVERSION hx /end OVERWRITE /end INSTANCE\n");
            ("COMPU_METHOD", "hx")
        }
        10 => {
            // COMPU_METHOD referenced only from a TYPEDEF_MEASUREMENT
            t.push_str("/begin COMPU_METHOD hx \"\" IDENTICAL \"%6.3\" \"\" /end COMPU_METHOD\n/begin TYPEDEF_MEASUREMENT tm \"\" UBYTE hx 0 0 0 255 /end TYPEDEF_MEASUREMENT\n");
            ("COMPU_METHOD", "hx")
        }
        11 => {
            // empty GROUP referenced only from USER_RIGHTS
            t.push_str("/begin GROUP hx \"\" /end GROUP\n/begin USER_RIGHTS usr /begin REF_GROUP hx /end REF_GROUP /end USER_RIGHTS\n");
            ("GROUP", "hx")
        }
        12 => { t.push_str("/begin FUNCTION hx \"\" /end FUNCTION\n"); ("FUNCTION", "hx") }
        13 => {
            // empty FUNCTION referenced only from a GROUP's FUNCTION_LIST
            t.push_str("/begin FUNCTION hx \"\" /end FUNCTION\n/begin GROUP g \"\" ROOT /begin REF_MEASUREMENT ms /end REF_MEASUREMENT /begin FUNCTION_LIST hx /end FUNCTION_LIST /end GROUP\n");
            ("FUNCTION", "hx")
        }
        14 => {
            // GROUP chain: g (non-empty) -> SUB_GROUP hx (non-empty)
            t.push_str("/begin GROUP g \"\" ROOT /begin SUB_GROUP hx /end SUB_GROUP /end GROUP\n/begin GROUP hx \"\" /begin REF_CHARACTERISTIC ch /end REF_CHARACTERISTIC /end GROUP\n");
            ("GROUP", "hx")
        }
        _ => ("", ""),
    };
    // unreferenced helpers of every kind: must all be removed
    t.push_str("/begin COMPU_METHOD zcm \"\" IDENTICAL \"%6.3\" \"\" /end COMPU_METHOD\n/begin COMPU_TAB zct \"\" TAB_INTP 1 1 1 /end COMPU_TAB\n");
    t.push_str("/begin COMPU_VTAB zcv \"\" TAB_VERB 1 1 \"x\" /end COMPU_VTAB\n/begin UNIT zun \"\" \"\" DERIVED /end UNIT\n");
    t.push_str("/begin RECORD_LAYOUT zrl /end RECORD_LAYOUT\n/begin GROUP zg \"\" /end GROUP\n/begin FUNCTION zfn \"\" /end FUNCTION\n");
    t.push_str("/end MODULE /end PROJECT");
    (t, kind, name)
}

fn helper_present(m: &Module, kind: &str, name: &str) -> bool {
    match kind {
        "COMPU_METHOD" => m.compu_method.contains_key(name),
        "COMPU_VTAB" => m.compu_vtab.contains_key(name),
        "COMPU_VTAB_RANGE" => m.compu_vtab_range.contains_key(name),
        "UNIT" => m.unit.contains_key(name),
        "RECORD_LAYOUT" => m.record_layout.contains_key(name),
        "GROUP" => m.group.contains_key(name),
        "FUNCTION" => m.function.contains_key(name),
        _ => true,
    }
}

pub(crate) fn h_cleanup_sites() {
    let site = vrt_choice(15);
    let (text, kind, name) = cleanup_case(site);
    let (mut file, _log) = load_from_string(&text, None, true).unwrap();
    let before = file.clone();
    vrt_check(xref_errors(&before) == 0, "C10 harness template is consistent");
    file.cleanup();
    {
        let m = &file.project.module[0];
        let b = &before.project.module[0];
        vrt_check(m.measurement == b.measurement && m.characteristic == b.characteristic && m.axis_pts == b.axis_pts
            && m.instance == b.instance && m.blob == b.blob, "C10 cleanup never removes or alters measurement / calibration objects");
        vrt_check(m.typedef_axis == b.typedef_axis && m.typedef_blob == b.typedef_blob && m.typedef_characteristic == b.typedef_characteristic
            && m.typedef_measurement == b.typedef_measurement && m.typedef_structure == b.typedef_structure, "C10 cleanup never removes or alters typedefs");
        vrt_check(helper_present(m, kind, name), "C10 cleanup never removes a helper that is still referenced from a reference site of the grammar");
        vrt_check(!m.compu_method.contains_key("zcm") && !m.compu_tab.contains_key("zct") && !m.compu_vtab.contains_key("zcv")
            && !m.unit.contains_key("zun") && !m.record_layout.contains_key("zrl") && !m.group.contains_key("zg") && !m.function.contains_key("zfn"),
            "C10 cleanup removes every unreferenced helper");
    }
    vrt_check(xref_errors(&file) == 0, "C10 a file whose references all resolve still resolves after cleanup");
    let once = file.clone();
    file.cleanup();
    vrt_check(file == once, "C10 running cleanup twice gives the same result as running it once");
}

/// UNIT chains that are not anchored in a used COMPU_METHOD: idempotence
pub(crate) fn h_cleanup_unit_chain() {
    let n = vrt_choice(4); // length of the chain ux0 -> ux1 -> ...
    let mut t = String::from("ASAP2_VERSION 1 71 /begin PROJECT p \"\" /begin MODULE m \"\"\n");
    for i in 0..n {
        t.push_str("/begin UNIT ux");
        t.push((b'0' + i as u8) as char);
        t.push_str(" \"\" \"\" DERIVED");
        if i + 1 < n {
            t.push_str(" REF_UNIT ux");
            t.push((b'0' + i as u8 + 1) as char);
        }
        t.push_str(" /end UNIT\n");
    }
    t.push_str("/end MODULE /end PROJECT");
    let (mut file, _) = load_from_string(&t, None, true).unwrap();
    file.cleanup();
    let once = file.clone();
    file.cleanup();
    vrt_check(file == once, "C10 running cleanup twice gives the same result as running it once");
    vrt_check(xref_errors(&file) == 0, "C10 a file whose references all resolve still resolves after cleanup");
}
