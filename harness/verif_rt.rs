// Verification runtime, injected into a scratch copy of the crate as `crate::verif_rt` under cfg(verif).
// Under the MIR symbolic executor (E2) every vrt_* function is intercepted by name; the bodies below are the
// *native* semantics used for replay and for differential validation of the encoder: inputs come from the
// environment variable VRT_VALUES (comma separated u64), in the order the harness asks for them.
#![allow(dead_code)]
use std::cell::RefCell;

thread_local! {
    static VALS: RefCell<(Vec<u64>, usize)> = RefCell::new((Vec::new(), 0));
}

pub(crate) fn vrt_load_values(s: &str) {
    let v: Vec<u64> = s.split(',').filter(|x| !x.is_empty()).map(|x| x.trim().parse::<i128>().unwrap() as u64).collect();
    VALS.with(|c| *c.borrow_mut() = (v, 0));
}

fn next() -> u64 {
    VALS.with(|c| {
        let mut c = c.borrow_mut();
        let p = c.1;
        if p >= c.0.len() {
            panic!("VRT-VALUES-EXHAUSTED");
        }
        c.1 += 1;
        c.0[p]
    })
}

#[inline(never)] pub(crate) fn vrt_any_u8() -> u8 { next() as u8 }
#[inline(never)] pub(crate) fn vrt_any_u16() -> u16 { next() as u16 }
#[inline(never)] pub(crate) fn vrt_any_u32() -> u32 { next() as u32 }
#[inline(never)] pub(crate) fn vrt_any_u64() -> u64 { next() }
#[inline(never)] pub(crate) fn vrt_any_usize() -> usize { next() as usize }
#[inline(never)] pub(crate) fn vrt_any_i8() -> i8 { next() as i8 }
#[inline(never)] pub(crate) fn vrt_any_i16() -> i16 { next() as i16 }
#[inline(never)] pub(crate) fn vrt_any_i32() -> i32 { next() as i32 }
#[inline(never)] pub(crate) fn vrt_any_i64() -> i64 { next() as i64 }
#[inline(never)] pub(crate) fn vrt_any_bool() -> bool { next() & 1 == 1 }
#[inline(never)] pub(crate) fn vrt_any_f64() -> f64 { f64::from_bits(next()) }
/// a value in 0..n, explored exhaustively (E2 forks; no solver involved)
#[inline(never)] pub(crate) fn vrt_choice(n: u32) -> u32 { let v = next() as u32; assert!(v < n); v }

#[inline(never)]
pub(crate) fn vrt_assume(c: bool) {
    if !c {
        panic!("VRT-ASSUME-FAILED");
    }
}

/// the harness assertion: a failure is a property violation
#[inline(never)]
pub(crate) fn vrt_check(c: bool, msg: &'static str) {
    if !c {
        println!("VRT-CHECK-FAILED {}", msg);
        // a harness shared by several properties (VRT_PREFIX = the property under check): an assertion of a sibling
        // property is recorded like a soft check and the run goes on, so that later assertions are still evaluated
        if let Ok(pfx) = std::env::var("VRT_PREFIX") {
            if !pfx.is_empty() && !msg.starts_with(pfx.as_str()) {
                SOFT_FAILS.with(|f| f.set(f.get() + 1));
                return;
            }
        }
        panic!("VRT-CHECK-FAILED {}", msg);
    }
}

thread_local! {
    static SOFT_FAILS: std::cell::Cell<u32> = std::cell::Cell::new(0);
}

/// like vrt_check, but the harness continues so that one run reports every failing assertion
#[inline(never)]
pub(crate) fn vrt_soft_check(c: bool, msg: &'static str) {
    if !c {
        println!("VRT-CHECK-FAILED {}", msg);
        SOFT_FAILS.with(|f| f.set(f.get() + 1));
    }
}

pub(crate) fn vrt_soft_fail_count_and_reset() -> u32 {
    SOFT_FAILS.with(|f| { let n = f.get(); f.set(0); n })
}

/// reachability witness (vacuity guard)
#[inline(never)]
pub(crate) fn vrt_cover(c: bool, msg: &'static str) {
    if c {
        println!("VRT-COVER {}", msg);
    }
}

/// is this finding id listed in /verif/known_findings.json? (generated table)
#[inline(never)]
pub(crate) fn vrt_known(id: &'static str) -> bool {
    VRT_KNOWN.contains(&id)
}

#[inline(never)] pub(crate) fn vrt_observe_u64(v: u64) { println!("VRT-OBS {}", v); }
#[inline(never)] pub(crate) fn vrt_observe_bool(v: bool) { println!("VRT-OBS {}", v as u8); }
#[inline(never)]
pub(crate) fn vrt_observe_bytes(v: &[u8]) {
    let s: Vec<String> = v.iter().map(|b| b.to_string()).collect();
    println!("VRT-OBS [{}]", s.join(","));
}

/// write a file of the (virtual) file system and return the path to open it with.
/// native: a per-process temp directory; E2: a per-path dictionary consulted by the File::open / read_data models
static VRT_FS_DIR: std::sync::Mutex<Option<std::path::PathBuf>> = std::sync::Mutex::new(None);
static VRT_FS_CASE: std::sync::atomic::AtomicU32 = std::sync::atomic::AtomicU32::new(0);

/// native only: forget the file system of the previous case (a fresh directory is made on the next vrt_fs_write)
pub(crate) fn vrt_fs_reset() {
    let mut g = VRT_FS_DIR.lock().unwrap_or_else(|e| e.into_inner());
    if let Some(d) = g.take() {
        let _ = std::env::set_current_dir(std::env::temp_dir());
        let _ = std::fs::remove_dir_all(d);
    }
}

/// write a file of the (virtual) file system and return the name to open it with. Names are relative ("main.a2l",
/// "ecu/meas.a2l"); the root of the file system is the current directory.
/// native: a fresh temp directory per case, made the current directory; E2: a per-path dictionary consulted by the
/// File::open / read_data / Path::exists models
#[inline(never)]
pub(crate) fn vrt_fs_write(name: &str, content: &[u8]) -> String {
    let mut g = VRT_FS_DIR.lock().unwrap_or_else(|e| e.into_inner());
    if g.is_none() {
        let n = VRT_FS_CASE.fetch_add(1, std::sync::atomic::Ordering::SeqCst);
        let d = std::env::temp_dir().join(format!("vrt_fs_{}_{}", std::process::id(), n));
        std::fs::create_dir_all(&d).unwrap();
        std::env::set_current_dir(&d).unwrap();
        *g = Some(d);
    }
    let p = g.as_ref().unwrap().join(name);
    if let Some(parent) = p.parent() {
        std::fs::create_dir_all(parent).unwrap();
    }
    std::fs::write(&p, content).unwrap();
    name.to_string()
}

// ---- helpers built on the primitives (plain Rust: executed symbolically like any other code)

/// n symbolic bytes (n is a compile-time constant of the harness: concrete length)
pub(crate) fn vrt_bytes<const N: usize>() -> [u8; N] {
    let mut a = [0u8; N];
    let mut i = 0;
    while i < N {
        a[i] = vrt_any_u8();
        i += 1;
    }
    a
}

/// symbolic byte drawn from a fixed alphabet (assume-based, one solver variable)
pub(crate) fn vrt_byte_from(alphabet: &[u8]) -> u8 {
    let b = vrt_any_u8();
    let mut ok = false;
    let mut i = 0;
    while i < alphabet.len() {
        ok |= b == alphabet[i];
        i += 1;
    }
    vrt_assume(ok);
    b
}

pub(crate) fn vrt_ascii_string(n: usize, alphabet: &[u8]) -> String {
    let mut v = Vec::with_capacity(n);
    for _ in 0..n {
        v.push(vrt_byte_from(alphabet));
    }
    // alphabet is ASCII-only by contract of this helper
    String::from_utf8(v).unwrap()
}

/// native entry: VRT_BATCH=<file> with one "harness v1,v2,..." per line; every case runs under catch_unwind
#[cfg(test)]
#[test]
fn vrt_replay_entry() {
    let path = std::env::var("VRT_BATCH").expect("VRT_BATCH");
    let text = std::fs::read_to_string(path).unwrap();
    std::panic::set_hook(Box::new(|info| {
        println!("VRT-PANIC {}", info.to_string().replace('\n', " "));
    }));
    for (i, line) in text.lines().enumerate() {
        let mut it = line.splitn(2, ' ');
        let h = it.next().unwrap().to_string();
        let vals = it.next().unwrap_or("").to_string();
        println!("VRT-BEGIN {}", i);
        vrt_fs_reset();
        let r = std::panic::catch_unwind(move || {
            vrt_load_values(&vals);
            vrt_soft_fail_count_and_reset();
            let known = vrt_dispatch(&h);
            if vrt_soft_fail_count_and_reset() > 0 {
                panic!("VRT-SOFT-CHECKS-FAILED");
            }
            known
        });
        match r {
            Ok(true) => println!("VRT-END {} ok", i),
            Ok(false) => println!("VRT-END {} unknown-harness", i),
            Err(_) => println!("VRT-END {} panic", i),
        }
    }
    vrt_fs_reset();
}

// VRT_KNOWN and vrt_dispatch are generated below by the driver
