// E2 harnesses for parser.rs (C01 string escaping, C02 integer literals, C03/C06/C07 helpers)
use crate::verif_rt::*;
use crate::tokenizer::{A2lToken, A2lTokenType};
use crate::writer::Writer;

fn ctx() -> ParseContext {
    ParseContext { element: String::from("E"), fileid: 0, line: 1 }
}

fn one_token(ttype: A2lTokenType, text: &str) -> Vec<A2lToken> {
    vec![A2lToken { ttype, startpos: 0, endpos: text.len(), fileid: 0, line: 1 }]
}

// ------------------------------------------------------------------ C02 / C01: integer literals

const HEX: &[u8] = b"0123456789abcdefABCDEF";
const DEC: &[u8] = b"0123456789";

fn hexval(b: u8) -> u128 {
    // branch-free: '0'..'9' -> low nibble, 'A'..'F' / 'a'..'f' -> low nibble + 9
    ((b & 0x0f) + 9 * (b >> 6)) as u128
}

macro_rules! int_harness {
    ($hexname:ident, $decname:ident, $rtname:ident, $t:ty, $bits:expr, $signed:expr, $hexprefix:expr, $nhex:expr, $decprefix:expr, $ndec:expr) => {
        /// hex literal "0x" + $nhex digits: accepted => the stored value denotes the literal (no silent truncation)
        pub(crate) fn $hexname() {
            let mut text = String::from("0x");
            let mut reference: u128 = 0;
            for d in ($hexprefix as &str).bytes() {
                text.push(d as char);
                reference = reference.wrapping_mul(16).wrapping_add(hexval(d));
            }
            for _ in 0..$nhex {
                let d = vrt_byte_from(HEX);
                text.push(d as char);
                reference = reference.wrapping_mul(16).wrapping_add(hexval(d));
            }
            let tokens = one_token(A2lTokenType::Number, &text);
            let filedata = vec![text.clone()];
            let filenames = vec![Filename::from("f")];
            let mut log = Vec::new();
            let mut p = ParserState::new_internal(&tokens, &filedata, &filenames, &mut log, true);
            match p.get_integer::<$t>(&ctx()) {
                Ok((v, is_hex)) => {
                    vrt_check(is_hex, "C02 hex notation flag is recorded");
                    // the value, read as the unsigned bit pattern of the field, must be the literal
                    let pattern = (v as u128) & ((1u128 << $bits) - 1);
                    vrt_cover(reference > 0xFF, "literal above one byte accepted");
                    vrt_check(pattern == reference, "C02 accepted hex literal is stored without loss (a literal that does not fit must be diagnosed)");
                    vrt_observe_u64(pattern as u64);
                }
                Err(_) => {
                    vrt_check(reference >= (1u128 << $bits), "C02 a hex literal that fits the field is accepted");
                    vrt_observe_u64(u64::MAX);
                }
            }
        }

        /// decimal literal (optional '-') + $ndec digits
        pub(crate) fn $decname() {
            let neg = vrt_choice(2) == 1;
            let mut text = String::new();
            if neg { text.push('-'); }
            let mut reference: i128 = 0;
            for d in ($decprefix as &str).bytes() {
                text.push(d as char);
                reference = reference.wrapping_mul(10).wrapping_add((d - b'0') as i128);
            }
            for _ in 0..$ndec {
                let d = vrt_byte_from(DEC);
                text.push(d as char);
                reference = reference.wrapping_mul(10).wrapping_add((d - b'0') as i128);
            }
            if neg { reference = 0i128.wrapping_sub(reference); }
            let tokens = one_token(A2lTokenType::Number, &text);
            let filedata = vec![text.clone()];
            let filenames = vec![Filename::from("f")];
            let mut log = Vec::new();
            let mut p = ParserState::new_internal(&tokens, &filedata, &filenames, &mut log, true);
            let lo: i128 = if $signed { -(1i128 << ($bits - 1)) } else { 0 };
            let hi: i128 = if $signed { (1i128 << ($bits - 1)) - 1 } else { (1i128 << $bits) - 1 };
            match p.get_integer::<$t>(&ctx()) {
                Ok((v, is_hex)) => {
                    vrt_check(!is_hex, "C02 decimal notation flag is recorded");
                    vrt_check(v as i128 == reference, "C02 accepted decimal literal is stored without loss");
                    vrt_observe_u64(v as u64);
                }
                Err(_) => {
                    vrt_check(reference < lo || reference > hi || (neg && reference == 0 && !$signed), "C02 a decimal literal that fits the field is accepted");
                    vrt_observe_u64(u64::MAX);
                }
            }
        }

        /// C01 integer notation replay: get_integer(add_integer(v, hex)) == (v, hex) for every v
        pub(crate) fn $rtname() {
            let hex = vrt_choice(2) == 1;
            let v = if hex || $bits <= 16 {
                // every value of the type
                vrt_any_u64() as $t
            } else {
                // decimal notation of wide types: the 65536 values next to each end of the range and next to zero
                let d = vrt_any_u16() as u64;
                match vrt_choice(3) {
                    0 => d as $t,
                    1 => (<$t>::MAX as u64).wrapping_sub(d) as $t,
                    _ => (<$t>::MIN as u64).wrapping_add(d) as $t,
                }
            };
            let mut w = Writer::new(0);
            w.add_integer(v, hex, 0);
            let text = w.finish();
            let body = text.trim_start().to_string();
            let tokens = one_token(A2lTokenType::Number, &body);
            let filedata = vec![body.clone()];
            let filenames = vec![Filename::from("f")];
            let mut log = Vec::new();
            let mut p = ParserState::new_internal(&tokens, &filedata, &filenames, &mut log, true);
            match p.get_integer::<$t>(&ctx()) {
                Ok((v2, hex2)) => {
                    vrt_check(v2 == v, "C01 integer value survives write + read");
                    vrt_check(hex2 == hex, "C01 integer notation (hex flag) survives write + read");
                }
                Err(_) => vrt_check(false, "C01 written integer is accepted by the parser"),
            }
        }
    };
}

int_harness!(h_int_hex_u8, h_int_dec_u8, h_int_rt_u8, u8, 8, false, "", 3, "", 4);
int_harness!(h_int_hex_i8, h_int_dec_i8, h_int_rt_i8, i8, 8, true, "", 3, "", 4);
int_harness!(h_int_hex_u16, h_int_dec_u16, h_int_rt_u16, u16, 16, false, "", 5, "", 6);
int_harness!(h_int_hex_i16, h_int_dec_i16, h_int_rt_i16, i16, 16, true, "", 5, "", 6);
int_harness!(h_int_hex_u32, h_int_dec_u32, h_int_rt_u32, u32, 32, false, "", 9, "", 6);
int_harness!(h_int_hex_i32, h_int_dec_i32, h_int_rt_i32, i32, 32, true, "", 9, "", 6);
int_harness!(h_int_hex_u32b, h_int_dec_u32b, h_int_rt_u32b, u32, 32, false, "F", 8, "42949", 6);
int_harness!(h_int_hex_i32b, h_int_dec_i32b, h_int_rt_i32b, i32, 32, true, "7", 8, "21474", 6);
// 64 bit: concrete leading digits + symbolic tail (covers 16/17 hex digits and 19/20/21 decimal digits around the limits)
int_harness!(h_int_hex_u64, h_int_dec_u64, h_int_rt_u64, u64, 64, false, "FFFFFFFFFFF", 6, "18446744073709", 7);
int_harness!(h_int_hex_i64, h_int_dec_i64, h_int_rt_i64, i64, 64, true, "7FFFFFFFFFF", 6, "9223372036854", 7);
int_harness!(h_int_hex_u64b, h_int_dec_u64b, h_int_rt_u64b, u64, 64, false, "", 8, "", 6);

// ------------------------------------------------------------------ C01: string escape / unescape / string end agree

const STR_ALPHA: &[u8] = b"\"\\'\n\r\tnrt a";

fn str_roundtrip(n: usize) {
    let s = vrt_ascii_string(n, STR_ALPHA);
    let mut w = Writer::new(0);
    w.add_quoted_string(&s, 0);
    let out = w.finish();
    let body = out.trim_start_matches(' ').to_string();
    // the written text must tokenize to exactly one String token covering everything
    match crate::tokenizer::verif_h::tok_for_harness(&body) {
        Some(tokens) => {
            vrt_check(tokens.len() == 1, "C01 a written string is read back as exactly one token");
            vrt_check(tokens[0].ttype == A2lTokenType::String && tokens[0].startpos == 0 && tokens[0].endpos == body.len(),
                "C01 the string token covers the whole written text");
            let filedata = vec![body.clone()];
            let filenames = vec![Filename::from("f")];
            let mut log = Vec::new();
            let mut p = ParserState::new_internal(&tokens, &filedata, &filenames, &mut log, true);
            match p.get_string(&ctx()) {
                Ok(back) => {
                    vrt_observe_bytes(back.as_bytes());
                    vrt_check(back == s, "C01 unescape(escape(s)) == s");
                }
                Err(_) => vrt_check(false, "C01 a written string is accepted by get_string"),
            }
        }
        None => vrt_check(false, "C01 a written string tokenizes"),
    }
}

/// non-ASCII characters together with escapes: a multi-byte character on each side of n symbolic characters
fn str_roundtrip_unicode(n: usize) {
    let lead = match vrt_choice(3) { 0 => "\u{fc}", 1 => "\u{b0}C", _ => "\u{1F600}" };
    let mut s = String::from(lead);
    s.push_str(&vrt_ascii_string(n, STR_ALPHA));
    s.push_str("\u{e9}");
    let mut w = Writer::new(0);
    w.add_quoted_string(&s, 0);
    let out = w.finish();
    let body = out.trim_start_matches(' ').to_string();
    match crate::tokenizer::verif_h::tok_for_harness(&body) {
        Some(tokens) => {
            vrt_check(tokens.len() == 1 && tokens[0].endpos == body.len(), "C01 a written string is read back as exactly one token");
            let filedata = vec![body.clone()];
            let filenames = vec![Filename::from("f")];
            let mut log = Vec::new();
            let mut p = ParserState::new_internal(&tokens, &filedata, &filenames, &mut log, true);
            match p.get_string(&ctx()) {
                Ok(back) => vrt_check(back == s, "C01 unescape(escape(s)) == s"),
                Err(_) => vrt_check(false, "C01 a written string is accepted by get_string"),
            }
        }
        None => vrt_check(false, "C01 a written string tokenizes"),
    }
}
pub(crate) fn h_str_roundtrip_unicode_1() { str_roundtrip_unicode(1); }
pub(crate) fn h_str_roundtrip_unicode_2() { str_roundtrip_unicode(2); }
pub(crate) fn h_str_roundtrip_unicode_3() { str_roundtrip_unicode(3); }

/// C01 float text: add_float -> tokenizer -> get_double is the identity on a list of concrete values
/// (no symbolic float-to-text model exists: the values are enumerated, the code is still executed from MIR)
const FLOATS: &[f64] = &[0.0, 1.0, -1.0, 0.5, 123.456, 1.2e-5, 1.2e11, -9.87e12, 1e10, 1.0000001e10, 9.999e-5, 1e-4, -1e-4, 1.6e-19, 1e-300,
    5e-324, 2.2250738585072014e-308, 1.7976931348623157e308, -1.7976931348623157e308, 0.1, 0.30000000000000004, 4294967296.0, 255.0, 65535.0,
    3.4028234663852886e38, 1e21, 1e22, 123456789012345680.0, 2.220446049250313e-16, 1.1102230246251565e-16];

pub(crate) fn h_float_roundtrip() {
    let k = vrt_choice(FLOATS.len() as u32) as usize;
    let v = FLOATS[k];
    let mut w = Writer::new(0);
    w.add_float(v, 0);
    let text = w.finish().trim_start().to_string();
    match crate::tokenizer::verif_h::tok_for_harness(&text) {
        Some(tokens) => {
            vrt_check(tokens.len() == 1 && tokens[0].ttype == A2lTokenType::Number && tokens[0].endpos == text.len(), "C01 a written float is read back as exactly one number token");
            let filedata = vec![text.clone()];
            let filenames = vec![Filename::from("f")];
            let mut log = Vec::new();
            let mut p = ParserState::new_internal(&tokens, &filedata, &filenames, &mut log, true);
            match p.get_double(&ctx()) {
                Ok(back) => vrt_check(back == v, "C01 get_double(add_float(v)) == v"),
                Err(_) => vrt_check(false, "C01 a written float is accepted by get_double"),
            }
        }
        None => vrt_check(false, "C01 a written float tokenizes"),
    }
}

pub(crate) fn h_str_roundtrip_1() { str_roundtrip(1); }
pub(crate) fn h_str_roundtrip_2() { str_roundtrip(2); }
pub(crate) fn h_str_roundtrip_3() { str_roundtrip(3); }
pub(crate) fn h_str_roundtrip_4() { str_roundtrip(4); }

/// reverse direction: every accepted string token of n inner bytes re-writes to a text that reads back to the same value
fn str_fixpoint(n: usize) {
    let mut body = String::from("\"");
    body.push_str(&vrt_ascii_string(n, STR_ALPHA));
    body.push('"');
    if let Some(tokens) = crate::tokenizer::verif_h::tok_for_harness(&body) {
        if tokens.len() == 1 && tokens[0].ttype == A2lTokenType::String && tokens[0].endpos == body.len() {
            let filedata = vec![body.clone()];
            let filenames = vec![Filename::from("f")];
            let mut log = Vec::new();
            let mut p = ParserState::new_internal(&tokens, &filedata, &filenames, &mut log, true);
            if let Ok(v1) = p.get_string(&ctx()) {
                let mut w = Writer::new(0);
                w.add_quoted_string(&v1, 0);
                let out2 = w.finish().trim_start_matches(' ').to_string();
                match crate::tokenizer::verif_h::tok_for_harness(&out2) {
                    Some(t2) => {
                        vrt_check(t2.len() == 1 && t2[0].endpos == out2.len(), "C01 second write of a loaded string is one token");
                        let fd2 = vec![out2.clone()];
                        let mut log2 = Vec::new();
                        let mut p2 = ParserState::new_internal(&t2, &fd2, &filenames, &mut log2, true);
                        match p2.get_string(&ctx()) {
                            Ok(v2) => vrt_check(v2 == v1, "C01 load(write(load(text))) == load(text) for string values"),
                            Err(_) => vrt_check(false, "C01 re-written string is accepted"),
                        }
                    }
                    None => vrt_check(false, "C01 re-written string tokenizes"),
                }
            }
        }
    }
}

pub(crate) fn h_str_fixpoint_2() { str_fixpoint(2); }
pub(crate) fn h_str_fixpoint_3() { str_fixpoint(3); }
pub(crate) fn h_str_fixpoint_4() { str_fixpoint(4); }

// ------------------------------------------------------------------ C07 / C03: skipping of unknown elements
// Tags are one-letter identifiers: 'U' = the unknown tag, 'S' / 'T' = tags of the enclosing block (stop list).
// Identifiers inside the payload are *symbolic* letters, constrained only by the property's preconditions.

fn push_ident(text: &mut String, alphabet: &[u8]) -> u8 {
    let b = vrt_byte_from(alphabet);
    text.push(b as char);
    text.push(' ');
    b
}

fn count_tokens(text: &str) -> usize {
    crate::tokenizer::verif_h::tok_for_harness(text).map(|t| t.len()).unwrap_or(0)
}

/// one payload item; identifiers never reuse a tag of the enclosing block (precondition of C07)
fn push_item(text: &mut String, allow_nested: bool) {
    match vrt_choice(if allow_nested { 7 } else { 5 }) {
        0 => text.push_str("1 "),
        1 => text.push_str("\"s\" "),
        2 => { push_ident(text, b"OXU"); }
        3 => text.push_str("/* c */ "),
        4 => text.push_str("-2.5 "),
        5 => {
            // nested unknown block with a symbolic tag (may even be the unknown tag itself)
            text.push_str("/begin ");
            let t = push_ident(text, b"XUO");
            text.push_str("1 /end ");
            text.push(t as char);
            text.push(' ');
        }
        _ => {
            text.push_str("/begin X /begin ");
            let t = push_ident(text, b"YUX");
            text.push_str("0x2 /end ");
            text.push(t as char);
            text.push_str(" /end X ");
        }
    }
}

/// U ++ R: a well-formed unknown element followed by something the enclosing block understands
fn unknown_element(is_block: bool, nitems: usize) {
    let mut consumed = String::new();
    let mut urest = String::new();
    if is_block {
        consumed.push_str("/begin U ");
        for _ in 0..nitems { push_item(&mut urest, true); }
        urest.push_str("/end U ");
    } else {
        consumed.push_str("U ");
        for _ in 0..nitems { push_item(&mut urest, false); }
    }
    let strict = vrt_any_bool();
    let n_consumed = count_tokens(&consumed);
    let mut upart = consumed.clone();
    upart.push_str(&urest);
    let n_u = count_tokens(&upart);
    let mut text = upart.clone();
    // R: a known tag (symbolic: either stop-list entry), /begin + known tag, or the parent's /end
    match vrt_choice(4) {
        0 => { push_ident(&mut text, b"ST"); text.push_str("1"); }
        1 => { text.push_str("/begin "); let t = push_ident(&mut text, b"ST"); text.push_str("/end "); text.push(t as char); }
        2 => text.push_str("/end P"),
        _ => { push_ident(&mut text, b"ST"); }
    }
    let tokens = crate::tokenizer::verif_h::tok_for_harness(&text).unwrap();
    let filedata = vec![text.clone()];
    let filenames = vec![Filename::from("f")];
    let mut log = Vec::new();
    let r;
    let pos;
    {
        let mut p = ParserState::new_internal(&tokens, &filedata, &filenames, &mut log, strict);
        p.set_tokenpos(n_consumed);
        r = p.handle_unknown_taggedstruct_tag(&ctx(), "U", is_block, &["S", "T"]);
        pos = p.get_tokenpos();
    }
    vrt_cover(!strict, "non-strict run");
    if strict {
        match r {
            Err(ParserError::UnknownSubBlock { tag, .. }) => vrt_check(tag == "U", "C07 strict mode rejects the input with an error naming the unknown element"),
            _ => vrt_check(false, "C07 strict mode rejects an unknown element"),
        }
        vrt_check(log.is_empty(), "C07 strict mode logs nothing");
    } else {
        vrt_check(r.is_ok(), "C07 non-strict mode skips a well-formed unknown element");
        vrt_check(log.len() == 1, "C07 skipping an unknown element produces exactly one warning");
        vrt_check(pos <= tokens.len(), "C07 cursor stays inside the token list");
        let mut expect = n_u;
        if is_block {
            vrt_check(pos == expect, "C07 after an unknown block the cursor is at the first token behind /end TAG");
        } else {
            // comments directly in front of the next known element may be left to the enclosing block
            while expect > n_consumed && tokens[expect - 1].ttype == A2lTokenType::Comment && pos < expect {
                expect -= 1;
            }
            vrt_check(pos == expect, "C07 after an unknown keyword the cursor is at the next known tag, /begin of a known tag, or the parent's /end");
        }
    }
    vrt_observe_u64(pos as u64);
}

pub(crate) fn h_unknown_kw_0() { unknown_element(false, 0); }
pub(crate) fn h_unknown_kw_1() { unknown_element(false, 1); }
pub(crate) fn h_unknown_kw_2() { unknown_element(false, 2); }
pub(crate) fn h_unknown_kw_3() { unknown_element(false, 3); }
pub(crate) fn h_unknown_block_0() { unknown_element(true, 0); }
pub(crate) fn h_unknown_block_1() { unknown_element(true, 1); }
pub(crate) fn h_unknown_block_2() { unknown_element(true, 2); }
pub(crate) fn h_unknown_block_3() { unknown_element(true, 3); }

/// totality (C03): arbitrary lexeme soup after the unknown tag (identifiers symbolic over {U,S,O}), including end of
/// input right after the tag; symbolic strictness
fn push_soup(text: &mut String) {
    match vrt_choice(6) {
        0 => text.push_str("/begin "),
        1 => text.push_str("/end "),
        2 => { push_ident(text, b"USO"); }
        3 => text.push_str("1 "),
        4 => text.push_str("\"s\" "),
        _ => text.push_str("/* c */ "),
    }
}

fn unknown_soup(n: usize) {
    let is_block = vrt_choice(2) == 1;
    let strict = vrt_any_bool();
    let mut text = String::from(if is_block { "/begin U " } else { "U " });
    let n_consumed = if is_block { 2 } else { 1 };
    for _ in 0..n { push_soup(&mut text); }
    let tokens = crate::tokenizer::verif_h::tok_for_harness(&text).unwrap();
    let filedata = vec![text.clone()];
    let filenames = vec![Filename::from("f")];
    let mut log = Vec::new();
    let mut p = ParserState::new_internal(&tokens, &filedata, &filenames, &mut log, strict);
    p.set_tokenpos(n_consumed);
    let r = p.handle_unknown_taggedstruct_tag(&ctx(), "U", is_block, &["S"]);
    let pos = p.get_tokenpos();
    vrt_check(pos <= tokens.len(), "C03 cursor stays inside the token list");
    if strict {
        vrt_check(r.is_err(), "C06 strict mode never accepts an unknown element");
    }
    vrt_observe_bool(r.is_ok());
    vrt_observe_u64(pos as u64);
}
pub(crate) fn h_unknown_soup_0() { unknown_soup(0); }
pub(crate) fn h_unknown_soup_1() { unknown_soup(1); }
pub(crate) fn h_unknown_soup_2() { unknown_soup(2); }
pub(crate) fn h_unknown_soup_3() { unknown_soup(3); }
pub(crate) fn h_unknown_soup_4() { unknown_soup(4); }

/// get_next_tag_or_comment + get_line_offset on lexeme soups (cursor arithmetic, u32 line subtraction)
fn next_tag_soup(n: usize) {
    let mut text = String::new();
    for _ in 0..n {
        push_soup(&mut text);
        if vrt_choice(2) == 1 { text.push_str("\n"); }
    }
    let tokens = crate::tokenizer::verif_h::tok_for_harness(&text).unwrap();
    if tokens.is_empty() { return; }
    let filedata = vec![text.clone()];
    let filenames = vec![Filename::from("f")];
    let mut log = Vec::new();
    let mut p = ParserState::new_internal(&tokens, &filedata, &filenames, &mut log, false);
    let start = vrt_any_usize();
    vrt_assume(start <= tokens.len());
    p.set_tokenpos(start);
    let before = p.get_tokenpos();
    match p.get_next_tag_or_comment(&ctx()) {
        Ok(BlockContent::None) => vrt_check(p.get_tokenpos() == before, "C03 'no tag' leaves the cursor where it was"),
        Ok(BlockContent::Comment(_, off)) => { vrt_check(p.get_tokenpos() == before + 1, "C03 a comment consumes one token"); vrt_observe_u64(off as u64); }
        Ok(BlockContent::Block(_, is_block, off)) => { vrt_check(p.get_tokenpos() > before, "C03 a tag consumes input"); vrt_observe_u64(off as u64 + if is_block { 1000 } else { 0 }); }
        Err(_) => vrt_observe_u64(999),
    }
}
pub(crate) fn h_next_tag_soup_2() { next_tag_soup(2); }
pub(crate) fn h_next_tag_soup_3() { next_tag_soup(3); }
