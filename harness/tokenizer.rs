// E2 harnesses for tokenizer.rs (child module: private functions are reachable)
use crate::verif_rt::*;

fn sym_bytes(n: usize) -> Vec<u8> {
    let mut v = Vec::new();
    for _ in 0..n {
        v.push(vrt_any_u8());
    }
    v
}

fn h_find_string_end_n(n: usize) {
    let v = sym_bytes(n);
    let start = vrt_any_usize();
    vrt_assume(start <= n);
    let r = find_string_end(&v, start);
    match r {
        Ok(end) => {
            vrt_check(end > start && end <= n, "find_string_end: result inside the text");
            vrt_check(v[end - 1] == b'"', "find_string_end: result is one past a quote");
            vrt_observe_u64(end as u64);
        }
        Err(()) => {
            vrt_observe_u64(u64::MAX);
        }
    }
}

pub(crate) fn h_find_string_end_4() { h_find_string_end_n(4); }
pub(crate) fn h_find_string_end_6() { h_find_string_end_n(6); }
