// E2 harnesses for tokenizer.rs (child module: private functions are reachable)
use crate::verif_rt::*;

fn sym_bytes(n: usize) -> Vec<u8> {
    let mut v = Vec::new();
    for _ in 0..n {
        v.push(vrt_any_u8());
    }
    v
}

fn h_find_string_end_n(n: usize) {
    let v = sym_bytes(n);
    let start = vrt_any_usize();
    vrt_assume(start <= n);
    let r = find_string_end(&v, start);
    match r {
        Ok(end) => {
            vrt_check(end > start && end <= n, "find_string_end: result inside the text");
            vrt_check(v[end - 1] == b'"', "find_string_end: result is one past a quote");
            vrt_observe_u64(end as u64);
        }
        Err(()) => {
            vrt_observe_u64(u64::MAX);
        }
    }
}

pub(crate) fn h_find_string_end_4() { h_find_string_end_n(4); }
pub(crate) fn h_find_string_end_6() { h_find_string_end_n(6); }

// ------------------------------------------------------------------ C03: tokenize_core and friends

pub(crate) const TOK_ALPHA: &[u8] = b" \n\r/*\"\\0xag.-[";

fn ttype_code(t: &A2lTokenType) -> u64 {
    match t {
        A2lTokenType::Identifier => 0,
        A2lTokenType::Begin => 1,
        A2lTokenType::End => 2,
        A2lTokenType::Include => 3,
        A2lTokenType::String => 4,
        A2lTokenType::Number => 5,
        A2lTokenType::Comment => 6,
    }
}

/// post-conditions every successful tokenisation must satisfy (what the parser relies on)
fn check_tokens(text: &str, tokens: &Vec<A2lToken>) {
    let n = text.len();
    let mut prev_end = 0usize;
    let mut prev_line = 1u32;
    vrt_observe_u64(tokens.len() as u64);
    for t in tokens.iter() {
        vrt_check(t.startpos < t.endpos, "C03 token range is non-empty");
        vrt_check(t.endpos <= n, "C03 token range lies inside the text");
        vrt_check(text.is_char_boundary(t.startpos) && text.is_char_boundary(t.endpos), "C03 token range is on char boundaries");
        vrt_check(t.startpos >= prev_end, "C03 tokens do not overlap and are in text order");
        vrt_check(t.line >= prev_line, "C03 token line numbers never decrease");
        vrt_check(t.fileid == 0, "C03 fileid is propagated");
        prev_end = t.endpos;
        prev_line = t.line;
        vrt_observe_u64(ttype_code(&t.ttype));
        vrt_observe_u64(t.startpos as u64);
        vrt_observe_u64(t.endpos as u64);
        vrt_observe_u64(t.line as u64);
    }
}

fn tok_core_text(text: String) {
    match tokenize_core(String::from("f"), 0, &text) {
        Ok(tokens) => check_tokens(&text, &tokens),
        Err(_) => vrt_observe_u64(999),
    }
}

fn tok_core_n(n: usize) {
    tok_core_text(vrt_ascii_string(n, TOK_ALPHA));
}

pub(crate) fn h_tok_core_1() { tok_core_n(1); }
pub(crate) fn h_tok_core_2() { tok_core_n(2); }
pub(crate) fn h_tok_core_3() { tok_core_n(3); }
pub(crate) fn h_tok_core_4() { tok_core_n(4); }
pub(crate) fn h_tok_core_5() { tok_core_n(5); }

fn tok_prefixed(prefix: &str, n: usize, alpha: &[u8]) {
    let mut text = String::from(prefix);
    text.push_str(&vrt_ascii_string(n, alpha));
    tok_core_text(text);
}

/// every text that ends anywhere inside / after an A2ML block
pub(crate) fn h_tok_a2ml_tail_0() { tok_prefixed("/begin A2ML", 0, b" "); }
pub(crate) fn h_tok_a2ml_tail_1() { tok_prefixed("/begin A2ML", 1, b" \n\r/*endx\""); }
pub(crate) fn h_tok_a2ml_tail_2() { tok_prefixed("/begin A2ML", 2, b" \n\r/*endx\""); }
pub(crate) fn h_tok_a2ml_tail_3() { tok_prefixed("/begin A2ML", 3, b" \n\r/*endx\""); }
pub(crate) fn h_tok_a2ml_tail_4() { tok_prefixed("/begin A2ML ", 4, b" \n\r/*endx"); }
pub(crate) fn h_tok_a2ml_tail_5() { tok_prefixed("/begin A2ML x", 5, b" \n\r/*end"); }
pub(crate) fn h_tok_include_tail_3() { tok_prefixed("/include ", 3, b" \n\"/\\a.0"); }
pub(crate) fn h_tok_string_tail_4() { tok_prefixed("\"", 4, b" \n\"\\a"); }
pub(crate) fn h_tok_comment_tail_4() { tok_prefixed("/*", 4, b" \n*/a"); }
pub(crate) fn h_tok_number_tail_3() { tok_prefixed("0x", 3, b" 0afxg.-+"); }
pub(crate) fn h_tok_keyword_tail_3() { tok_prefixed("/", 3, b"begind /*"); }

/// unconstrained bytes (full byte range, must be valid UTF-8 to be a &str): no alphabet reduction
fn tok_core_raw(n: usize) {
    let v = sym_bytes(n);
    match String::from_utf8(v) {
        Ok(text) => tok_core_text(text),
        Err(_) => {}
    }
}
pub(crate) fn h_tok_core_raw_2() { tok_core_raw(2); }
pub(crate) fn h_tok_core_raw_3() { tok_core_raw(3); }

pub(crate) fn h_find_block_comment_end_5() {
    let n = 5;
    let v = sym_bytes(n);
    let start = vrt_any_usize();
    vrt_assume(start <= n);
    match find_block_comment_end(&v, start) {
        Ok(end) => {
            vrt_check(end > start && end <= n, "find_block_comment_end: result inside the text");
            vrt_check(end >= 2 && v[end - 1] == b'/' && v[end - 2] == b'*', "find_block_comment_end: result is one past */");
            vrt_observe_u64(end as u64);
        }
        Err(()) => vrt_observe_u64(u64::MAX),
    }
}

/// tokenize a text for harnesses in other modules (None on tokenizer error)
pub(crate) fn tok_for_harness(text: &str) -> Option<Vec<A2lToken>> {
    tokenize_core(String::from("f"), 0, text).ok()
}

/// error path with a long text: an untokenizable byte, 8 ASCII bytes, then arbitrary valid UTF-8 (error text is cut at +10)
pub(crate) fn h_tok_invalid_tail_3() {
    let mut v: Vec<u8> = Vec::from(&b"$12345678"[..]);
    for _ in 0..3 { v.push(vrt_any_u8()); }
    if let Ok(text) = String::from_utf8(v) { tok_core_text(text); }
}
pub(crate) fn h_tok_invalid_slash_tail_3() {
    let mut v: Vec<u8> = Vec::from(&b" /x2345678"[..]);
    for _ in 0..3 { v.push(vrt_any_u8()); }
    if let Ok(text) = String::from_utf8(v) { tok_core_text(text); }
}
