// E2 harnesses for a2ml.rs (C03: A2ML tokenizer and parser are total)
use crate::verif_rt::*;

fn tok_text(text: String) {
    match tokenize_a2ml(&Filename::from("f"), &text) {
        Ok((tokens, complete)) => {
            vrt_observe_u64(tokens.len() as u64);
            vrt_observe_u64(complete.len() as u64);
        }
        Err(_) => vrt_observe_u64(999),
    }
}

const AML_ALPHA: &[u8] = b" \n/*\";{[(=0xa_";

fn aml_tok_n(n: usize) { tok_text(vrt_ascii_string(n, AML_ALPHA)); }
pub(crate) fn h_aml_tok_1() { aml_tok_n(1); }
pub(crate) fn h_aml_tok_2() { aml_tok_n(2); }
pub(crate) fn h_aml_tok_3() { aml_tok_n(3); }
pub(crate) fn h_aml_tok_4() { aml_tok_n(4); }
pub(crate) fn h_aml_tok_5() { aml_tok_n(5); }

fn aml_prefixed(prefix: &str, n: usize, alpha: &[u8]) {
    let mut text = String::from(prefix);
    text.push_str(&vrt_ascii_string(n, alpha));
    tok_text(text);
}
pub(crate) fn h_aml_include_tail_0() { aml_prefixed("/include", 0, b" "); }
pub(crate) fn h_aml_include_tail_1() { aml_prefixed("/include", 1, b" \n\"a/.;"); }
pub(crate) fn h_aml_include_tail_2() { aml_prefixed("/include", 2, b" \n\"a/.;"); }
pub(crate) fn h_aml_include_tail_3() { aml_prefixed("/include", 3, b" \n\"a/.;"); }
pub(crate) fn h_aml_include_tail_4() { aml_prefixed("x /include ", 4, b" \n\"a/."); }
pub(crate) fn h_aml_tag_tail_3() { aml_prefixed("\"", 3, b" \"a\n;"); }
pub(crate) fn h_aml_comment_tail_3() { aml_prefixed("/*", 3, b" */a\n"); }
pub(crate) fn h_aml_number_tail_3() { aml_prefixed("0", 3, b"x09afg_ ;"); }
pub(crate) fn h_aml_number_big() { aml_prefixed("214748364", 2, b"0789 ;x"); }

/// unconstrained bytes (valid UTF-8)
pub(crate) fn h_aml_tok_raw_2() {
    let mut v = Vec::new();
    for _ in 0..2 { v.push(vrt_any_u8()); }
    if let Ok(text) = String::from_utf8(v) { tok_text(text); }
}

// ---- parser on lexeme sequences
const LEX: &[&str] = &["block", "\"T\"", "struct", "taggedstruct", "taggedunion", "enum", "{", "}", ";", "int", "[", "]", "2", "(", ")", "*", "=", ",", "x", "-1"];

fn parse_seq(prefix: &str, n: usize) {
    let mut text = String::from(prefix);
    for _ in 0..n {
        let k = vrt_choice(LEX.len() as u32) as usize;
        text.push(' ');
        text.push_str(LEX[k]);
    }
    match parse_a2ml(&Filename::from("f"), &text) {
        Ok((_spec, complete)) => vrt_observe_u64(complete.len() as u64),
        Err(_) => vrt_observe_u64(999),
    }
}
pub(crate) fn h_aml_parse_2() { parse_seq("", 2); }
pub(crate) fn h_aml_parse_3() { parse_seq("", 3); }
pub(crate) fn h_aml_parse_block_3() { parse_seq("block \"IF_DATA\"", 3); }
pub(crate) fn h_aml_parse_struct_3() { parse_seq("block \"IF_DATA\" struct {", 3); }
pub(crate) fn h_aml_parse_tagged_3() { parse_seq("block \"IF_DATA\" taggedstruct {", 3); }
pub(crate) fn h_aml_parse_enum_3() { parse_seq("enum x {", 3); }
pub(crate) fn h_aml_parse_array_3() { parse_seq("block \"IF_DATA\" struct { int [", 3); }
