"""Run-time values of the MIR symbolic executor."""
import z3

INT_TYPES = {
    'u8': (8, False), 'u16': (16, False), 'u32': (32, False), 'u64': (64, False), 'u128': (128, False), 'usize': (64, False),
    'i8': (8, True), 'i16': (16, True), 'i32': (32, True), 'i64': (64, True), 'i128': (128, True), 'isize': (64, True),
    'char': (32, False),
}


class Sym:
    """symbolic scalar (z3 BitVec / Bool / FP expression)"""
    __slots__ = ('e',)

    def __init__(self, e):
        self.e = e

    def __repr__(self):
        s = str(self.e)
        return 'Sym(%s)' % (s if len(s) < 80 else s[:77] + '...')

    def __deepcopy__(self, memo):
        return self


class Uninit:
    __slots__ = ()

    def __repr__(self):
        return '<uninit>'


UNINIT = Uninit()


class Adt:
    """struct / enum variant / tuple / closure environment"""
    __slots__ = ('name', 'variant', 'fields')

    def __init__(self, name, variant, fields):
        self.name = name
        self.variant = variant
        self.fields = fields

    def __repr__(self):
        if self.variant is not None:
            return '%s::%s%r' % (self.name, self.variant, self.fields)
        return '%s%r' % (self.name, self.fields)


def Tup(fields):
    return Adt('()', None, fields)


UNIT_NAME = '()'


def unit():
    return Adt('()', None, [])


class Arr:
    """fixed array or backing store; also base class of Vec / String models (all expose .elems)"""
    __slots__ = ('elems',)
    kind = 'array'

    def __init__(self, elems):
        self.elems = elems

    def __repr__(self):
        return '%s%r' % (self.kind, self.elems if len(self.elems) < 12 else self.elems[:12] + ['...'])


class VecV(Arr):
    __slots__ = ()
    kind = 'Vec'


class StringV(Arr):
    """String: elems are bytes (int or Sym BV8)"""
    __slots__ = ()
    kind = 'String'


class StrLit(Arr):
    """backing store of a str / byte-string literal"""
    __slots__ = ()
    kind = 'lit'


class Ref:
    """reference / raw pointer to a slot owner[key] (owner is a python list)"""
    __slots__ = ('owner', 'key')

    def __init__(self, owner, key):
        self.owner = owner
        self.key = key

    def get(self):
        return self.owner[self.key]

    def set(self, v):
        self.owner[self.key] = v

    def __repr__(self):
        try:
            return '&%r' % (self.owner[self.key],)
        except Exception:
            return '&<?>'


class SliceRef:
    """fat pointer &[T] / &str / &mut [T]: window into an Arr-like object"""
    __slots__ = ('arr', 'start', 'length', 'is_str')

    def __init__(self, arr, start, length, is_str=False):
        self.arr = arr
        self.start = start
        self.length = length
        self.is_str = is_str

    def items(self):
        return self.arr.elems[self.start:self.start + self.length]

    def __repr__(self):
        it = self.items()
        if all(isinstance(x, int) for x in it) and it:
            try:
                return '&%r' % bytes(it)
            except Exception:
                pass
        return '&slice%r' % (it if len(it) < 12 else it[:12] + ['...'])


class BoxV:
    __slots__ = ('fields',)

    def __init__(self, v):
        self.fields = [v]

    def __repr__(self):
        return 'Box(%r)' % (self.fields[0],)


class FnRef:
    """function item / function pointer (path text as printed in MIR)"""
    __slots__ = ('path',)

    def __init__(self, path):
        self.path = path

    def __repr__(self):
        return 'fn ' + self.path


class MapV:
    """HashMap / HashSet / BTreeMap model: association list in insertion order (sets store value None)"""
    __slots__ = ('entries', 'is_set')

    def __init__(self, is_set=False):
        self.entries = []   # list of [key, value]
        self.is_set = is_set

    def __repr__(self):
        return ('Set' if self.is_set else 'Map') + repr(self.entries)


class IterV:
    """generic iterator model: kind + state; see models.py"""
    __slots__ = ('kind', 'st')

    def __init__(self, kind, **st):
        self.kind = kind
        self.st = st

    def __repr__(self):
        return 'Iter<%s>' % self.kind


class Opaque:
    """a value we do not model (Formatter internals, io::Error, Path...); using it in control flow is an error"""
    __slots__ = ('what', 'data')

    def __init__(self, what, data=None):
        self.what = what
        self.data = data

    def __repr__(self):
        return 'Opaque(%s)' % self.what


def clone_shallow_copy(v):
    """value copy for `copy` operands (Copy types: scalars, refs, tuples/structs of those)"""
    t = type(v)
    if t is Adt:
        return Adt(v.name, v.variant, [clone_shallow_copy(x) for x in v.fields])
    if t is Arr:
        return Arr([clone_shallow_copy(x) for x in v.elems])
    return v


def is_sym(v):
    return type(v) is Sym


def mk_option(v):
    if v is None:
        return Adt('Option', 'None', [])
    return Adt('Option', 'Some', [v])


def mk_bool_z3(v):
    if type(v) is Sym:
        return v.e
    return z3.BoolVal(bool(v))


BUILTIN_ENUMS = {
    'Option': [('None', 0), ('Some', 1)],
    'Result': [('Ok', 0), ('Err', 1)],
    'Ordering': [('Less', -1), ('Equal', 0), ('Greater', 1)],
    'Cow': [('Borrowed', 0), ('Owned', 1)],
    'ControlFlow': [('Continue', 0), ('Break', 1)],
    'Bound': [('Included', 0), ('Excluded', 1), ('Unbounded', 2)],
    'Alignment': [('Left', 0), ('Right', 1), ('Center', 2), ('Unknown', 3)],
}
