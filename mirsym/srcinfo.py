"""Information the MIR dump does not carry, recovered from the source text of the scratch copy:
  * enum declarations (variant order / explicit discriminants)  -> discriminant(x) values
  * `<impl at FILE:L:C: L:C>` spans -> (trait or None, self type head)
"""
import os, re


def strip_comments(src):
    """Replace comments by spaces (keeping newlines / offsets); string and char literal aware."""
    out = list(src)
    i = 0
    n = len(src)
    while i < n:
        c = src[i]
        if c == '"':
            # raw strings r#"..."#
            j = i - 1
            hashes = 0
            while j >= 0 and src[j] == '#':
                hashes += 1
                j -= 1
            if j >= 0 and src[j] == 'r' and (hashes > 0 or True) and (j == 0 or not (src[j - 1].isalnum() or src[j - 1] == '_')) and (hashes > 0 or src[i - 1] == 'r'):
                end = src.find('"' + '#' * hashes, i + 1)
                i = (end + 1 + hashes) if end >= 0 else n
                continue
            i += 1
            while i < n and src[i] != '"':
                if src[i] == '\\':
                    i += 1
                i += 1
            i += 1
            continue
        if c == "'":
            m = re.match(r"'(\\u\{[0-9a-fA-F]+\}|\\x[0-9a-fA-F]{2}|\\.|[^\\'])'", src[i:i + 12])
            if m:
                i += m.end()
                continue
            i += 1
            continue
        if c == '/' and i + 1 < n and src[i + 1] == '/':
            j = src.find('\n', i)
            if j < 0:
                j = n
            for k in range(i, j):
                out[k] = ' '
            i = j
            continue
        if c == '/' and i + 1 < n and src[i + 1] == '*':
            depth = 1
            j = i + 2
            while j < n and depth > 0:
                if src.startswith('/*', j):
                    depth += 1
                    j += 2
                elif src.startswith('*/', j):
                    depth -= 1
                    j += 2
                else:
                    j += 1
            for k in range(i, j):
                if out[k] != '\n':
                    out[k] = ' '
            i = j
            continue
        i += 1
    return ''.join(out)


def _match_brace(s, i):
    depth = 0
    n = len(s)
    while i < n:
        c = s[i]
        if c == '"':
            i += 1
            while i < n and s[i] != '"':
                if s[i] == '\\':
                    i += 1
                i += 1
        elif c in '{([':
            depth += 1
        elif c in '})]':
            depth -= 1
            if depth == 0:
                return i
        i += 1
    return n - 1


def _split_commas(s):
    out = []
    depth = 0
    start = 0
    i = 0
    n = len(s)
    while i < n:
        c = s[i]
        if c == '"':
            i += 1
            while i < n and s[i] != '"':
                if s[i] == '\\':
                    i += 1
                i += 1
        elif c in '{([<':
            depth += 1
        elif c in '})]':
            depth -= 1
        elif c == '>' and not (i > 0 and s[i - 1] in '-='):
            depth -= 1
        elif c == ',' and depth == 0:
            out.append(s[start:i])
            start = i + 1
        i += 1
    out.append(s[start:])
    return [x.strip() for x in out if x.strip()]


def blank_strings(t):
    """replace the content of string literals by spaces (same length), so that declarations quoted inside strings
    (e.g. A2ML text constants containing 'enum X {') are not mistaken for Rust items"""
    def blank(m):
        return m.group(0)[0] + ' ' * (len(m.group(0)) - 2) + m.group(0)[-1] if len(m.group(0)) >= 2 else m.group(0)
    t = re.sub(r"'(?:\\.|\")'", lambda m: "' '" if len(m.group(0)) == 3 else "'  '", t)
    t = re.sub(r'r(#+)"(?:.|\n)*?"\1', lambda m: ' ' * len(m.group(0)), t)
    t = re.sub(r'"(?:\\.|[^"\\])*"', blank, t)
    return t


class SrcInfo:
    def __init__(self, repo_root):
        self.root = repo_root
        self.files = {}       # relpath -> (raw lines, stripped text)
        self.enums = {}       # name -> [(variant, discr)]
        self.enum_dups = set()
        self._impl_cache = {}
        self._fn_gen_cache = {}
        d = os.path.join(repo_root, 'a2lfile', 'src')
        for dp, dn, fn in os.walk(d):
            for f in fn:
                if f.endswith('.rs'):
                    p = os.path.join(dp, f)
                    rel = os.path.relpath(p, repo_root)
                    raw = open(p, errors='replace').read()
                    if f == 'specification_orig.rs':
                        continue
                    st = strip_comments(raw)
                    self.files[rel] = (raw.split('\n'), st)
                    self._scan_enums(st)

    def _scan_enums(self, st):
        st = blank_strings(st)
        for m in re.finditer(r'\benum\s+(\w+)\s*(<[^{]*>)?\s*(where[^{]*)?\{', st):
            name = m.group(1)
            i = m.end() - 1
            j = _match_brace(st, i)
            body = st[i + 1:j]
            variants = []
            nxt = 0
            for v in _split_commas(body):
                v = re.sub(r'#\s*\[[^\]]*\]', '', v).strip()
                mm = re.match(r'^(\w+)', v)
                if not mm:
                    continue
                vname = mm.group(1)
                md = re.search(r'=\s*(-?\s*(?:0x[0-9a-fA-F_]+?|\d[\d_]*?))_?(?:[iu](?:8|16|32|64|128|size))?\s*$', v)
                if md and '{' not in v and '(' not in v:
                    nxt = int(md.group(1).replace('_', '').replace(' ', ''), 0)
                variants.append((vname, nxt))
                nxt += 1
            if name in self.enums and self.enums[name] != variants:
                self.enum_dups.add(name)
            else:
                self.enums[name] = variants

    def fn_generics(self, fname, file_hint=None):
        """type/const generic parameter names of `fn fname<...>` as declared in the source (lifetimes skipped)"""
        key = (fname, file_hint)
        if key in self._fn_gen_cache:
            return self._fn_gen_cache[key]
        res = None
        files = list(self.files.items())
        if file_hint:
            files.sort(key=lambda kv: 0 if kv[0].endswith(file_hint) else 1)
        for rel, (lines, st) in files:
            m = re.search(r'\bfn\s+' + re.escape(fname) + r'\s*<', st)
            if not m:
                continue
            i = m.end() - 1
            depth = 0
            j = i
            while j < len(st):
                ch = st[j]
                if ch == '<':
                    depth += 1
                elif ch == '>' and st[j - 1] not in '-=':
                    depth -= 1
                    if depth == 0:
                        break
                j += 1
            params = []
            for part in _split_commas(st[i + 1:j]):
                part = part.strip()
                if part.startswith("'"):
                    continue
                if part.startswith('const '):
                    part = part[6:]
                mm = re.match(r'^(\w+)', part)
                if mm:
                    params.append(mm.group(1))
            res = params
            break
        self._fn_gen_cache[key] = res
        return res

    def impl_at(self, span):
        """span text 'a2lfile/src/x.rs:L1:C1: L2:C2' -> (trait|None, self_head) ; heads are last path segments."""
        if span in self._impl_cache:
            return self._impl_cache[span]
        m = re.match(r'^(.*?):(\d+):(\d+): (\d+):(\d+)$', span)
        r = (None, None, None, None)
        if m:
            f, l1, c1, l2, c2 = m.group(1), int(m.group(2)), int(m.group(3)), int(m.group(4)), int(m.group(5))
            ent = self.files.get(f)
            if ent:
                lines = ent[0]
                if l1 == l2:
                    text = lines[l1 - 1][c1 - 1:c2 - 1]
                else:
                    text = lines[l1 - 1][c1 - 1:] + ' ' + ' '.join(lines[l1:l2 - 1]) + ' ' + lines[l2 - 1][:c2 - 1]
                text = text.strip()
                if text.startswith('impl') or text.startswith('unsafe impl'):
                    r = self._parse_impl_header(text)
                else:
                    # derive: the trait is the span text, the type is the next struct/enum after that line
                    trait = text.split('::')[-1]
                    if trait == 'Error':
                        trait = 'Display'
                    for k in range(l1 - 1, min(l1 + 40, len(lines))):
                        mm = re.search(r'\b(?:struct|enum|union)\s+(\w+)', lines[k])
                        if mm:
                            r = (trait, mm.group(1), trait, mm.group(1))
                            break
        self._impl_cache[span] = r
        return r

    @staticmethod
    def _parse_impl_header(text):
        t = re.sub(r'^(unsafe\s+)?impl\s*', '', text)
        if t.startswith('<'):
            # skip generics
            depth = 0
            for i, ch in enumerate(t):
                if ch == '<':
                    depth += 1
                elif ch == '>' and t[i - 1] not in '-=':
                    depth -= 1
                    if depth == 0:
                        t = t[i + 1:].strip()
                        break
        t = re.split(r'\bwhere\b', t)[0].strip().rstrip('{').strip()
        # split at top-level ' for '
        depth = 0
        trait = None
        selfty = t
        i = 0
        while i < len(t):
            ch = t[i]
            if ch in '<(':
                depth += 1
            elif ch in ')':
                depth -= 1
            elif ch == '>' and t[i - 1] not in '-=':
                depth -= 1
            elif depth == 0 and t.startswith(' for ', i):
                trait = t[:i].strip()
                selfty = t[i + 5:].strip()
                break
            i += 1
        return (type_head(trait) if trait else None, type_head(selfty), trait, selfty)


def type_head(t):
    """'specification::ItemList<T>' -> 'ItemList';  '&mut Vec<X>' -> 'Vec' ; '[u8]' -> '[]'; 'std::fmt::Display' -> 'Display'"""
    if t is None:
        return None
    t = t.strip()
    while True:
        t0 = t
        t = re.sub(r"^&\s*('\w+\s+)?(mut\s+)?", '', t)
        t = re.sub(r'^\*(const|mut)\s+', '', t)
        t = re.sub(r'^dyn\s+', '', t)
        if t == t0:
            break
    if t.startswith('['):
        return '[]'
    if t.startswith('('):
        return '()'
    # cut generics
    depth = 0
    out = []
    for i, ch in enumerate(t):
        if ch == '<':
            depth += 1
        elif ch == '>' and (i == 0 or t[i - 1] not in '-='):
            depth -= 1
        elif depth == 0:
            out.append(ch)
    t = ''.join(out).strip()
    return t.split('::')[-1].strip()
