"""Models of std / core callees (the trusted base of E2) and of the verif runtime (vrt_*).

Every model is registered under the normalised key computed by Interp._resolve_callee:
  'Type::method', '<Self as Trait>::method', 'Trait::method', or a bare function name.
Lengths of containers are concrete on each path; contents may be symbolic.
"""
import math, re, struct
import z3
from .values import *
from .interp_api import PathEnd, Unmodelled, wrap

REGISTRY = {}
OVERRIDES = {}   # crate functions replaced by environment stubs (file system)


def model(*keys):
    def deco(f):
        for k in keys:
            REGISTRY[k] = f
        return f
    return deco


def deref(v):
    while type(v) is Ref:
        v = v.get()
    return v


def deref1(v):
    if type(v) is Ref:
        return v.get()
    return v


def some(v):
    return Adt('Option', 'Some', [v])


def none():
    return Adt('Option', 'None', [])


def ok(v):
    return Adt('Result', 'Ok', [v])


def err(v):
    return Adt('Result', 'Err', [v])


def ordering(c):
    return Adt('Ordering', 'Less' if c < 0 else ('Equal' if c == 0 else 'Greater'), [])


def as_slice(v):
    """any reference-to-sequence value -> SliceRef"""
    v0 = v
    while type(v) is Ref:
        v = v.get()
    if type(v) is SliceRef:
        return v
    if isinstance(v, Arr):
        return SliceRef(v, 0, len(v.elems), type(v) is StringV or (type(v) is StrLit))
    if type(v) is BoxV:
        return as_slice(v.fields[0])
    if type(v) is Adt and v.name == 'Cow':
        return as_slice(v.fields[0])
    raise Unmodelled('as_slice of %r' % (v0,))


def items_of(v):
    return as_slice(v).items()


def bytes_eq(I, a, b):
    """equality of two byte/char sequences -> python bool or Sym"""
    if len(a) != len(b):
        return False
    conds = []
    for x, y in zip(a, b):
        sx, sy = type(x) is Sym, type(y) is Sym
        if not sx and not sy:
            if x != y:
                return False
        else:
            bits = (x.e.size() if sx else y.e.size())
            conds.append(I.to_bv(x, bits) == I.to_bv(y, bits))
    if not conds:
        return True
    return Sym(z3.And(*conds)) if len(conds) > 1 else Sym(conds[0])


def concrete_bytes(items):
    if all(isinstance(x, int) for x in items):
        return bytes(items)
    return None


def make_variant_ctor(head, variant):
    def ctor(I, args, callee):
        return Adt(head, variant, list(args))
    ctor.__name__ = 'ctor_%s_%s' % (head, variant)
    return ctor


# ============================================================ verif runtime

def _any(kind, bits):
    def f(I, args, callee):
        return I.fresh(kind, bits)
    f.__name__ = 'vrt_any_' + kind
    return f


for _k, _b in (('u8', 8), ('u16', 16), ('u32', 32), ('u64', 64), ('usize', 64), ('i8', 8), ('i16', 16), ('i32', 32),
               ('i64', 64), ('bool', 1), ('f64', 64), ('char', 32)):
    REGISTRY['vrt_any_' + _k] = _any(_k, _b)


@model('vrt_choice')
def vrt_choice(I, args, callee):
    """vrt_choice(n): a value in 0..n, explored exhaustively by forking (concrete on each path)"""
    n = args[0]
    if I.concrete_inputs is not None:
        return I.fresh('u32', 32)
    # fork eagerly: no solver involved
    for i in range(n - 1):
        if I.fork():
            continue
        I.record_concrete_input(i)
        I.decisions.append(('choice', i))
        return i
    I.record_concrete_input(n - 1)
    I.decisions.append(('choice', n - 1))
    return n - 1


@model('vrt_assume')
def vrt_assume(I, args, callee):
    I.assume(args[0])
    return unit()


@model('vrt_check')
def vrt_check(I, args, callee):
    c = args[0]
    msg = concrete_bytes(items_of(args[1])) or b'?'
    msg = msg.decode('utf-8', 'replace')
    # a harness shared by several properties: an assertion of another property than the one under check must not end
    # the path (it would hide later assertions of this property) - it is recorded and exploration goes on
    pfx = I.cfg.get('msg_prefix')
    foreign = bool(pfx) and not msg.startswith(pfx)
    if type(c) is not Sym:
        if not c:
            I.report('check', msg)
            if not foreign:
                raise PathEnd('violation', msg)
        return unit()
    if foreign:
        I.report('check', msg, z3.Not(c.e))
        return unit()
    I.require(c.e, 'check', msg, 'violation')
    return unit()


@model('vrt_soft_check')
def vrt_soft_check(I, args, callee):
    c = args[0]
    msg = (concrete_bytes(items_of(args[1])) or b'?').decode('utf-8', 'replace')
    if type(c) is not Sym:
        if not c:
            I.report('check', msg)
        return unit()
    I.report('check', msg, z3.Not(c.e))
    return unit()


@model('vrt_cover')
def vrt_cover(I, args, callee):
    c = args[0]
    msg = (concrete_bytes(items_of(args[1])) or b'?').decode('utf-8', 'replace')
    if type(c) is Sym:
        hit = I.feasible(c.e)
    else:
        hit = bool(c)
    if hit:
        I.covers[msg] = I.covers.get(msg, 0) + 1
    return unit()


@model('vrt_known')
def vrt_known(I, args, callee):
    name = (concrete_bytes(items_of(args[0])) or b'').decode()
    return name in I.known


@model('vrt_observe_u64')
def vrt_observe_u64(I, args, callee):
    I.obs.append(args[0])
    return unit()


@model('vrt_observe_bool')
def vrt_observe_bool(I, args, callee):
    v = args[0]
    if type(v) is Sym:
        v = Sym(z3.If(v.e, z3.BitVecVal(1, 8), z3.BitVecVal(0, 8)))
    else:
        v = 1 if v else 0
    I.obs.append(v)
    return unit()


@model('vrt_observe_bytes')
def vrt_observe_bytes(I, args, callee):
    I.obs.append(list(items_of(args[0])))
    return unit()


# ============================================================ panics

def _panic(name):
    def f(I, args, callee):
        msg = name
        try:
            for a in args:
                b = concrete_bytes(items_of(a))
                if b:
                    msg += ': ' + b.decode('utf-8', 'replace')
                    break
        except Exception:
            pass
        raise PathEnd('panic', msg)
    f.__name__ = 'panic_' + name
    return f


for _n in ('panic', 'panic_fmt', 'panic_explicit', 'unwrap_failed', 'expect_failed', 'panic_bounds_check',
           'slice_index_fail', 'slice_start_index_len_fail', 'slice_end_index_len_fail', 'slice_index_order_fail',
           'str_index_overflow_fail', 'panic_nounwind', 'panic_display', 'unreachable_display', 'begin_panic',
           'panic_const_div_by_zero', 'panic_const_rem_by_zero', 'panic_const_add_overflow', 'panic_cold_explicit',
           'assert_failed', 'panic_const_sub_overflow', 'panic_const_mul_overflow', 'slice_error_fail', 'capacity_overflow',
           'handle_alloc_error', 'assert_failed_inner'):
    REGISTRY[_n] = _panic(_n)
    REGISTRY['panicking::' + _n] = REGISTRY[_n]


@model('must_use', 'hint::must_use', 'black_box', 'hint::black_box', 'identity', 'convert::identity',
       'Borrow::borrow', 'AsRef::as_ref', 'IntoIterator::into_iter', 'Iterator::by_ref')
def m_identity(I, args, callee):
    return args[0]


@model('<T as Into>::into', 'Into::into', 'From::from', '<T as From>::from')
def m_from_into(I, args, callee):
    """lossless conversions between scalar types (u8 -> u32, u16 -> u32, u32 -> f64, char -> u32, ...); identity otherwise"""
    import re as _re
    q = I.parse_qualified(callee)
    if q and q[1]:
        st = q[0].strip()
        m = _re.search(r'(?:From|Into)<([^<>]*)>', q[1])
        ot = m.group(1).strip() if m else None
        if ot:
            src, dst = (ot, st) if 'From' in q[1] else (st, ot)
            ints = dict(INT_TYPES, bool=(1, False))
            if src in ints and dst in ints and src != dst:
                return I.cast(args[0], src, dst, 'IntToInt')
            if src in ints and dst in ('f32', 'f64'):
                return I.cast(args[0], src, dst, 'IntToFloat')
            if src == 'f32' and dst == 'f64':
                return I.cast(args[0], src, dst, 'FloatToFloat')
    return args[0]


@model('mem::drop', 'drop', 'mem::forget', 'forget', 'drop_in_place', 'ptr::drop_in_place')
def m_drop(I, args, callee):
    return unit()


@model('mem::swap', 'swap')
def m_swap(I, args, callee):
    a, b = args
    va, vb = a.get(), b.get()
    a.set(vb)
    b.set(va)
    return unit()


@model('mem::replace', 'replace')
def m_replace(I, args, callee):
    a, v = args
    if type(a) is not Ref:
        raise Unmodelled('replace on %r' % (a,))
    old = a.get()
    a.set(v)
    return old


@model('mem::take', 'take')
def m_take(I, args, callee):
    a = args[0]
    old = a.get()
    a.set(default_like(I, old))
    return old


def default_like(I, v):
    t = type(v)
    if t is StringV:
        return StringV([])
    if t is VecV:
        return VecV([])
    if t is MapV:
        return MapV(v.is_set)
    if t is Adt and v.name == 'Option':
        return none()
    if v is True or v is False:
        return False
    if isinstance(v, int):
        return 0
    if t is Adt:
        c = I.traitimpl.get(('Default', v.name, 'default'))
        if c:
            return I.exec_body(I.prog.get(c[0][0]), c[0][0], [])
    raise Unmodelled('Default for %r' % (v,))


def override(*keys):
    def deco(f):
        for k in keys:
            OVERRIDES[k] = f
        return f
    return deco


FS = {}   # virtual file system of the current path: name -> list of bytes (symbolic allowed)


@model('vrt_fs_write')
def vrt_fs_write(I, args, callee):
    """vrt_fs_write(name, bytes) -> name; E2 keeps the content in a per-path dictionary (root = current directory)"""
    name = bytes(concrete_bytes(items_of(args[0])) or b'').decode()
    FS[_fs_norm(name)] = list(items_of(args[1]))
    return StringV(list(name.encode()))


def _fs_norm(name):
    parts = []
    for c in name.split('/'):
        if c in ('', '.'):
            continue
        if c == '..' and parts:
            parts.pop()
            continue
        parts.append(c)
    return ('/' if name.startswith('/') else '') + '/'.join(parts)


def _fs_name(v):
    try:
        return bytes(concrete_bytes(items_of(v)) or b'').decode()
    except Exception:
        return None


@model('File::open', 'fs::File::open')
def file_open(I, args, callee):
    """environment model: only files written by vrt_fs_write exist"""
    name = _fs_name(args[0])
    if name is None or _fs_norm(name) not in FS:
        return err(Opaque('io::Error'))
    return ok(Opaque('File', _fs_norm(name)))


@override('loader::read_data', 'read_data')
def stub_read_data(I, args, callee):
    f = deref(args[0])
    return ok(VecV(list(FS[f.data])))


@model('fs::write', 'std::fs::write')
def fs_write(I, args, callee):
    """environment model: std::fs::write(path, contents) stores the bytes in the virtual file system"""
    name = _fs_name(args[0])
    if name is None:
        raise Unmodelled('fs::write with a symbolic path')
    FS[_fs_norm(name)] = list(items_of(args[1]))
    return ok(unit())


# std::path on concrete strings (paths of the virtual file system are concrete in every harness)

def _path_str(v):
    n = _fs_name(v)
    if n is None:
        raise Unmodelled('symbolic path')
    return n


@model('Path::is_absolute', 'Path::has_root')
def path_is_absolute(I, args, callee):
    return _path_str(args[0]).startswith('/')


@model('Path::is_relative')
def path_is_relative(I, args, callee):
    return not _path_str(args[0]).startswith('/')


@model('Path::parent')
def path_parent(I, args, callee):
    p = _path_str(args[0])
    root = p.startswith('/')
    comps = [c for c in p.split('/') if c not in ('', '.')] if p else []
    if not comps:
        return none()
    par = '/'.join(comps[:-1])
    if root:
        par = '/' + par
    elif p.startswith('./') and not par:
        par = '.'
    return some(StringV(list(par.encode())))


@model('Path::join', 'PathBuf::join')
def path_join(I, args, callee):
    a, b = _path_str(args[0]), _path_str(args[1])
    if b.startswith('/') or not a:
        r = b
    elif a.endswith('/'):
        r = a + b
    else:
        r = a + '/' + b
    return StringV(list(r.encode()))


@model('Path::exists', 'Path::is_file', 'Path::try_exists')
def path_exists(I, args, callee):
    n = _fs_norm(_path_str(args[0]))
    hit = n in FS or ('is_file' not in callee and (n == '' or any(k.startswith(n + '/') for k in FS)))
    if 'try_exists' in callee:
        return ok(hit)
    return hit


@model('Path::file_name', 'Path::extension')
def path_file_name(I, args, callee):
    p = _path_str(args[0])
    comps = [c for c in p.split('/') if c not in ('', '.')]
    if not comps:
        return none()
    last = comps[-1]
    if 'extension' in callee:
        if '.' not in last.lstrip('.'):
            return none()
        last = last.rsplit('.', 1)[1]
    return some(StringV(list(last.encode())))


def load_all():
    from . import models_std, models_std2, models_fmt  # noqa: F401 (register)


load_all()
