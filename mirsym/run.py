"""CLI: explore one harness symbolically.  python3-vt -m mirsym.run --mir a2l.mir --repo <scratch repo> --harness NAME --out DIR"""
import argparse, json, multiprocessing, os, sys, threading, time, collections


def explore(mir_path, repo, harness, outdir, procs=8, timeout=300, max_steps=2_000_000, known=(), concrete=None,
            query_timeout_ms=10000, export_smt=None, msg_prefix=None):
    from . import mir, srcinfo, interp
    os.makedirs(outdir, exist_ok=True)
    respath = os.path.join(outdir, harness + '.paths.jsonl')
    if os.path.exists(respath):
        os.unlink(respath)
    fd = os.open(respath, os.O_WRONLY | os.O_CREAT | os.O_APPEND, 0o644)
    t0 = time.time()
    prog = mir.Program(mir_path)
    src = srcinfo.SrcInfo(repo)
    # a slow (shared, throttled) machine must not turn into solver give-ups: every solver time limit is scaled by the
    # factor the driver measured (MIRSYM_SLOW, >= 1)
    slow = max(1.0, float(os.environ.get('MIRSYM_SLOW', '1') or 1))
    query_timeout_ms = int(query_timeout_ms * slow)
    cfg = {
        'feas_timeout_ms': int(3000 * slow), 'fresh_timeout_ms': int(40000 * slow),
        'results_fd': fd, 'sem': multiprocessing.Semaphore(max(1, procs - 1)), 'deadline': t0 + timeout,
        'max_steps': max_steps, 'known': list(known), 'concrete_inputs': concrete, 'query_timeout_ms': query_timeout_ms, 'export_smt': export_smt, 'msg_prefix': msg_prefix,
    }
    I = interp.Interp(prog, src, cfg)
    sys.setrecursionlimit(200000)
    threading.stack_size(1024 * 1024 * 1024)
    th = threading.Thread(target=I.run, args=(harness,))
    th.start()
    th.join()
    os.close(fd)
    return summarize(respath, harness, time.time() - t0)


def summarize(respath, harness, wall):
    st = collections.Counter()
    steps = queries = 0
    solver_s = 0.0
    viol = {}
    covers = collections.Counter()
    samples = []
    details = collections.Counter()
    maxdepth = 0
    npaths = 0
    with open(respath) as f:
        for line in f:
            try:
                r = json.loads(line)
            except Exception:
                st['corrupt'] += 1
                continue
            npaths += 1
            st[r['status']] += 1
            steps += r['steps']
            queries += r['queries']
            solver_s += r['solver_s']
            maxdepth = max(maxdepth, r.get('depth', 0))
            for k, v in (r.get('covers') or {}).items():
                covers[k] += v
            if r['status'] not in ('ok', 'assume_false', 'panic', 'violation', 'infeasible'):
                details[r['status'] + ': ' + r.get('detail', '')[-600:]] += 1
            for v in r.get('violations') or []:
                key = (v['kind'], v['msg'])
                if key not in viol:
                    viol[key] = dict(v, count=1, alt_inputs=[])
                else:
                    viol[key]['count'] += 1
                    # further input vectors with the same message: tried natively when the first one does not reproduce
                    if 'inputs' in v and len(viol[key]['alt_inputs']) < 12 and v['inputs'] != viol[key].get('inputs') and v['inputs'] not in viol[key]['alt_inputs']:
                        viol[key]['alt_inputs'].append(v['inputs'])
            if r['status'] == 'ok' and 'inputs' in r and not r.get('violations') and len(samples) < 4000:
                samples.append({'inputs': r['inputs'], 'obs': r.get('obs', [])})
    # NOTE: steps/queries are per-process counters that include the prefix inherited at fork time; we report
    # them as upper bounds of distinct work ("steps_sum"), plus the exact number of paths.
    bad = [k for k in st if k not in ('ok', 'assume_false', 'panic', 'violation', 'infeasible')]
    return {
        'harness': harness, 'paths': npaths, 'status_counts': dict(st), 'steps_sum': steps, 'queries_sum': queries,
        'solver_s_sum': round(solver_s, 3), 'max_fork_depth': maxdepth, 'violations': list(viol.values()),
        'covers': dict(covers), 'inconclusive': sorted(details.items(), key=lambda x: -x[1])[:10], 'complete': not bad and npaths > 0,
        'samples': samples, 'wall_s': round(wall, 2),
    }


def main():
    ap = argparse.ArgumentParser()
    ap.add_argument('--mir', required=True)
    ap.add_argument('--repo', required=True)
    ap.add_argument('--harness', required=True)
    ap.add_argument('--out', required=True)
    ap.add_argument('--procs', type=int, default=8)
    ap.add_argument('--timeout', type=int, default=300)
    ap.add_argument('--max-steps', type=int, default=2_000_000)
    ap.add_argument('--known', default='')
    ap.add_argument('--concrete', default=None, help='comma separated input vector: run one concrete path')
    ap.add_argument('--msg-prefix', default=None, help='assertions whose message does not start with this prefix belong to a sibling property: recorded, not fatal')
    ap.add_argument('--export-smt', default=None, help='tag: also write shape, path condition and observations of every completed path')
    a = ap.parse_args()
    conc = [int(x) for x in a.concrete.split(',')] if a.concrete not in (None, '') else ([] if a.concrete == '' else None)
    s = explore(a.mir, a.repo, a.harness, a.out, a.procs, a.timeout, a.max_steps,
                [k for k in a.known.split(',') if k], conc, export_smt=a.export_smt, msg_prefix=a.msg_prefix)
    nsamp = len(s['samples'])
    with open(os.path.join(a.out, a.harness + '.summary.json'), 'w') as f:
        json.dump(s, f)
    s2 = dict(s)
    s2['samples'] = s['samples'][:2]
    s2['n_samples'] = nsamp
    print(json.dumps(s2, indent=1))


if __name__ == '__main__':
    main()
