"""std models, part 2: Option / Result / Try, iterators, HashMap / HashSet, ranges, sorting."""
import re
import z3
from .values import *
from .interp_api import PathEnd, Unmodelled, wrap
from .models import (model, REGISTRY, deref, deref1, some, none, ok, err, ordering, as_slice, items_of, bytes_eq,
                     concrete_bytes, default_like)
from .models_std import (clone_value, values_eq, values_cmp, sym_lt, sym_le, sym_eq, sym_not, sym_and, sym_or,
                         conc_index, decode_utf8_at, in_range, seq_eq)


def opt(v):
    v = deref1(v)
    if type(v) is not Adt or v.name not in ('Option', 'Result'):
        raise Unmodelled('expected Option/Result, got %r' % (v,))
    return v


# ============================================================ Option / Result

@model('Option::is_some', 'Result::is_ok')
def is_some(I, args, callee):
    return opt(args[0]).variant in ('Some', 'Ok')


@model('Option::is_none', 'Result::is_err')
def is_none(I, args, callee):
    return opt(args[0]).variant in ('None', 'Err')


@model('Option::is_some_and', 'Result::is_ok_and')
def is_some_and(I, args, callee):
    o = args[0]
    if o.variant in ('Some', 'Ok'):
        return I.call_value(args[1], [o.fields[0]])
    return False


@model('Option::is_none_or')
def is_none_or(I, args, callee):
    o = args[0]
    if o.variant == 'Some':
        return I.call_value(args[1], [o.fields[0]])
    return True


@model('Option::unwrap', 'Result::unwrap', 'Option::expect', 'Result::expect', 'Option::unwrap_unchecked', 'Result::unwrap_unchecked')
def unwrap(I, args, callee):
    o = args[0]
    if o.variant in ('Some', 'Ok'):
        return o.fields[0]
    what = callee.split('::<')[0]
    I.report('panic', 'called `%s` on a `%s` value' % (what, o.variant))
    raise PathEnd('panic', '%s on %s' % (what, o.variant))


@model('Result::unwrap_err', 'Result::expect_err')
def unwrap_err(I, args, callee):
    o = args[0]
    if o.variant == 'Err':
        return o.fields[0]
    I.report('panic', 'unwrap_err on Ok')
    raise PathEnd('panic', 'unwrap_err on Ok')


@model('Option::unwrap_or', 'Result::unwrap_or')
def unwrap_or(I, args, callee):
    o = args[0]
    return o.fields[0] if o.variant in ('Some', 'Ok') else args[1]


@model('Option::unwrap_or_default', 'Result::unwrap_or_default')
def unwrap_or_default(I, args, callee):
    o = args[0]
    if o.variant in ('Some', 'Ok'):
        return o.fields[0]
    m = re.search(r'(?:Option|Result)::<([^,>]+)', callee)
    t = m.group(1).strip() if m else ''
    if t in INT_TYPES:
        return 0
    if t == 'bool':
        return False
    if t == 'String':
        return StringV([])
    if t.startswith('Vec'):
        return VecV([])
    raise Unmodelled('unwrap_or_default for ' + t)


@model('Option::unwrap_or_else', 'Result::unwrap_or_else')
def unwrap_or_else(I, args, callee):
    o = args[0]
    if o.variant in ('Some', 'Ok'):
        return o.fields[0]
    return I.call_value(args[1], [] if o.variant == 'None' else [o.fields[0]])


@model('Option::map', 'Result::map')
def opt_map(I, args, callee):
    o = args[0]
    if o.variant in ('Some', 'Ok'):
        return Adt(o.name, o.variant, [I.call_value(args[1], [o.fields[0]])])
    return o


@model('Result::map_err')
def map_err(I, args, callee):
    o = args[0]
    if o.variant == 'Err':
        return err(I.call_value(args[1], [o.fields[0]]))
    return o


@model('Option::map_or', 'Result::map_or')
def map_or(I, args, callee):
    o = args[0]
    if o.variant in ('Some', 'Ok'):
        return I.call_value(args[2], [o.fields[0]])
    return args[1]


@model('Option::map_or_else', 'Result::map_or_else')
def map_or_else(I, args, callee):
    o = args[0]
    if o.variant in ('Some', 'Ok'):
        return I.call_value(args[2], [o.fields[0]])
    return I.call_value(args[1], [] if o.variant == 'None' else [o.fields[0]])


@model('Option::and_then', 'Result::and_then')
def and_then(I, args, callee):
    o = args[0]
    if o.variant in ('Some', 'Ok'):
        return I.call_value(args[1], [o.fields[0]])
    return o


@model('Option::or_else', 'Result::or_else')
def or_else(I, args, callee):
    o = args[0]
    if o.variant in ('Some', 'Ok'):
        return o
    return I.call_value(args[1], [] if o.variant == 'None' else [o.fields[0]])


@model('Option::or')
def opt_or(I, args, callee):
    return args[0] if args[0].variant == 'Some' else args[1]


@model('Option::and')
def opt_and(I, args, callee):
    return args[1] if args[0].variant == 'Some' else args[0]


@model('Option::filter')
def opt_filter(I, args, callee):
    o = args[0]
    if o.variant == 'Some' and I.decide(I.call_value(args[1], [Ref(o.fields, 0)])):
        return o
    return none()


@model('Option::ok_or')
def ok_or(I, args, callee):
    o = args[0]
    return ok(o.fields[0]) if o.variant == 'Some' else err(args[1])


@model('Option::ok_or_else')
def ok_or_else(I, args, callee):
    o = args[0]
    return ok(o.fields[0]) if o.variant == 'Some' else err(I.call_value(args[1], []))


@model('Result::ok')
def res_ok(I, args, callee):
    o = args[0]
    return some(o.fields[0]) if o.variant == 'Ok' else none()


@model('Result::err')
def res_err(I, args, callee):
    o = args[0]
    return some(o.fields[0]) if o.variant == 'Err' else none()


@model('Option::as_ref', 'Option::as_mut', 'Result::as_ref', 'Result::as_mut')
def opt_as_ref(I, args, callee):
    r = args[0]
    o = opt(r)
    if o.variant in ('Some', 'Ok', 'Err'):
        return Adt(o.name, o.variant, [Ref(o.fields, 0)])
    return Adt(o.name, o.variant, [])


@model('Option::as_deref', 'Option::as_deref_mut', 'Result::as_deref', 'Result::as_deref_mut')
def opt_as_deref(I, args, callee):
    o = opt(args[0])
    if o.variant == 'Err':
        return err(Ref(o.fields, 0))
    if o.variant == 'Ok':
        v = o.fields[0]
        if type(v) is BoxV:
            return ok(Ref(v.fields, 0))
        return ok(as_slice(v))
    if o.variant == 'Some':
        v = o.fields[0]
        if type(v) is BoxV:
            return some(Ref(v.fields, 0))
        return some(as_slice(v))
    return none()


@model('Option::take')
def opt_take(I, args, callee):
    r = args[0]
    o = r.get()
    r.set(none())
    return o


@model('Option::replace')
def opt_replace(I, args, callee):
    r = args[0]
    o = r.get()
    r.set(some(args[1]))
    return o


@model('Option::insert', 'Option::get_or_insert')
def opt_insert(I, args, callee):
    r = args[0]
    o = r.get()
    if 'get_or_insert' in callee and o.variant == 'Some':
        return Ref(o.fields, 0)
    n = some(args[1])
    r.set(n)
    return Ref(n.fields, 0)


@model('Option::get_or_insert_with')
def opt_get_or_insert_with(I, args, callee):
    r = args[0]
    o = r.get()
    if o.variant == 'Some':
        return Ref(o.fields, 0)
    n = some(I.call_value(args[1], []))
    r.set(n)
    return Ref(n.fields, 0)


@model('Option::cloned', 'Option::copied', 'Result::cloned', 'Result::copied')
def opt_cloned(I, args, callee):
    o = args[0]
    if o.variant in ('Some', 'Ok'):
        return Adt(o.name, o.variant, [clone_value(I, deref1(o.fields[0]))])
    return o


@model('Option::zip')
def opt_zip(I, args, callee):
    a, b = args
    if a.variant == 'Some' and b.variant == 'Some':
        return some(Tup([a.fields[0], b.fields[0]]))
    return none()


@model('Option::xor')
def opt_xor(I, args, callee):
    a, b = args
    if a.variant == 'Some' and b.variant == 'None':
        return a
    if a.variant == 'None' and b.variant == 'Some':
        return b
    return none()


@model('Option::flatten')
def opt_flatten(I, args, callee):
    a = args[0]
    return a.fields[0] if a.variant == 'Some' else a


@model('Option::iter', 'Option::into_iter', '<Option as IntoIterator>::into_iter', 'Option::iter_mut')
def opt_iter(I, args, callee):
    o = opt(args[0])
    if o.variant == 'Some':
        it = [Ref(o.fields, 0)] if type(args[0]) is Ref else [o.fields[0]]
    else:
        it = []
    return IterV('list', items=it, pos=0)


@model('<Result as Try>::branch', '<Option as Try>::branch', 'Try::branch')
def try_branch(I, args, callee):
    o = args[0]
    if o.variant in ('Ok', 'Some'):
        return Adt('ControlFlow', 'Continue', [o.fields[0]])
    return Adt('ControlFlow', 'Break', [Adt(o.name, o.variant, list(o.fields))])


@model('<Result as FromResidual>::from_residual', '<Option as FromResidual>::from_residual', 'FromResidual::from_residual')
def from_residual(I, args, callee):
    r = args[0]
    if r.name == 'Result' and r.variant == 'Err':
        e = r.fields[0]
        # error conversion via From: only crate impls matter
        m = re.match(r'^<Result<.*, ([\w:]+)> as FromResidual<Result<Infallible, ([\w:]+)>>>', callee.replace('std::convert::', '').replace('specification::', ''))
        if m and m.group(1).split('::')[-1] != m.group(2).split('::')[-1]:
            tgt, srct = m.group(1).split('::')[-1], m.group(2).split('::')[-1]
            c = I.traitimpl.get(('From', tgt, 'from'))
            if c:
                name = c[0][0]
                for cand in c:
                    if srct in (cand[1] or ''):
                        name = cand[0]
                e = I.exec_body(I.prog.get(name), name, [e])
            else:
                raise Unmodelled('From<%s> for %s' % (srct, tgt))
        return err(e)
    return Adt(r.name, r.variant, list(r.fields))


# ============================================================ ranges

@model('<Range as Iterator>::next', '<RangeInclusive as Iterator>::next')
def range_next(I, args, callee):
    r = deref(args[0])
    incl = r.name == 'RangeInclusive'
    a, b = r.fields[0], r.fields[1]
    if incl:
        if len(r.fields) > 2 and r.fields[2] is True:
            return none()
        if not I.decide(sym_le(I, a, b)):
            return none()
        if I.decide(sym_eq(I, a, b)):
            if len(r.fields) > 2:
                r.fields[2] = True
            else:
                r.fields.append(True)
            return some(a)
    else:
        if not I.decide(sym_lt(I, a, b)):
            return none()
    r.fields[0] = (a + 1) if type(a) is not Sym else Sym(a.e + 1)
    return some(a)


@model('RangeInclusive::new')
def range_incl_new(I, args, callee):
    return Adt('RangeInclusive', None, [args[0], args[1], False])


@model('<Range as Iterator>::rev', '<RangeInclusive as Iterator>::rev')
def range_rev(I, args, callee):
    r = args[0]
    a = conc_index(I, r.fields[0], 'range start')
    b = conc_index(I, r.fields[1], 'range end')
    if r.name == 'RangeInclusive':
        b += 1
    return IterV('list', items=list(range(a, b))[::-1], pos=0)


@model('Range::contains', 'RangeInclusive::contains')
def range_contains(I, args, callee):
    r = deref(args[0])
    x = deref1(args[1])
    signed = bool(re.search(r'::<i\d+', callee))
    lo = sym_le(I, r.fields[0], x, signed)
    hi = sym_le(I, x, r.fields[1], signed) if r.name == 'RangeInclusive' else sym_lt(I, x, r.fields[1], signed)
    return sym_and(lo, hi)


@model('Range::is_empty')
def range_is_empty(I, args, callee):
    r = deref(args[0])
    return sym_not(sym_lt(I, r.fields[0], r.fields[1]))


@model('Range::len', 'ExactSizeIterator::len')
def range_len(I, args, callee):
    r = deref(args[0])
    if type(r) is IterV:
        return len(iter_collect(I, r, consume=False))
    a, b = r.fields[0], r.fields[1]
    if I.decide(sym_lt(I, a, b)):
        return I.binop('Sub', b, a, 'usize')
    return 0


# ============================================================ iterators
# IterV kinds: 'list' (items,pos) ; adaptors keep a source IterV and python state. All pull through iter_next().

def make_iter(I, v, by_ref=None):
    """IntoIterator::into_iter on a value"""
    v0 = v
    if type(v) is IterV:
        return v
    if type(v) is Adt and v.name in ('Range', 'RangeInclusive'):
        return v
    if type(v) is Ref or type(v) is SliceRef:
        tgt = v.get() if type(v) is Ref else v
        if type(tgt) is Ref:
            return make_iter(I, tgt)
        if type(tgt) is SliceRef:
            e = tgt.arr.elems
            return IterV('list', items=[Ref(e, tgt.start + i) for i in range(tgt.length)], pos=0)
        if isinstance(tgt, Arr):
            e = tgt.elems
            return IterV('list', items=[Ref(e, i) for i in range(len(e))], pos=0)
        if type(tgt) is MapV:
            if tgt.is_set:
                return IterV('list', items=[Ref(en, 0) for en in tgt.entries], pos=0)
            return IterV('list', items=[Tup([Ref(en, 0), Ref(en, 1)]) for en in tgt.entries], pos=0)
        if type(tgt) is Adt and tgt.name == 'Option':
            return opt_iter(I, [v], 'iter')
        if type(tgt) is Adt:
            c = I.traitimpl.get(('IntoIterator', tgt.name, 'into_iter'))
            if c:
                name = I.pick_impl(c, '&mut X' if by_ref == 'mut' else '&X', 'IntoIterator')
                return make_iter(I, I.exec_body(I.prog.get(name), name, [v]))
        raise Unmodelled('into_iter on &%r' % (tgt,))
    if isinstance(v, Arr):
        return IterV('list', items=list(v.elems), pos=0)
    if type(v) is MapV:
        if v.is_set:
            return IterV('list', items=[en[0] for en in v.entries], pos=0)
        return IterV('list', items=[Tup([en[0], en[1]]) for en in v.entries], pos=0)
    if type(v) is Adt and v.name == 'Option':
        return opt_iter(I, [v], 'into_iter')
    if type(v) is Adt:
        c = I.traitimpl.get(('IntoIterator', v.name, 'into_iter'))
        if c:
            name = I.pick_impl(c, 'X', 'IntoIterator')
            return make_iter(I, I.exec_body(I.prog.get(name), name, [v]))
    raise Unmodelled('into_iter on %r' % (v0,))


@model('IntoIterator::into_iter', '<T as IntoIterator>::into_iter', '<I as IntoIterator>::into_iter')
def into_iter(I, args, callee):
    q = I.parse_qualified(callee)
    by_ref = None
    if q and q[0].strip().startswith('&'):
        by_ref = 'mut' if re.match(r"^&\s*('\w+\s+)?mut\b", q[0].strip()) else 'ref'
    return make_iter(I, args[0], by_ref)


@model('[]::iter', 'Vec::iter', '[]::iter_mut', 'Vec::iter_mut', 'VecDeque::iter', 'HashMap::iter', 'HashSet::iter',
       'HashMap::iter_mut', 'BTreeMap::iter', 'BTreeSet::iter')
def seq_iter(I, args, callee):
    a = args[0]
    if type(a) is not Ref and type(a) is not SliceRef:
        a = Ref([a], 0)
    return make_iter(I, a)


@model('Vec::into_iter', 'Vec::drain', 'HashMap::into_iter', 'HashSet::into_iter', 'HashMap::drain', 'HashSet::drain')
def vec_into_iter(I, args, callee):
    v = args[0]
    if 'drain' in callee:
        tgt = deref(v)
        if type(tgt) is MapV:
            it = make_iter(I, tgt)
            tgt.entries = []
            return it
        if len(args) > 1:
            from .models_std import range_bounds
            st, en = range_bounds(I, args[1], len(tgt.elems))
            a, b = conc_index(I, st), conc_index(I, en)
            if a > b or b > len(tgt.elems):
                raise PathEnd('panic', 'drain range out of bounds')
            items = tgt.elems[a:b]
            del tgt.elems[a:b]
        else:
            items = list(tgt.elems)
            del tgt.elems[:]
        return IterV('list', items=items, pos=0)
    return make_iter(I, v)


@model('HashMap::keys', 'BTreeMap::keys', 'HashMap::into_keys')
def map_keys(I, args, callee):
    m = deref(args[0])
    if 'into_keys' in callee:
        return IterV('list', items=[en[0] for en in m.entries], pos=0)
    return IterV('list', items=[Ref(en, 0) for en in m.entries], pos=0)


@model('HashMap::values', 'HashMap::values_mut', 'BTreeMap::values', 'HashMap::into_values')
def map_values(I, args, callee):
    m = deref(args[0])
    if 'into_values' in callee:
        return IterV('list', items=[en[1] for en in m.entries], pos=0)
    return IterV('list', items=[Ref(en, 1) for en in m.entries], pos=0)


@model('str::chars')
def str_chars(I, args, callee):
    s = as_slice(args[0])
    return IterV('chars', items=s.items(), pos=0, end=s.length)


@model('str::char_indices')
def str_char_indices(I, args, callee):
    s = as_slice(args[0])
    return IterV('char_indices', items=s.items(), pos=0, end=s.length)


@model('str::bytes')
def str_bytes(I, args, callee):
    return IterV('list', items=list(items_of(args[0])), pos=0)


@model('str::lines')
def str_lines(I, args, callee):
    s = as_slice(args[0])
    items = s.items()
    out = []
    start = 0
    n = len(items)
    i = 0
    while i < n:
        if I.decide(sym_eq(I, items[i], 10, 8)):
            end = i
            if end > start and I.decide(sym_eq(I, items[end - 1], 13, 8)):
                end -= 1
            out.append(SliceRef(s.arr, s.start + start, end - start, True))
            start = i + 1
        i += 1
    if start < n:
        end = n
        out.append(SliceRef(s.arr, s.start + start, end - start, True))
    return IterV('list', items=out, pos=0)


def split_generic(I, s, pat_kind, pat, pred=None, keep_empty=True, limit=None):
    items = s.items()
    out = []
    start = 0
    i = 0
    n = len(items)
    from .models_std import match_at
    while i < n:
        if limit is not None and len(out) >= limit - 1:
            break
        c, w = match_at(I, items, i, pat_kind, pat)
        if w and I.decide(c):
            out.append(SliceRef(s.arr, s.start + start, i - start, True))
            i += w
            start = i
        else:
            cc, w2 = decode_utf8_at(I, items, i)
            i += w2
    out.append(SliceRef(s.arr, s.start + start, n - start, True))
    return out


@model('str::split', 'str::splitn', 'str::split_terminator')
def str_split(I, args, callee):
    from .models_std import pattern_items
    s = as_slice(args[0])
    if 'splitn' in callee:
        kind, pat = pattern_items(I, args[2])
        parts = split_generic(I, s, kind, pat, limit=conc_index(I, args[1]))
    else:
        kind, pat = pattern_items(I, args[1])
        parts = split_generic(I, s, kind, pat)
        if 'terminator' in callee and parts and parts[-1].length == 0:
            parts.pop()
    return IterV('list', items=parts, pos=0)


@model('str::split_whitespace', 'str::split_ascii_whitespace')
def str_split_ws(I, args, callee):
    from .models_std import ws_cond
    s = as_slice(args[0])
    items = s.items()
    out = []
    i = 0
    n = len(items)
    start = None
    while i < n:
        c, w = decode_utf8_at(I, items, i)
        if I.decide(ws_cond(I, c)):
            if start is not None:
                out.append(SliceRef(s.arr, s.start + start, i - start, True))
                start = None
        elif start is None:
            start = i
        i += w
    if start is not None:
        out.append(SliceRef(s.arr, s.start + start, n - start, True))
    return IterV('list', items=out, pos=0)


@model('str::split_once')
def str_split_once(I, args, callee):
    from .models_std import pattern_items, match_at
    s = as_slice(args[0])
    items = s.items()
    kind, pat = pattern_items(I, args[1])
    i = 0
    while i < len(items):
        c, w = match_at(I, items, i, kind, pat)
        if w and I.decide(c):
            return some(Tup([SliceRef(s.arr, s.start, i, True), SliceRef(s.arr, s.start + i + w, s.length - i - w, True)]))
        cc, w2 = decode_utf8_at(I, items, i)
        i += w2
    return none()


def iter_next(I, it):
    """pull one element: returns (True, value) or (False, None)"""
    if type(it) is Ref:
        it = it.get()
    if type(it) is Adt and it.name in ('Range', 'RangeInclusive'):
        r = range_next(I, [Ref([it], 0)], 'Range')
        return (True, r.fields[0]) if r.variant == 'Some' else (False, None)
    if type(it) is not IterV:
        # crate-defined iterator
        if type(it) is Adt:
            c = I.traitimpl.get(('Iterator', it.name, 'next'))
            if c:
                r = I.exec_body(I.prog.get(c[0][0]), c[0][0], [Ref([it], 0)])
                return (True, r.fields[0]) if r.variant == 'Some' else (False, None)
        raise Unmodelled('iterate over %r' % (it,))
    k = it.kind
    st = it.st
    if k == 'list':
        if st['pos'] >= len(st['items']):
            return False, None
        v = st['items'][st['pos']]
        st['pos'] += 1
        return True, v
    if k == 'chars' or k == 'char_indices':
        if st['pos'] >= st['end']:
            return False, None
        p = st['pos']
        c, w = decode_utf8_at(I, st['items'], p)
        st['pos'] += w
        return True, (c if k == 'chars' else Tup([p, c]))
    if k == 'map':
        okk, v = iter_next(I, st['src'])
        if not okk:
            return False, None
        return True, I.call_value(st['f'], [v])
    if k == 'filter':
        while True:
            okk, v = iter_next(I, st['src'])
            if not okk:
                return False, None
            if I.decide(I.call_value(st['f'], [Ref([v], 0)])):
                return True, v
    if k == 'filter_map':
        while True:
            okk, v = iter_next(I, st['src'])
            if not okk:
                return False, None
            r = I.call_value(st['f'], [v])
            if r.variant == 'Some':
                return True, r.fields[0]
    if k == 'enumerate':
        okk, v = iter_next(I, st['src'])
        if not okk:
            return False, None
        i = st['n']
        st['n'] += 1
        return True, Tup([i, v])
    if k == 'zip':
        ok1, a = iter_next(I, st['a'])
        if not ok1:
            return False, None
        ok2, b = iter_next(I, st['b'])
        if not ok2:
            return False, None
        return True, Tup([a, b])
    if k == 'chain':
        if not st['first_done']:
            okk, v = iter_next(I, st['a'])
            if okk:
                return True, v
            st['first_done'] = True
        return iter_next(I, st['b'])
    if k == 'peekable':
        if st['peeked'] is not None:
            p = st['peeked']
            st['peeked'] = None
            return p
        return iter_next(I, st['src'])
    if k == 'skip':
        while st['n'] > 0:
            st['n'] -= 1
            okk, v = iter_next(I, st['src'])
            if not okk:
                return False, None
        return iter_next(I, st['src'])
    if k == 'take':
        if st['n'] <= 0:
            return False, None
        st['n'] -= 1
        return iter_next(I, st['src'])
    if k == 'take_while':
        if st['done']:
            return False, None
        okk, v = iter_next(I, st['src'])
        if not okk:
            return False, None
        if I.decide(I.call_value(st['f'], [Ref([v], 0)])):
            return True, v
        st['done'] = True
        return False, None
    if k == 'skip_while':
        while not st['done']:
            okk, v = iter_next(I, st['src'])
            if not okk:
                return False, None
            if not I.decide(I.call_value(st['f'], [Ref([v], 0)])):
                st['done'] = True
                return True, v
        return iter_next(I, st['src'])
    if k == 'cloned':
        okk, v = iter_next(I, st['src'])
        if not okk:
            return False, None
        return True, clone_value(I, deref1(v))
    if k == 'flat_map':
        while True:
            if st['cur'] is not None:
                okk, v = iter_next(I, st['cur'])
                if okk:
                    return True, v
                st['cur'] = None
            okk, v = iter_next(I, st['src'])
            if not okk:
                return False, None
            r = I.call_value(st['f'], [v]) if st['f'] is not None else v
            st['cur'] = make_iter(I, r)
    if k == 'inspect':
        okk, v = iter_next(I, st['src'])
        if okk:
            I.call_value(st['f'], [Ref([v], 0)])
        return okk, v
    if k == 'step_by':
        okk, v = iter_next(I, st['src'])
        if not okk:
            return False, None
        for _ in range(st['n'] - 1):
            o2, _v = iter_next(I, st['src'])
            if not o2:
                break
        return True, v
    raise Unmodelled('iterator kind ' + k)


def iter_collect(I, it, consume=True):
    if not consume:
        import copy
        it = copy.deepcopy(it)
    out = []
    while True:
        okk, v = iter_next(I, it)
        if not okk:
            return out
        out.append(v)
        if len(out) > 100000:
            raise PathEnd('inconclusive', 'iterator longer than 100000')


@model('Iterator::next', '<I as Iterator>::next')
def m_iter_next(I, args, callee):
    okk, v = iter_next(I, args[0])
    return some(v) if okk else none()


def _adaptor(kind, **extra):
    def f(I, args, callee):
        st = dict(extra)
        st['src'] = args[0] if type(args[0]) is not Ref else args[0]
        if len(args) > 1:
            st['f'] = args[1]
        return IterV(kind, **st)
    f.__name__ = 'iter_' + kind
    return f


REGISTRY['Iterator::map'] = _adaptor('map')
REGISTRY['Iterator::filter'] = _adaptor('filter')
REGISTRY['Iterator::filter_map'] = _adaptor('filter_map')
REGISTRY['Iterator::inspect'] = _adaptor('inspect')
REGISTRY['Iterator::flat_map'] = _adaptor('flat_map', cur=None)
REGISTRY['Iterator::take_while'] = _adaptor('take_while', done=False)
REGISTRY['Iterator::skip_while'] = _adaptor('skip_while', done=False)
REGISTRY['Iterator::map_while'] = None
del REGISTRY['Iterator::map_while']


@model('Iterator::flatten')
def iter_flatten(I, args, callee):
    return IterV('flat_map', src=args[0], f=None, cur=None)


@model('Iterator::enumerate')
def iter_enumerate(I, args, callee):
    return IterV('enumerate', src=args[0], n=0)


@model('Iterator::zip')
def iter_zip(I, args, callee):
    return IterV('zip', a=args[0], b=make_iter(I, args[1]))


@model('Iterator::chain')
def iter_chain(I, args, callee):
    return IterV('chain', a=args[0], b=make_iter(I, args[1]), first_done=False)


@model('Iterator::peekable')
def iter_peekable(I, args, callee):
    return IterV('peekable', src=args[0], peeked=None)


@model('Peekable::peek', 'Peekable::peek_mut')
def peekable_peek(I, args, callee):
    it = deref(args[0])
    st = it.st
    if st['peeked'] is None:
        st['peeked'] = iter_next(I, st['src'])
    okk, v = st['peeked']
    if not okk:
        return none()
    cell = st.setdefault('cell', [None])
    cell[0] = v
    return some(Ref(cell, 0))


@model('Peekable::next_if', 'Peekable::next_if_eq')
def peekable_next_if(I, args, callee):
    it = deref(args[0])
    st = it.st
    if st['peeked'] is None:
        st['peeked'] = iter_next(I, st['src'])
    okk, v = st['peeked']
    if not okk:
        return none()
    if 'next_if_eq' in callee:
        c = values_eq(I, v, args[1])
    else:
        c = I.call_value(args[1], [Ref([v], 0)])
    if I.decide(c):
        st['peeked'] = None
        return some(v)
    return none()


@model('Iterator::skip')
def iter_skip(I, args, callee):
    return IterV('skip', src=args[0], n=conc_index(I, args[1], 'skip count'))


@model('Iterator::take')
def iter_take(I, args, callee):
    return IterV('take', src=args[0], n=conc_index(I, args[1], 'take count'))


@model('Iterator::step_by')
def iter_step_by(I, args, callee):
    return IterV('step_by', src=args[0], n=conc_index(I, args[1], 'step'))


@model('Iterator::cloned', 'Iterator::copied')
def iter_cloned(I, args, callee):
    return IterV('cloned', src=args[0])


@model('Iterator::rev')
def iter_rev(I, args, callee):
    items = iter_collect(I, args[0])
    return IterV('list', items=items[::-1], pos=0)


@model('Iterator::collect', 'Iterator::collect_into')
def iter_collect_m(I, args, callee):
    items = iter_collect(I, args[0])
    m = re.search(r'collect::<(.*)>$', callee.strip())
    tgt = m.group(1).strip() if m else ''
    return build_collection(I, tgt, items, callee)


def build_collection(I, tgt, items, callee):
    from .srcinfo import type_head
    h = type_head(tgt) if tgt else 'Vec'
    if h == 'Vec' or h == 'VecDeque' or h == 'Box':
        return VecV(items)
    if h == 'String':
        out = []
        from .models_std import encode_utf8
        for x in items:
            x = deref1(x) if type(x) is Ref else x
            if isinstance(x, int) or type(x) is Sym:
                out.extend(encode_utf8(I, x))
            else:
                out.extend(items_of(x))
        return StringV(out)
    if h in ('HashSet', 'BTreeSet'):
        mm = MapV(True)
        for x in items:
            map_insert_raw(I, mm, x, None)
        return mm
    if h in ('HashMap', 'BTreeMap'):
        mm = MapV(False)
        for x in items:
            map_insert_raw(I, mm, x.fields[0], x.fields[1])
        return mm
    if h == 'Result' or h == 'Option':
        inner = re.match(r'^(?:\w+::)*(?:Result|Option)<(.*)>$', tgt, re.S)
        from .mir import split_top
        it = split_top(inner.group(1))[0] if inner else 'Vec<_>'
        okv = []
        for x in items:
            if x.variant in ('Err', 'None'):
                return x
            okv.append(x.fields[0])
        return Adt(h, 'Ok' if h == 'Result' else 'Some', [build_collection(I, it, okv, callee)])
    c = I.traitimpl.get(('FromIterator', h, 'from_iter'))
    if c:
        return I.exec_body(I.prog.get(c[0][0]), c[0][0], [IterV('list', items=items, pos=0)])
    raise Unmodelled('collect into ' + tgt)


@model('FromIterator::from_iter', '<Vec as FromIterator>::from_iter', '<String as FromIterator>::from_iter',
       '<HashSet as FromIterator>::from_iter', '<HashMap as FromIterator>::from_iter')
def from_iter(I, args, callee):
    q = I.parse_qualified(callee)
    items = iter_collect(I, make_iter(I, args[0]))
    return build_collection(I, q[0] if q else 'Vec', items, callee)


@model('Vec::extend', '<Vec as Extend>::extend', 'Extend::extend', '<String as Extend>::extend', 'String::extend',
       '<HashSet as Extend>::extend', '<HashMap as Extend>::extend', 'HashSet::extend', 'HashMap::extend', 'VecDeque::extend')
def m_extend(I, args, callee):
    tgt = deref(args[0])
    items = iter_collect(I, make_iter(I, args[1]))
    if type(tgt) is StringV:
        tgt.elems.extend(build_collection(I, 'String', items, callee).elems)
    elif type(tgt) is VecV:
        tgt.elems.extend(deref1(x) if False else x for x in items)
    elif type(tgt) is MapV:
        for x in items:
            if tgt.is_set:
                map_insert_raw(I, tgt, x, None)
            else:
                map_insert_raw(I, tgt, x.fields[0], x.fields[1])
    elif type(tgt) is Adt:
        c = I.traitimpl.get(('Extend', tgt.name, 'extend'))
        if c:
            return I.exec_body(I.prog.get(c[0][0]), c[0][0], [args[0], IterV('list', items=items, pos=0)])
        raise Unmodelled('extend on ' + tgt.name)
    else:
        raise Unmodelled('extend on %r' % (tgt,))
    return unit()


@model('Iterator::count')
def iter_count(I, args, callee):
    return len(iter_collect(I, args[0]))


@model('Iterator::last')
def iter_last(I, args, callee):
    items = iter_collect(I, args[0])
    return some(items[-1]) if items else none()


@model('Iterator::nth')
def iter_nth(I, args, callee):
    n = conc_index(I, args[1], 'nth')
    for _ in range(n):
        okk, v = iter_next(I, args[0])
        if not okk:
            return none()
    okk, v = iter_next(I, args[0])
    return some(v) if okk else none()


@model('Iterator::any')
def iter_any(I, args, callee):
    while True:
        okk, v = iter_next(I, args[0])
        if not okk:
            return False
        if I.decide(I.call_value(args[1], [v])):
            return True


@model('Iterator::all')
def iter_all(I, args, callee):
    while True:
        okk, v = iter_next(I, args[0])
        if not okk:
            return True
        if not I.decide(I.call_value(args[1], [v])):
            return False


@model('Iterator::find')
def iter_find(I, args, callee):
    while True:
        okk, v = iter_next(I, args[0])
        if not okk:
            return none()
        if I.decide(I.call_value(args[1], [Ref([v], 0)])):
            return some(v)


@model('Iterator::find_map')
def iter_find_map(I, args, callee):
    while True:
        okk, v = iter_next(I, args[0])
        if not okk:
            return none()
        r = I.call_value(args[1], [v])
        if r.variant == 'Some':
            return r


@model('Iterator::position')
def iter_position(I, args, callee):
    i = 0
    while True:
        okk, v = iter_next(I, args[0])
        if not okk:
            return none()
        if I.decide(I.call_value(args[1], [v])):
            return some(i)
        i += 1


@model('Iterator::rposition')
def iter_rposition(I, args, callee):
    items = iter_collect(I, args[0])
    for i in range(len(items) - 1, -1, -1):
        if I.decide(I.call_value(args[1], [items[i]])):
            return some(i)
    return none()


@model('Iterator::for_each')
def iter_for_each(I, args, callee):
    while True:
        okk, v = iter_next(I, args[0])
        if not okk:
            return unit()
        I.call_value(args[1], [v])


@model('Iterator::fold')
def iter_fold(I, args, callee):
    acc = args[1]
    while True:
        okk, v = iter_next(I, args[0])
        if not okk:
            return acc
        acc = I.call_value(args[2], [acc, v])


@model('Iterator::sum', 'Iterator::product')
def iter_sum(I, args, callee):
    m = re.search(r'::<(\w+)>$', callee)
    ty = m.group(1) if m else 'usize'
    acc = 0 if 'sum' in callee else 1
    while True:
        okk, v = iter_next(I, args[0])
        if not okk:
            return acc
        res = I.binop('AddWithOverflow' if 'sum' in callee else 'MulWithOverflow', acc, deref1(v), ty)
        if I.decide(res.fields[1]):
            I.report('panic', 'attempt to add with overflow (Iterator::sum)')
            raise PathEnd('panic', 'sum overflow')
        acc = res.fields[0]


@model('Iterator::max', 'Iterator::min', 'Iterator::max_by_key', 'Iterator::min_by_key', 'Iterator::max_by', 'Iterator::min_by')
def iter_minmax(I, args, callee):
    items = iter_collect(I, args[0])
    if not items:
        return none()
    is_max = '::max' in callee
    best = items[0]
    keyf = args[1] if 'by_key' in callee else None
    cmpf = args[1] if callee.rstrip('>').split('::<')[0].endswith('_by') else None
    bk = I.call_value(keyf, [Ref([best], 0)]) if keyf else best
    for x in items[1:]:
        xk = I.call_value(keyf, [Ref([x], 0)]) if keyf else x
        if cmpf:
            o = I.call_value(cmpf, [Ref([best], 0), Ref([x], 0)])
            c = {'Less': -1, 'Equal': 0, 'Greater': 1}[o.variant]
        else:
            c = values_cmp(I, bk, xk)
        if (is_max and c <= 0) or (not is_max and c > 0):
            best, bk = x, xk
    return some(best)


@model('Iterator::size_hint')
def iter_size_hint(I, args, callee):
    return Tup([0, none()])


@model('Iterator::eq')
def iter_eq(I, args, callee):
    a = iter_collect(I, make_iter(I, args[0]))
    b = iter_collect(I, make_iter(I, args[1]))
    return seq_eq(I, a, b)


@model('Iterator::unzip')
def iter_unzip(I, args, callee):
    items = iter_collect(I, args[0])
    return Tup([VecV([x.fields[0] for x in items]), VecV([x.fields[1] for x in items])])


@model('Iterator::partition')
def iter_partition(I, args, callee):
    items = iter_collect(I, args[0])
    a, b = [], []
    for x in items:
        (a if I.decide(I.call_value(args[1], [Ref([x], 0)])) else b).append(x)
    return Tup([VecV(a), VecV(b)])


@model('DoubleEndedIterator::next_back', 'Iterator::next_back')
def iter_next_back(I, args, callee):
    it = deref(args[0])
    if type(it) is IterV and it.kind == 'list':
        if it.st['pos'] >= len(it.st['items']):
            return none()
        return some(it.st['items'].pop())
    if type(it) is IterV and it.kind == 'chars':
        st = it.st
        if st['pos'] >= st['end']:
            return none()
        k = st['end'] - 1
        while k > st['pos'] and I.decide(in_range(I, st['items'][k], 0x80, 0xBF)):
            k -= 1
        c, w = decode_utf8_at(I, st['items'], k)
        st['end'] = k
        return some(c)
    raise Unmodelled('next_back on %r' % (it,))


@model('Chars::as_str')
def chars_as_str(I, args, callee):
    it = deref(args[0])
    raise Unmodelled('Chars::as_str')


# ============================================================ sorting

def insertion_sort(I, elems, lt):
    """stable insertion sort driven by a (possibly forking) less-than callback"""
    for i in range(1, len(elems)):
        j = i
        while j > 0 and lt(elems[j], elems[j - 1]):
            elems[j], elems[j - 1] = elems[j - 1], elems[j]
            j -= 1


def _sort_window(args):
    s = as_slice(args[0])
    return s, s.arr.elems[s.start:s.start + s.length]


@model('[]::sort_by', 'Vec::sort_by', '[]::sort_unstable_by', 'Vec::sort_unstable_by')
def sort_by(I, args, callee):
    s, w = _sort_window(args)
    f = args[1]

    def lt(a, b):
        o = I.call_value(f, [Ref([a], 0), Ref([b], 0)])
        return o.variant == 'Less'
    insertion_sort(I, w, lt)
    if 'unstable' in callee and len(w) > 20:
        # an unstable sort may permute elements that compare Equal. std's implementation is an insertion sort (stable
        # in effect) up to 20 elements; above that the model makes the demonic choice "every run of equal elements is
        # reversed", so code that relies on stability fails here and the native replay decides whether it is real
        i = 0
        while i < len(w):
            j = i + 1
            while j < len(w) and I.call_value(f, [Ref([w[j - 1]], 0), Ref([w[j]], 0)]).variant == 'Equal':
                j += 1
            w[i:j] = w[i:j][::-1]
            i = j
    s.arr.elems[s.start:s.start + s.length] = w
    return unit()


@model('[]::sort_by_key', 'Vec::sort_by_key', '[]::sort_unstable_by_key', '[]::sort_by_cached_key')
def sort_by_key(I, args, callee):
    s, w = _sort_window(args)
    f = args[1]
    keys = {id(x): I.call_value(f, [Ref([x], 0)]) for x in w}

    def lt(a, b):
        return values_cmp(I, keys[id(a)], keys[id(b)]) < 0
    insertion_sort(I, w, lt)
    s.arr.elems[s.start:s.start + s.length] = w
    return unit()


@model('[]::sort', 'Vec::sort', '[]::sort_unstable', 'Vec::sort_unstable')
def sort_plain(I, args, callee):
    s, w = _sort_window(args)
    insertion_sort(I, w, lambda a, b: values_cmp(I, a, b) < 0)
    s.arr.elems[s.start:s.start + s.length] = w
    return unit()


@model('Vec::dedup', 'Vec::dedup_by_key', 'Vec::dedup_by')
def vec_dedup(I, args, callee):
    v = deref(args[0])
    out = []
    for x in v.elems:
        if out:
            if 'by_key' in callee:
                c = values_eq(I, I.call_value(args[1], [Ref([x], 0)]), I.call_value(args[1], [Ref([out[-1]], 0)]))
            elif 'dedup_by' in callee:
                c = I.call_value(args[1], [Ref([x], 0), Ref([out[-1]], 0)])
            else:
                c = values_eq(I, x, out[-1])
            if I.decide(c):
                continue
        out.append(x)
    v.elems[:] = out
    return unit()


@model('[]::binary_search', '[]::binary_search_by', '[]::binary_search_by_key', 'Vec::binary_search', 'Vec::binary_search_by', 'Vec::binary_search_by_key')
def binary_search(I, args, callee):
    """std's branch-free binary search, step by step (faithful also on unsorted input)"""
    items = items_of(args[0])

    def cmp_at(i):
        x = items[i]
        if 'by_key' in callee:
            return values_cmp(I, I.call_value(args[2], [Ref([x], 0)]), args[1])
        if '_by' in callee:
            return {'Less': -1, 'Equal': 0, 'Greater': 1}[I.call_value(args[1], [Ref([x], 0)]).variant]
        return values_cmp(I, x, args[1])
    size = len(items)
    if size == 0:
        return err(0)
    base = 0
    while size > 1:
        half = size // 2
        mid = base + half
        c = cmp_at(mid)
        base = base if c > 0 else mid
        size -= half
    c = cmp_at(base)
    if c == 0:
        return ok(base)
    return err(base + (1 if c < 0 else 0))


@model('[]::iter().position')
def _unused(I, args, callee):
    raise Unmodelled('unused')


@model('[]::chunks', '[]::chunks_exact', '[]::windows')
def slice_chunks(I, args, callee):
    s = as_slice(args[0])
    n = conc_index(I, args[1], 'chunk size')
    if n == 0:
        raise PathEnd('panic', 'chunk size must be non-zero')
    out = []
    if 'windows' in callee:
        for i in range(0, s.length - n + 1):
            out.append(SliceRef(s.arr, s.start + i, n, s.is_str))
    else:
        i = 0
        while i < s.length:
            ln = min(n, s.length - i)
            if ln < n and 'exact' in callee:
                break
            out.append(SliceRef(s.arr, s.start + i, ln, s.is_str))
            i += n
    return IterV('list', items=out, pos=0)


# ============================================================ HashMap / HashSet (association list, insertion order)

def key_eq(I, a, b):
    return values_eq(I, a, b)


def map_find(I, m, key):
    for en in m.entries:
        if I.decide(key_eq(I, en[0], key)):
            return en
    return None


def map_insert_raw(I, m, k, v):
    en = map_find(I, m, k)
    if en is not None:
        old = en[1]
        en[1] = v
        return old, True
    m.entries.append([k, v])
    return None, False


@model('HashMap::new', 'HashMap::with_capacity', '<HashMap as Default>::default', 'HashMap::with_hasher',
       'HashMap::with_capacity_and_hasher', 'BTreeMap::new', '<BTreeMap as Default>::default')
def map_new(I, args, callee):
    return MapV(False)


@model('HashSet::new', 'HashSet::with_capacity', '<HashSet as Default>::default', 'HashSet::with_hasher', 'BTreeSet::new',
       '<BTreeSet as Default>::default', 'HashSet::with_capacity_and_hasher')
def set_new(I, args, callee):
    return MapV(True)


@model('HashMap::insert', 'BTreeMap::insert')
def map_insert(I, args, callee):
    old, had = map_insert_raw(I, deref(args[0]), args[1], args[2])
    return some(old) if had else none()


@model('HashSet::insert', 'BTreeSet::insert')
def set_insert(I, args, callee):
    m = deref(args[0])
    en = map_find(I, m, args[1])
    if en is not None:
        return False
    m.entries.append([args[1], None])
    return True


@model('HashMap::get', 'HashMap::get_mut', 'BTreeMap::get', 'BTreeMap::get_mut')
def map_get(I, args, callee):
    en = map_find(I, deref(args[0]), args[1])
    if en is None:
        return none()
    return some(Ref(en, 1))


@model('HashSet::get')
def set_get(I, args, callee):
    en = map_find(I, deref(args[0]), args[1])
    if en is None:
        return none()
    return some(Ref(en, 0))


@model('HashMap::get_key_value')
def map_get_kv(I, args, callee):
    en = map_find(I, deref(args[0]), args[1])
    if en is None:
        return none()
    return some(Tup([Ref(en, 0), Ref(en, 1)]))


@model('HashMap::contains_key', 'HashSet::contains', 'BTreeMap::contains_key', 'BTreeSet::contains')
def map_contains(I, args, callee):
    return map_find(I, deref(args[0]), args[1]) is not None


@model('HashMap::remove', 'BTreeMap::remove')
def map_remove(I, args, callee):
    m = deref(args[0])
    en = map_find(I, m, args[1])
    if en is None:
        return none()
    m.entries.remove(en)
    return some(en[1])


@model('HashMap::remove_entry')
def map_remove_entry(I, args, callee):
    m = deref(args[0])
    en = map_find(I, m, args[1])
    if en is None:
        return none()
    m.entries.remove(en)
    return some(Tup([en[0], en[1]]))


@model('HashSet::remove', 'BTreeSet::remove')
def set_remove(I, args, callee):
    m = deref(args[0])
    en = map_find(I, m, args[1])
    if en is None:
        return False
    m.entries.remove(en)
    return True


@model('HashSet::take')
def set_take(I, args, callee):
    m = deref(args[0])
    en = map_find(I, m, args[1])
    if en is None:
        return none()
    m.entries.remove(en)
    return some(en[0])


@model('HashMap::len', 'HashSet::len', 'BTreeMap::len', 'BTreeSet::len')
def map_len(I, args, callee):
    return len(deref(args[0]).entries)


@model('HashMap::is_empty', 'HashSet::is_empty', 'BTreeMap::is_empty', 'BTreeSet::is_empty')
def map_is_empty(I, args, callee):
    return len(deref(args[0]).entries) == 0


@model('HashMap::clear', 'HashSet::clear', 'BTreeMap::clear')
def map_clear(I, args, callee):
    deref(args[0]).entries = []
    return unit()


@model('HashMap::reserve', 'HashSet::reserve', 'HashMap::shrink_to_fit')
def map_reserve(I, args, callee):
    return unit()


@model('HashMap::retain', 'HashSet::retain')
def map_retain(I, args, callee):
    m = deref(args[0])
    keep = []
    for en in m.entries:
        if m.is_set:
            r = I.call_value(args[1], [Ref(en, 0)])
        else:
            r = I.call_value(args[1], [Ref(en, 0), Ref(en, 1)])
        if I.decide(r):
            keep.append(en)
    m.entries = keep
    return unit()


@model('HashMap::entry')
def map_entry(I, args, callee):
    m = deref(args[0])
    en = map_find(I, m, args[1])
    return Adt('Entry', 'Occupied' if en is not None else 'Vacant', [m, args[1], en])


@model('Entry::or_insert', 'Entry::or_insert_with', 'Entry::or_default', 'Entry::or_insert_with_key')
def entry_or_insert(I, args, callee):
    e = args[0]
    m, k, en = e.fields
    if en is None:
        if 'or_insert_with' in callee:
            v = I.call_value(args[1], [])
        elif 'or_default' in callee:
            mm = re.search(r'Entry::<[^,]*, [^,]*, (.*)>::or_default', callee)
            t = mm.group(1) if mm else ''
            v = VecV([]) if 'Vec' in callee else (StringV([]) if 'String>' in callee.split(',')[-1] else 0)
            if 'Vec<' in callee.rsplit(',', 1)[-1]:
                v = VecV([])
        else:
            v = args[1]
        en = [k, v]
        m.entries.append(en)
    return Ref(en, 1)


@model('Entry::and_modify')
def entry_and_modify(I, args, callee):
    e = args[0]
    m, k, en = e.fields
    if en is not None:
        I.call_value(args[1], [Ref(en, 1)])
    return e


@model('<HashMap as Index>::index', '<BTreeMap as Index>::index')
def map_index(I, args, callee):
    en = map_find(I, deref(args[0]), args[1])
    if en is None:
        I.report('panic', 'HashMap index: key not found')
        raise PathEnd('panic', 'HashMap index: key not found')
    return Ref(en, 1)


@model('HashSet::is_subset', 'HashSet::is_superset', 'HashSet::is_disjoint')
def set_rel(I, args, callee):
    a, b = deref(args[0]), deref(args[1])
    if 'superset' in callee:
        a, b = b, a
    if 'disjoint' in callee:
        for en in a.entries:
            if map_find(I, b, en[0]) is not None:
                return False
        return True
    for en in a.entries:
        if map_find(I, b, en[0]) is None:
            return False
    return True


@model('HashSet::difference', 'HashSet::intersection', 'HashSet::union', 'HashSet::symmetric_difference')
def set_ops(I, args, callee):
    a, b = deref(args[0]), deref(args[1])
    out = []
    if 'difference' in callee and 'symmetric' not in callee:
        out = [Ref(en, 0) for en in a.entries if map_find(I, b, en[0]) is None]
    elif 'intersection' in callee:
        out = [Ref(en, 0) for en in a.entries if map_find(I, b, en[0]) is not None]
    elif 'union' in callee:
        out = [Ref(en, 0) for en in a.entries] + [Ref(en, 0) for en in b.entries if map_find(I, a, en[0]) is None]
    else:
        out = [Ref(en, 0) for en in a.entries if map_find(I, b, en[0]) is None] + \
              [Ref(en, 0) for en in b.entries if map_find(I, a, en[0]) is None]
    return IterV('list', items=out, pos=0)


# ============================================================ closures through the Fn* traits, Default

@model('FnMut::call_mut', 'Fn::call', 'FnOnce::call_once', '<F as FnMut>::call_mut', '<F as Fn>::call', '<F as FnOnce>::call_once')
def fn_trait_call(I, args, callee):
    tup = args[1]
    f = args[0]
    g = f
    while type(g) is Ref:
        g = g.get()
    if g is UNINIT:
        # zero-sized closure / fn item: the local is never written in MIR; recover the callee from the Self type
        q = I.parse_qualified(callee)
        st = re.sub(r"^&\s*('\w+\s+)?(mut\s+)?", '', q[0].strip()) if q else ''
        if st.startswith('{closure@'):
            f = Adt(st, None, [])
        elif st.startswith('fn(') or '{' in st:
            m = re.search(r'\{(.*)\}$', st)
            f = FnRef(m.group(1)) if m else f
    return I.call_value(f, list(tup.fields))


@model('Default::default', '<T as Default>::default')
def default_default(I, args, callee):
    from .srcinfo import type_head
    q = I.parse_qualified(callee)
    t = q[0].strip() if q else ''
    h = type_head(t)
    if h in INT_TYPES:
        return 0
    if h == 'bool':
        return False
    if h in ('f32', 'f64'):
        return 0.0
    if h == 'String':
        return StringV([])
    if h in ('Vec', 'VecDeque'):
        return VecV([])
    if h in ('HashMap', 'BTreeMap'):
        return MapV(False)
    if h in ('HashSet', 'BTreeSet'):
        return MapV(True)
    if h == 'Option':
        return none()
    if h in ('BuildHasherDefault', 'RandomState', 'PhantomData', 'FnvHasher'):
        return Opaque(h)
    if h == '()':
        return unit()
    raise Unmodelled('Default::default for ' + t)


@model('iter::repeat', 'repeat')
def iter_repeat(I, args, callee):
    return IterV('repeat', v=args[0])


_old_iter_next = iter_next


def iter_next(I, it):  # noqa: F811  (extends the dispatcher with the infinite `repeat` source)
    it0 = it.get() if type(it) is Ref else it
    if type(it0) is IterV and it0.kind == 'repeat':
        return True, clone_value(I, it0.st['v'])
    return _old_iter_next(I, it)


# ============================================================ additional models (added to widen what a changed tree may call)

@model('bool::then')
def bool_then(I, args, callee):
    return some(I.call_value(args[1], [])) if I.decide(args[0]) else none()


@model('bool::then_some')
def bool_then_some(I, args, callee):
    return some(args[1]) if I.decide(args[0]) else none()


@model('TryFrom::try_from', 'TryInto::try_into', '<T as TryFrom>::try_from', '<T as TryInto>::try_into')
def try_from_int(I, args, callee):
    q = I.parse_qualified(callee)
    if q and q[1]:
        st = q[0].strip()
        m = re.search(r'(?:TryFrom|TryInto)<([^<>]*)>', q[1])
        ot = m.group(1).strip() if m else None
        if ot:
            src, dst = (ot, st) if 'TryFrom' in q[1] else (st, ot)
            if src in INT_TYPES and dst in INT_TYPES:
                v = args[0]
                db, ds = INT_TYPES[dst]
                sb, ss = INT_TYPES[src]
                lo = -(1 << (db - 1)) if ds else 0
                hi = (1 << (db - 1)) - 1 if ds else (1 << db) - 1
                if type(v) is not Sym:
                    return ok(v) if lo <= v <= hi else err(Opaque('TryFromIntError'))
                W = max(sb, db) + 1
                e = z3.SignExt(W - sb, v.e) if ss else z3.ZeroExt(W - sb, v.e)
                fits = z3.And(e >= z3.BitVecVal(lo, W), e <= z3.BitVecVal(hi, W))
                if I.decide(Sym(fits)):
                    return ok(I.cast(v, src, dst, 'IntToInt'))
                return err(Opaque('TryFromIntError'))
    raise Unmodelled('TryFrom ' + callee)


@model('Vec::split_off')
def vec_split_off(I, args, callee):
    v = deref(args[0])
    at = conc_index(I, args[1], 'split_off index')
    if at > len(v.elems):
        raise PathEnd('panic', 'split_off: at > len')
    tail = v.elems[at:]
    del v.elems[at:]
    return VecV(tail)


@model('Vec::resize')
def vec_resize(I, args, callee):
    v = deref(args[0])
    n = conc_index(I, args[1], 'resize length')
    while len(v.elems) > n:
        v.elems.pop()
    while len(v.elems) < n:
        v.elems.append(clone_value(I, args[2]))
    return unit()


@model('String::retain')
def string_retain(I, args, callee):
    s = deref(args[0])
    out = []
    i = 0
    while i < len(s.elems):
        c, w = decode_utf8_at(I, s.elems, i)
        if I.decide(I.call_value(args[1], [c])):
            out.extend(s.elems[i:i + w])
        i += w
    s.elems[:] = out
    return unit()


@model('String::drain', 'String::replace_range', 'String::split_off')
def string_ranges(I, args, callee):
    from .models_std import range_bounds
    s = deref(args[0])
    if 'split_off' in callee:
        at = conc_index(I, args[1])
        tail = s.elems[at:]
        del s.elems[at:]
        return StringV(tail)
    st, en = range_bounds(I, args[1], len(s.elems))
    a, b = conc_index(I, st), conc_index(I, en)
    if a > b or b > len(s.elems):
        raise PathEnd('panic', 'String range out of bounds')
    removed = s.elems[a:b]
    if 'replace_range' in callee:
        s.elems[a:b] = list(items_of(args[2]))
        return unit()
    del s.elems[a:b]
    return IterV('chars', items=removed, pos=0, end=len(removed))


@model('str::split_at')
def str_split_at(I, args, callee):
    s = as_slice(args[0])
    m = conc_index(I, args[1])
    if m > s.length:
        raise PathEnd('panic', 'str::split_at: mid > len')
    from .models_std import check_char_boundary
    check_char_boundary(I, s, m, 'str::split_at')
    return Tup([SliceRef(s.arr, s.start, m, True), SliceRef(s.arr, s.start + m, s.length - m, True)])


@model('str::rsplit', 'str::rsplitn', 'str::rsplit_once')
def str_rsplit(I, args, callee):
    from .models_std import pattern_items
    s = as_slice(args[0])
    if 'rsplitn' in callee:
        kind, pat = pattern_items(I, args[2])
        parts = split_generic(I, s, kind, pat)
        n = conc_index(I, args[1])
        if n and len(parts) > n:
            head = parts[:len(parts) - n + 1]
            first = SliceRef(s.arr, head[0].start, head[-1].start + head[-1].length - head[0].start, True)
            parts = [first] + parts[len(parts) - n + 1:]
        return IterV('list', items=parts[::-1], pos=0)
    kind, pat = pattern_items(I, args[1])
    parts = split_generic(I, s, kind, pat)
    if 'rsplit_once' in callee:
        if len(parts) < 2:
            return none()
        last = parts[-1]
        first = SliceRef(s.arr, s.start, parts[-2].start + parts[-2].length - s.start, True)
        return some(Tup([first, last]))
    return IterV('list', items=parts[::-1], pos=0)


@model('str::matches', 'str::match_indices')
def str_matches(I, args, callee):
    from .models_std import pattern_items, match_at
    s = as_slice(args[0])
    items = s.items()
    kind, pat = pattern_items(I, args[1])
    out = []
    i = 0
    while i < len(items):
        c, w = match_at(I, items, i, kind, pat)
        if w and I.decide(c):
            sl = SliceRef(s.arr, s.start + i, w, True)
            out.append(Tup([i, sl]) if 'indices' in callee else sl)
            i += w
        else:
            cc, w2 = decode_utf8_at(I, items, i)
            i += w2
    return IterV('list', items=out, pos=0)


@model('char::is_control', 'char::is_ascii_control')
def char_is_control(I, args, callee):
    c = deref1(args[0])
    return sym_or(in_range(I, c, 0, 0x1F), in_range(I, c, 0x7F, 0x9F if 'ascii' not in callee else 0x7F))


@model('char::is_uppercase', 'char::is_lowercase')
def char_is_case(I, args, callee):
    c = deref1(args[0])
    if type(c) is not Sym:
        return chr(c).isupper() if 'upper' in callee else chr(c).islower()
    if not I.decide(Sym(z3.ULT(c.e, z3.BitVecVal(0x80, c.e.size())))):
        raise Unmodelled('unicode case class of symbolic non-ASCII char')
    return in_range(I, c, 0x41, 0x5A) if 'upper' in callee else in_range(I, c, 0x61, 0x7A)


@model('int::checked_div', 'int::checked_rem', 'int::wrapping_div', 'int::wrapping_rem')
def int_checked_div(I, args, callee):
    from .models_std import _int_ty_from_callee
    ty = _int_ty_from_callee(callee)
    a, b = args
    if I.decide(sym_eq(I, b, 0, INT_TYPES[ty][0])):
        if 'checked' in callee:
            return none()
        raise PathEnd('panic', 'division by zero')
    r = I.binop('Div' if 'div' in callee else 'Rem', a, b, ty)
    return some(r) if 'checked' in callee else r


@model('int::swap_bytes', 'int::to_be', 'int::from_be', 'int::to_le', 'int::from_le')
def int_swap_bytes(I, args, callee):
    from .models_std import _int_ty_from_callee
    ty = _int_ty_from_callee(callee)
    bits, signed = INT_TYPES[ty]
    v = args[0]
    if callee.rstrip('>').endswith(('to_le', 'from_le')):
        return v
    n = bits // 8
    if type(v) is Sym:
        return Sym(z3.Concat(*[z3.Extract(8 * i + 7, 8 * i, v.e) for i in range(n)])) if n > 1 else v
    u = v & ((1 << bits) - 1)
    r = int.from_bytes(u.to_bytes(n, 'little'), 'big')
    return wrap(r, bits, signed)


@model('Iterator::try_for_each', 'Iterator::try_fold')
def iter_try(I, args, callee):
    if 'try_fold' in callee:
        acc = args[1]
        f = args[2]
    else:
        acc = unit()
        f = args[1]
    while True:
        okk, v = iter_next(I, args[0])
        if not okk:
            return ok(acc) if True else acc
        r = I.call_value(f, [acc, v] if 'try_fold' in callee else [v])
        if type(r) is Adt and r.variant in ('Err', 'None', 'Break'):
            return r
        if type(r) is Adt and r.variant in ('Ok', 'Some', 'Continue'):
            acc = r.fields[0] if r.fields else unit()


@model('Option::inspect', 'Result::inspect', 'Result::inspect_err')
def opt_inspect(I, args, callee):
    o = args[0]
    want = 'Err' if 'inspect_err' in callee else ('Some' if o.name == 'Option' else 'Ok')
    if o.variant == want:
        I.call_value(args[1], [Ref(o.fields, 0)])
    return o


@model('Option::unzip')
def opt_unzip(I, args, callee):
    o = args[0]
    if o.variant == 'Some':
        return Tup([some(o.fields[0].fields[0]), some(o.fields[0].fields[1])])
    return Tup([none(), none()])


@model('Vec::concat', '[]::concat')
def vec_concat(I, args, callee):
    parts = items_of(args[0])
    out = []
    is_str = False
    for p in parts:
        s = as_slice(p)
        is_str = is_str or s.is_str
        out.extend(s.items())
    return StringV(out) if is_str else VecV(out)
