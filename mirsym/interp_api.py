"""exceptions and helpers shared by interp.py and models*.py"""


class PathEnd(Exception):
    def __init__(self, status, detail=''):
        Exception.__init__(self, status, detail)
        self.status = status
        self.detail = detail


class Unmodelled(Exception):
    pass


def wrap(v, bits, signed):
    v &= (1 << bits) - 1
    if signed and v >> (bits - 1):
        v -= 1 << bits
    return v
