"""std models, part 1: Vec / String / slices / str / Option / Result / Box / integer helpers."""
import math, re, struct
import z3
from .values import *
from .interp_api import PathEnd, Unmodelled, wrap
from .models import (model, REGISTRY, deref, deref1, some, none, ok, err, ordering, as_slice, items_of, bytes_eq,
                     concrete_bytes, default_like)


def conc_index(I, v, what='index'):
    return I.concretize(v, 64, what=what)


def _cmp_bits(a, b, bits):
    """width of a comparison: the width of the symbolic operand(s) wins over the default"""
    for v in (a, b):
        if type(v) is Sym and z3.is_bv(v.e):
            return v.e.size()
    return bits


def sym_lt(I, a, b, signed=False, bits=64):
    """a < b for possibly symbolic ints -> bool or Sym"""
    if type(a) is not Sym and type(b) is not Sym:
        return a < b
    bits = _cmp_bits(a, b, bits)
    x, y = I.to_bv(a, bits), I.to_bv(b, bits)
    return Sym((x < y) if signed else z3.ULT(x, y))


def sym_le(I, a, b, signed=False, bits=64):
    if type(a) is not Sym and type(b) is not Sym:
        return a <= b
    bits = _cmp_bits(a, b, bits)
    x, y = I.to_bv(a, bits), I.to_bv(b, bits)
    return Sym((x <= y) if signed else z3.ULE(x, y))


def sym_eq(I, a, b, bits=None):
    if type(a) is not Sym and type(b) is not Sym:
        return a == b
    if bits is None:
        bits = a.e.size() if type(a) is Sym else b.e.size()
    return Sym(I.to_bv(a, bits) == I.to_bv(b, bits))


def sym_and(*cs):
    out = []
    for c in cs:
        if c is False:
            return False
        if c is True:
            continue
        out.append(c.e)
    if not out:
        return True
    return Sym(z3.And(*out)) if len(out) > 1 else Sym(out[0])


def sym_or(*cs):
    out = []
    for c in cs:
        if c is True:
            return True
        if c is False:
            continue
        out.append(c.e)
    if not out:
        return False
    return Sym(z3.Or(*out)) if len(out) > 1 else Sym(out[0])


def sym_not(c):
    if type(c) is Sym:
        return Sym(z3.Not(c.e))
    return not c


def in_range(I, b, lo, hi):
    """lo <= b <= hi on a byte/char value"""
    if type(b) is not Sym:
        return lo <= b <= hi
    bits = b.e.size()
    return Sym(z3.And(z3.UGE(b.e, z3.BitVecVal(lo, bits)), z3.ULE(b.e, z3.BitVecVal(hi, bits))))


# ============================================================ Vec

@model('Vec::new', 'Vec::with_capacity', '<Vec as Default>::default', 'Vec::with_capacity_in', 'Vec::new_in')
def vec_new(I, args, callee):
    return VecV([])


@model('Vec::push', 'VecDeque::push_back')
def vec_push(I, args, callee):
    deref(args[0]).elems.append(args[1])
    return unit()


@model('Vec::pop', 'VecDeque::pop_back')
def vec_pop(I, args, callee):
    v = deref(args[0])
    if not v.elems:
        return none()
    return some(v.elems.pop())


@model('VecDeque::pop_front')
def vecdeque_pop_front(I, args, callee):
    v = deref(args[0])
    if not v.elems:
        return none()
    return some(v.elems.pop(0))


@model('VecDeque::new', 'VecDeque::with_capacity', '<VecDeque as Default>::default')
def vecdeque_new(I, args, callee):
    return VecV([])


@model('Vec::len', '[]::len', 'str::len', 'String::len', 'VecDeque::len')
def seq_len(I, args, callee):
    return as_slice(args[0]).length


@model('Vec::is_empty', '[]::is_empty', 'str::is_empty', 'String::is_empty', 'VecDeque::is_empty')
def seq_is_empty(I, args, callee):
    return as_slice(args[0]).length == 0


@model('Vec::clear', 'String::clear')
def vec_clear(I, args, callee):
    del deref(args[0]).elems[:]
    return unit()


@model('Vec::truncate', 'String::truncate')
def vec_truncate(I, args, callee):
    v = deref(args[0])
    n = conc_index(I, args[1], 'truncate length')
    if n < len(v.elems):
        del v.elems[n:]
    return unit()


@model('Vec::capacity', 'String::capacity')
def vec_capacity(I, args, callee):
    return len(deref(args[0]).elems)


@model('Vec::reserve', 'String::reserve', 'Vec::shrink_to_fit', 'String::shrink_to_fit', 'Vec::reserve_exact')
def vec_reserve(I, args, callee):
    return unit()


@model('Vec::insert')
def vec_insert(I, args, callee):
    v = deref(args[0])
    i = conc_index(I, args[1])
    if i > len(v.elems):
        raise PathEnd('panic', 'Vec::insert index out of bounds')
    v.elems.insert(i, args[2])
    return unit()


@model('Vec::remove')
def vec_remove(I, args, callee):
    v = deref(args[0])
    i = conc_index(I, args[1])
    if i >= len(v.elems):
        raise PathEnd('panic', 'Vec::remove index (is %d) should be < len (is %d)' % (i, len(v.elems)))
    return v.elems.pop(i)


@model('Vec::swap_remove')
def vec_swap_remove(I, args, callee):
    v = deref(args[0])
    i = conc_index(I, args[1])
    n = len(v.elems)
    if i >= n:
        raise PathEnd('panic', 'swap_remove index (is %d) should be < len (is %d)' % (i, n))
    r = v.elems[i]
    last = v.elems.pop()
    if i < n - 1:
        v.elems[i] = last
    return r


@model('Vec::retain', 'Vec::retain_mut')
def vec_retain(I, args, callee):
    v = deref(args[0])
    f = args[1]
    keep = []
    elems = v.elems
    for i in range(len(elems)):
        r = I.call_value(f, [Ref(elems, i)])
        if I.decide(r):
            keep.append(elems[i])
    v.elems[:] = keep
    return unit()


@model('Vec::append')
def vec_append(I, args, callee):
    a, b = deref(args[0]), deref(args[1])
    a.elems.extend(b.elems)
    del b.elems[:]
    return unit()


@model('Vec::extend_from_slice')
def vec_extend_from_slice(I, args, callee):
    a = deref(args[0])
    a.elems.extend(clone_value(I, x) for x in items_of(args[1]))
    return unit()


@model('Vec::as_slice', '<Vec as Deref>::deref', '<Vec as DerefMut>::deref_mut', 'Vec::as_mut_slice', '<Vec as AsRef>::as_ref',
       '<Vec as Borrow>::borrow', '<String as Deref>::deref', 'String::as_str', 'String::as_bytes', 'str::as_bytes',
       '<String as AsRef>::as_ref', '<String as Borrow>::borrow', '<String as DerefMut>::deref_mut', 'String::as_mut_str',
       '<str as AsRef>::as_ref', '<[] as AsRef>::as_ref', 'str::as_ref', '<Cow as Deref>::deref', 'Vec::as_ref')
def seq_as_slice(I, args, callee):
    s = as_slice(args[0])
    if 'as_bytes' in callee:
        return SliceRef(s.arr, s.start, s.length, False)
    if 'String' in callee or 'str' in callee.replace('struct', ''):
        return SliceRef(s.arr, s.start, s.length, True)
    return s


@model('Vec::first', '[]::first')
def slice_first(I, args, callee):
    s = as_slice(args[0])
    if s.length == 0:
        return none()
    return some(Ref(s.arr.elems, s.start))


@model('Vec::last', '[]::last')
def slice_last(I, args, callee):
    s = as_slice(args[0])
    if s.length == 0:
        return none()
    return some(Ref(s.arr.elems, s.start + s.length - 1))


@model('[]::last_mut', 'Vec::last_mut')
def slice_last_mut(I, args, callee):
    return slice_last(I, args, callee)


@model('[]::first_mut', 'Vec::first_mut')
def slice_first_mut(I, args, callee):
    return slice_first(I, args, callee)


@model('[]::get', 'Vec::get', '[]::get_mut', 'Vec::get_mut')
def slice_get(I, args, callee):
    s = as_slice(args[0])
    idx = args[1]
    if type(idx) is Adt:   # range
        raise Unmodelled('slice::get with range')
    inb = sym_lt(I, idx, s.length)
    if I.decide(inb):
        i = conc_index(I, idx)
        return some(Ref(s.arr.elems, s.start + i))
    return none()


@model('[]::swap', 'Vec::swap')
def slice_swap(I, args, callee):
    s = as_slice(args[0])
    i, j = conc_index(I, args[1]), conc_index(I, args[2])
    if i >= s.length or j >= s.length:
        raise PathEnd('panic', 'slice::swap index out of bounds')
    e = s.arr.elems
    e[s.start + i], e[s.start + j] = e[s.start + j], e[s.start + i]
    return unit()


@model('[]::reverse')
def slice_reverse(I, args, callee):
    s = as_slice(args[0])
    e = s.arr.elems
    e[s.start:s.start + s.length] = e[s.start:s.start + s.length][::-1]
    return unit()


@model('[]::to_vec', '<[] as ToOwned>::to_owned', '[]::into_vec', 'Vec::from', '<Vec as From>::from', '[]::to_vec_in')
def slice_to_vec(I, args, callee):
    v = deref1(args[0])
    if type(v) is VecV:
        return v
    if type(v) is BoxV:
        inner = v.fields[0]
        return VecV(list(inner.elems))
    if type(v) is StringV:
        return VecV(list(v.elems))
    if type(v) is Arr:
        return VecV(list(v.elems))
    return VecV([clone_value(I, x) for x in items_of(args[0])])


@model('<Vec as Clone>::clone', '<VecDeque as Clone>::clone')
def vec_clone(I, args, callee):
    return VecV([clone_value(I, x) for x in deref(args[0]).elems])


@model('[]::contains', 'Vec::contains')
def slice_contains(I, args, callee):
    x = args[1]
    for it in items_of(args[0]):
        if I.decide(values_eq(I, it, deref1(x) if type(x) is Ref else x)):
            return True
    return False


@model('[]::starts_with')
def slice_starts_with(I, args, callee):
    a, b = items_of(args[0]), items_of(args[1])
    if len(b) > len(a):
        return False
    return seq_eq(I, a[:len(b)], b)


@model('[]::ends_with')
def slice_ends_with(I, args, callee):
    a, b = items_of(args[0]), items_of(args[1])
    if len(b) > len(a):
        return False
    return seq_eq(I, a[len(a) - len(b):], b)


@model('[]::join', '[]::concat')
def slice_join(I, args, callee):
    parts = items_of(args[0])
    sep = items_of(args[1]) if len(args) > 1 else []
    out = []
    for i, p in enumerate(parts):
        if i:
            out.extend(sep)
        out.extend(items_of(p))
    return StringV(out)


@model('[]::split_at')
def slice_split_at(I, args, callee):
    s = as_slice(args[0])
    m = conc_index(I, args[1])
    if m > s.length:
        raise PathEnd('panic', 'split_at: mid > len')
    return Tup([SliceRef(s.arr, s.start, m, s.is_str), SliceRef(s.arr, s.start + m, s.length - m, s.is_str)])


@model('[]::split_first')
def slice_split_first(I, args, callee):
    s = as_slice(args[0])
    if s.length == 0:
        return none()
    return some(Tup([Ref(s.arr.elems, s.start), SliceRef(s.arr, s.start + 1, s.length - 1)]))


@model('[]::copy_from_slice', '[]::clone_from_slice')
def slice_copy_from(I, args, callee):
    d, s = as_slice(args[0]), as_slice(args[1])
    if d.length != s.length:
        raise PathEnd('panic', 'copy_from_slice: length mismatch')
    for i in range(d.length):
        d.arr.elems[d.start + i] = s.arr.elems[s.start + i]
    return unit()


@model('[]::fill')
def slice_fill(I, args, callee):
    d = as_slice(args[0])
    for i in range(d.length):
        d.arr.elems[d.start + i] = args[1]
    return unit()


@model('from_elem', 'vec::from_elem')
def vec_from_elem(I, args, callee):
    n = conc_index(I, args[1], 'vec! length')
    return VecV([clone_value(I, args[0]) for _ in range(n)])


@model('Box::new', 'Box::pin')
def box_new(I, args, callee):
    return BoxV(args[0])


@model('<Box as Clone>::clone')
def box_clone(I, args, callee):
    return BoxV(clone_value(I, deref(args[0]).fields[0]))


@model('<Box as Deref>::deref', '<Box as DerefMut>::deref_mut', '<Box as AsRef>::as_ref', '<Box as Borrow>::borrow')
def box_deref(I, args, callee):
    return Ref(deref(args[0]).fields, 0)


@model('Box::new_uninit')
def box_new_uninit(I, args, callee):
    # mirrors the layout the `vec![..]` lowering pokes into: Box(Unique(NonNull(ptr)), alloc); *ptr = MaybeUninit{_, value}
    cell = [Adt('MaybeUninit', None, [unit(), Adt('ManuallyDrop', None, [Adt('MaybeDangling', None, [UNINIT])])])]
    return Adt('BoxUninit', None, [Adt('Unique', None, [Adt('NonNull', None, [Ref(cell, 0)])]), Opaque('Global')])


@model('box_assume_init_into_vec_unsafe', 'boxed::box_assume_init_into_vec_unsafe')
def box_into_vec(I, args, callee):
    b = args[0]
    if type(b) is Adt and b.name == 'BoxUninit':
        inner = b.fields[0].fields[0].fields[0].get().fields[1].fields[0].fields[0]
    else:
        inner = b.fields[0]
    if type(inner) is Adt and inner.name == 'MaybeUninit':
        inner = inner.fields[0]
    if type(inner) is Arr:
        return VecV(list(inner.elems))
    raise Unmodelled('box_assume_init_into_vec_unsafe on %r' % (b,))


@model('MaybeUninit::write', 'mem::MaybeUninit::write')
def maybeuninit_write(I, args, callee):
    r = args[0]
    r.set(args[1])
    return r


@model('MaybeUninit::uninit', 'MaybeUninit::new')
def maybeuninit_new(I, args, callee):
    return args[0] if args else UNINIT


@model('MaybeUninit::assume_init')
def maybeuninit_assume_init(I, args, callee):
    return args[0]


# ============================================================ cloning / equality (dynamic on value type)

def clone_value(I, v):
    t = type(v)
    if t is StringV:
        return StringV(list(v.elems))
    if t is VecV:
        return VecV([clone_value(I, x) for x in v.elems])
    if t is Arr:
        return Arr([clone_value(I, x) for x in v.elems])
    if t is BoxV:
        return BoxV(clone_value(I, v.fields[0]))
    if t is MapV:
        m = MapV(v.is_set)
        m.entries = [[clone_value(I, k), clone_value(I, x)] for k, x in v.entries]
        return m
    if t is Adt:
        if v.name in ('()', 'Option', 'Result', 'Cow', 'Ordering', 'Range', 'RangeInclusive') or v.name.startswith('{closure@'):
            return Adt(v.name, v.variant, [clone_value(I, x) for x in v.fields])
        c = I.traitimpl.get(('Clone', v.name, 'clone'))
        if c:
            return I.exec_body(I.prog.get(c[0][0]), c[0][0], [Ref([v], 0)])
        # Copy types
        return Adt(v.name, v.variant, [clone_value(I, x) for x in v.fields])
    return v


@model('Clone::clone', '<T as Clone>::clone', '<Option as Clone>::clone', '<Result as Clone>::clone', '<String as Clone>::clone',
       '<() as Clone>::clone', '<HashMap as Clone>::clone', '<HashSet as Clone>::clone', '<Cow as Clone>::clone',
       '<str as ToOwned>::to_owned', '<String as ToOwned>::to_owned', 'ToOwned::to_owned', '<T as ToOwned>::to_owned',
       '<BTreeMap as Clone>::clone', '<Range as Clone>::clone', '<int as Clone>::clone')
def m_clone(I, args, callee):
    v = deref1(args[0])
    if type(v) is SliceRef:
        if v.is_str or 'str' in callee:
            return StringV(list(v.items()))
        return VecV([clone_value(I, x) for x in v.items()])
    return clone_value(I, v)


def seq_eq(I, a, b):
    if len(a) != len(b):
        return False
    conds = []
    for x, y in zip(a, b):
        c = values_eq(I, x, y)
        if c is False:
            return False
        if c is not True:
            conds.append(c)
    return sym_and(*conds)


def values_eq(I, a, b):
    """structural equality -> bool or Sym; calls crate PartialEq impls for crate types"""
    while type(a) is Ref:
        a = a.get()
    while type(b) is Ref:
        b = b.get()
    ta, tb = type(a), type(b)
    if ta is Sym or tb is Sym:
        if (ta is Sym and z3.is_bool(a.e)) or (tb is Sym and z3.is_bool(b.e)):
            return Sym(I.to_boolz(a) == I.to_boolz(b))
        if (ta is Sym and z3.is_fp(a.e)) or (tb is Sym and z3.is_fp(b.e)):
            ty = 'f64'
            return Sym(z3.fpEQ(I.to_fp(a, ty), I.to_fp(b, ty)))
        return sym_eq(I, a, b)
    if a is True or a is False or isinstance(a, (int, float)):
        return a == b
    if ta is SliceRef or isinstance(a, Arr):
        if not (tb is SliceRef or isinstance(b, Arr)):
            return False
        return seq_eq(I, items_of(a), items_of(b))
    if ta is BoxV:
        return values_eq(I, a.fields[0], b.fields[0])
    if ta is MapV:
        if len(a.entries) != len(b.entries):
            return False
        conds = []
        for k, v in a.entries:
            found = None
            for k2, v2 in b.entries:
                if I.decide(values_eq(I, k, k2)):
                    found = v2
                    break
            else:
                return False
            if not a.is_set:
                c = values_eq(I, v, found)
                if c is False:
                    return False
                conds.append(c)
        return sym_and(*conds)
    if ta is Adt:
        if tb is not Adt or a.name != b.name:
            return False
        c = I.traitimpl.get(('PartialEq', a.name, 'eq'))
        if c:
            return I.exec_body(I.prog.get(c[0][0]), c[0][0], [Ref([a], 0), Ref([b], 0)])
        if a.variant != b.variant:
            return False
        return seq_eq(I, a.fields, b.fields)
    if ta is Opaque or ta is FnRef:
        return True
    raise Unmodelled('values_eq on %r / %r' % (a, b))


@model('PartialEq::eq', '<T as PartialEq>::eq')
def m_eq(I, args, callee):
    return values_eq(I, args[0], args[1])


@model('PartialEq::ne', '<T as PartialEq>::ne')
def m_ne(I, args, callee):
    return sym_not(values_eq(I, args[0], args[1]))


def values_cmp(I, a, b, signed=False, bits=64):
    """total order -> python int -1/0/1 (forks on symbolic comparisons)"""
    while type(a) is Ref:
        a = a.get()
    while type(b) is Ref:
        b = b.get()
    ta = type(a)
    if ta is SliceRef or isinstance(a, Arr):
        x, y = items_of(a), items_of(b)
        for p, q in zip(x, y):
            c = values_cmp(I, p, q, False, 8 if (type(p) is Sym and p.e.size() == 8) or (type(q) is Sym and q.e.size() == 8) else bits)
            if c:
                return c
        return (len(x) > len(y)) - (len(x) < len(y))
    if ta is Sym or type(b) is Sym:
        bits = a.e.size() if ta is Sym else b.e.size()
        if I.decide(sym_lt(I, a, b, signed, bits)):
            return -1
        if I.decide(sym_eq(I, a, b, bits)):
            return 0
        return 1
    if a is True or a is False or isinstance(a, (int, float)):
        return (a > b) - (a < b)
    if ta is Adt:
        if a.name == 'Option':
            if a.variant != b.variant:
                return -1 if a.variant == 'None' else 1
        elif a.variant != b.variant:
            return (I.discriminant_of(a) > I.discriminant_of(b)) - (I.discriminant_of(a) < I.discriminant_of(b))
        for p, q in zip(a.fields, b.fields):
            c = values_cmp(I, p, q, signed, bits)
            if c:
                return c
        return 0
    raise Unmodelled('values_cmp on %r / %r' % (a, b))


def _signed_from_callee(callee):
    m = re.search(r'<&*(i8|i16|i32|i64|isize|i128) as', callee)
    return m is not None


def _bits_from_callee(callee):
    m = re.search(r'<&*([iu])(8|16|32|64|128|size) as', callee)
    if m:
        return 64 if m.group(2) == 'size' else int(m.group(2))
    return 64


@model('Ord::cmp', '<T as Ord>::cmp')
def m_cmp(I, args, callee):
    return ordering(values_cmp(I, args[0], args[1], _signed_from_callee(callee), _bits_from_callee(callee)))


@model('PartialOrd::partial_cmp', '<T as PartialOrd>::partial_cmp')
def m_partial_cmp(I, args, callee):
    return some(ordering(values_cmp(I, args[0], args[1], _signed_from_callee(callee), _bits_from_callee(callee))))


@model('PartialOrd::lt')
def m_lt(I, args, callee):
    return values_cmp(I, args[0], args[1], _signed_from_callee(callee)) < 0


@model('PartialOrd::le')
def m_le(I, args, callee):
    return values_cmp(I, args[0], args[1], _signed_from_callee(callee)) <= 0


@model('PartialOrd::gt')
def m_gt(I, args, callee):
    return values_cmp(I, args[0], args[1], _signed_from_callee(callee)) > 0


@model('PartialOrd::ge')
def m_ge(I, args, callee):
    return values_cmp(I, args[0], args[1], _signed_from_callee(callee)) >= 0


@model('Ord::max', 'cmp::max', 'max')
def m_max(I, args, callee):
    return args[1] if values_cmp(I, args[0], args[1], _signed_from_callee(callee)) <= 0 else args[0]


@model('Ord::min', 'cmp::min', 'min')
def m_min(I, args, callee):
    return args[0] if values_cmp(I, args[0], args[1], _signed_from_callee(callee)) <= 0 else args[1]


@model('Ordering::then', 'Ordering::then_with')
def ordering_then(I, args, callee):
    a = args[0]
    if a.variant != 'Equal':
        return a
    if 'then_with' in callee:
        return I.call_value(args[1], [])
    return args[1]


@model('Ordering::reverse')
def ordering_reverse(I, args, callee):
    v = args[0].variant
    return Adt('Ordering', {'Less': 'Greater', 'Greater': 'Less', 'Equal': 'Equal'}[v], [])


@model('Ordering::is_eq')
def ordering_is_eq(I, args, callee):
    return args[0].variant == 'Equal'


@model('Ordering::is_ne')
def ordering_is_ne(I, args, callee):
    return args[0].variant != 'Equal'


@model('Ordering::is_lt')
def ordering_is_lt(I, args, callee):
    return args[0].variant == 'Less'


@model('Ordering::is_gt')
def ordering_is_gt(I, args, callee):
    return args[0].variant == 'Greater'


@model('Ordering::is_le')
def ordering_is_le(I, args, callee):
    return args[0].variant != 'Greater'


@model('Ordering::is_ge')
def ordering_is_ge(I, args, callee):
    return args[0].variant != 'Less'


# ============================================================ indexing

def range_bounds(I, r, n):
    """Range-like Adt -> (start, end) possibly symbolic"""
    nm = r.name
    if nm == 'Range':
        return r.fields[0], r.fields[1]
    if nm == 'RangeFrom':
        return r.fields[0], n
    if nm == 'RangeTo':
        return 0, r.fields[0]
    if nm == 'RangeFull':
        return 0, n
    if nm == 'RangeInclusive':
        e = r.fields[1]
        return r.fields[0], (e + 1 if type(e) is not Sym else Sym(e.e + 1))
    if nm == 'RangeToInclusive':
        e = r.fields[0]
        return 0, (e + 1 if type(e) is not Sym else Sym(e.e + 1))
    raise Unmodelled('range type ' + nm)


def check_char_boundary(I, s, pos, what):
    """panic unless pos is a char boundary of str slice s (pos concrete, 0<=pos<=len)"""
    if pos == 0 or pos == s.length:
        return
    b = s.arr.elems[s.start + pos]
    if type(b) is not Sym:
        if 0x80 <= b <= 0xBF:
            I.report('panic', what + ': byte index is not a char boundary')
            raise PathEnd('panic', what + ': not a char boundary')
        return
    bad = z3.And(z3.UGE(b.e, z3.BitVecVal(0x80, 8)), z3.ULE(b.e, z3.BitVecVal(0xBF, 8)))
    I.require(z3.Not(bad), 'panic', what + ': byte index is not a char boundary')


def do_index(I, seq, idx, what, mutable=False):
    s = as_slice(seq)
    if type(idx) is Adt and idx.name.startswith('Range'):
        st, en = range_bounds(I, idx, s.length)
        okc = sym_and(sym_le(I, st, en), sym_le(I, en, s.length))
        if okc is not True:
            if okc is False:
                I.report('panic', '%s: range out of bounds' % what)
                raise PathEnd('panic', '%s: range %r..%r out of bounds of %d' % (what, st, en, s.length))
            I.require(okc.e, 'panic', '%s: range can be out of bounds' % what)
        a = conc_index(I, st, 'range start')
        b = conc_index(I, en, 'range end')
        if s.is_str:
            check_char_boundary(I, s, a, what)
            check_char_boundary(I, s, b, what)
        return SliceRef(s.arr, s.start + a, b - a, s.is_str)
    okc = sym_lt(I, idx, s.length)
    if okc is not True:
        if okc is False:
            I.report('panic', '%s: index out of bounds' % what)
            raise PathEnd('panic', '%s: index %r out of bounds of %d' % (what, idx, s.length))
        I.require(okc.e, 'panic', '%s: index can be out of bounds' % what)
    i = conc_index(I, idx)
    return Ref(s.arr.elems, s.start + i)


@model('<Vec as Index>::index', '<[] as Index>::index', '<str as Index>::index', '<String as Index>::index',
       '<VecDeque as Index>::index')
def m_index(I, args, callee):
    return do_index(I, args[0], args[1], callee.split(' as ')[0].lstrip('<').split('<')[0] + ' index')


@model('<Vec as IndexMut>::index_mut', '<[] as IndexMut>::index_mut', '<str as IndexMut>::index_mut',
       '<String as IndexMut>::index_mut')
def m_index_mut(I, args, callee):
    return do_index(I, args[0], args[1], 'index_mut', True)


@model('str::get', 'str::get_mut')
def str_get(I, args, callee):
    s = as_slice(args[0])
    idx = args[1]
    st, en = range_bounds(I, idx, s.length)
    okc = sym_and(sym_le(I, st, en), sym_le(I, en, s.length))
    if not I.decide(okc):
        return none()
    a = conc_index(I, st)
    b = conc_index(I, en)
    for p in (a, b):
        if 0 < p < s.length:
            x = s.arr.elems[s.start + p]
            if I.decide(in_range(I, x, 0x80, 0xBF)):
                return none()
    return some(SliceRef(s.arr, s.start + a, b - a, True))


@model('str::is_char_boundary')
def str_is_char_boundary(I, args, callee):
    s = as_slice(args[0])
    p = args[1]
    if I.decide(sym_eq(I, p, 0, 64)) or I.decide(sym_eq(I, p, s.length, 64)):
        return True
    if not I.decide(sym_lt(I, p, s.length)):
        return False
    i = conc_index(I, p)
    return sym_not(in_range(I, s.arr.elems[s.start + i], 0x80, 0xBF))


# ============================================================ String

@model('String::new', 'String::with_capacity', '<String as Default>::default')
def string_new(I, args, callee):
    return StringV([])


def encode_utf8(I, c):
    """char (int or Sym BV32) -> list of bytes; forks on the encoded length for symbolic chars"""
    if type(c) is not Sym:
        return list(chr(c).encode('utf-8', 'surrogatepass'))
    e = c.e
    if I.decide(Sym(z3.ULT(e, z3.BitVecVal(0x80, 32)))):
        return [Sym(z3.Extract(7, 0, e))]
    if I.decide(Sym(z3.ULT(e, z3.BitVecVal(0x800, 32)))):
        return [Sym(z3.Extract(7, 0, z3.LShR(e, 6)) | z3.BitVecVal(0xC0, 8)),
                Sym((z3.Extract(7, 0, e) & z3.BitVecVal(0x3F, 8)) | z3.BitVecVal(0x80, 8))]
    if I.decide(Sym(z3.ULT(e, z3.BitVecVal(0x10000, 32)))):
        return [Sym(z3.Extract(7, 0, z3.LShR(e, 12)) | z3.BitVecVal(0xE0, 8)),
                Sym((z3.Extract(7, 0, z3.LShR(e, 6)) & z3.BitVecVal(0x3F, 8)) | z3.BitVecVal(0x80, 8)),
                Sym((z3.Extract(7, 0, e) & z3.BitVecVal(0x3F, 8)) | z3.BitVecVal(0x80, 8))]
    return [Sym(z3.Extract(7, 0, z3.LShR(e, 18)) | z3.BitVecVal(0xF0, 8)),
            Sym((z3.Extract(7, 0, z3.LShR(e, 12)) & z3.BitVecVal(0x3F, 8)) | z3.BitVecVal(0x80, 8)),
            Sym((z3.Extract(7, 0, z3.LShR(e, 6)) & z3.BitVecVal(0x3F, 8)) | z3.BitVecVal(0x80, 8)),
            Sym((z3.Extract(7, 0, e) & z3.BitVecVal(0x3F, 8)) | z3.BitVecVal(0x80, 8))]


def decode_utf8_at(I, items, pos):
    """decode one char of a *valid* UTF-8 sequence at pos -> (char value, width); forks on the lead byte class"""
    b0 = items[pos]
    if type(b0) is not Sym:
        if b0 < 0x80:
            return b0, 1
        w = 2 if b0 < 0xE0 else (3 if b0 < 0xF0 else 4)
    else:
        if I.decide(Sym(z3.ULT(b0.e, z3.BitVecVal(0x80, 8)))):
            return Sym(z3.ZeroExt(24, b0.e)), 1
        if I.decide(Sym(z3.ULT(b0.e, z3.BitVecVal(0xE0, 8)))):
            w = 2
        elif I.decide(Sym(z3.ULT(b0.e, z3.BitVecVal(0xF0, 8)))):
            w = 3
        else:
            w = 4
    if pos + w > len(items):
        raise PathEnd('error', 'decode_utf8_at: truncated sequence (str invariant broken)')
    bs = items[pos:pos + w]
    if all(type(x) is not Sym for x in bs):
        try:
            return ord(bytes(bs).decode('utf-8')), w
        except Exception:
            raise PathEnd('error', 'decode_utf8_at: invalid utf-8 (str invariant broken) %r' % (bs,))
    ex = [z3.ZeroExt(24, I.to_bv(x, 8)) for x in bs]
    if w == 2:
        v = ((ex[0] & 0x1F) << 6) | (ex[1] & 0x3F)
    elif w == 3:
        v = ((ex[0] & 0x0F) << 12) | ((ex[1] & 0x3F) << 6) | (ex[2] & 0x3F)
    else:
        v = ((ex[0] & 0x07) << 18) | ((ex[1] & 0x3F) << 12) | ((ex[2] & 0x3F) << 6) | (ex[3] & 0x3F)
    return Sym(z3.simplify(v)), w


@model('String::push')
def string_push(I, args, callee):
    deref(args[0]).elems.extend(encode_utf8(I, args[1]))
    return unit()


@model('String::push_str')
def string_push_str(I, args, callee):
    deref(args[0]).elems.extend(items_of(args[1]))
    return unit()


@model('String::pop')
def string_pop(I, args, callee):
    s = deref(args[0])
    if not s.elems:
        return none()
    # find the start of the last char
    n = len(s.elems)
    k = n - 1
    while k > 0 and I.decide(in_range(I, s.elems[k], 0x80, 0xBF)):
        k -= 1
    c, w = decode_utf8_at(I, s.elems, k)
    del s.elems[k:]
    return some(c)


@model('String::insert')
def string_insert(I, args, callee):
    s = deref(args[0])
    i = conc_index(I, args[1])
    s.elems[i:i] = encode_utf8(I, args[2])
    return unit()


@model('String::insert_str')
def string_insert_str(I, args, callee):
    s = deref(args[0])
    i = conc_index(I, args[1])
    s.elems[i:i] = items_of(args[2])
    return unit()


@model('String::remove')
def string_remove(I, args, callee):
    s = deref(args[0])
    i = conc_index(I, args[1])
    c, w = decode_utf8_at(I, s.elems, i)
    del s.elems[i:i + w]
    return c


@model('<str as ToString>::to_string', '<String as ToString>::to_string', '<String as From>::from', 'String::from',
       '<&str as ToString>::to_string', 'str::to_owned', 'str::to_string', 'String::from_str', '<Cow as ToString>::to_string',
       'Cow::into_owned', '<String as FromStr>::from_str', 'str::into_string', '<char as ToString>::to_string',
       '<Box as From>::from', 'String::into_boxed_str', 'str::into_boxed_str')
def to_string(I, args, callee):
    v = deref1(args[0])
    if type(v) is StringV and ('From' in callee or 'into_owned' in callee or 'into_boxed' in callee):
        return v
    if type(v) is Adt and v.name == 'Cow':
        inner = v.fields[0]
        if type(inner) is StringV:
            return StringV(list(inner.elems))
        return StringV(list(items_of(inner)))
    if isinstance(v, int) or type(v) is Sym:
        if '<char' in callee:
            return StringV(encode_utf8(I, v))
    r = StringV(list(items_of(v)))
    if 'from_str' in callee:
        return ok(r)
    return r


@model('String::into_bytes')
def string_into_bytes(I, args, callee):
    return VecV(args[0].elems)


def utf8_validate(I, items):
    """-> True/False (forks); follows core::str::from_utf8 acceptance exactly for the encodable cases"""
    return utf8_valid_prefix(I, items)[0]


def utf8_valid_prefix(I, items):
    """-> (valid, number of bytes of the longest valid prefix) - the valid_up_to() of core::str::Utf8Error"""
    i = 0
    n = len(items)
    while i < n:
        b = items[i]
        if I.decide(in_range(I, b, 0x00, 0x7F)):
            i += 1
            continue
        if I.decide(in_range(I, b, 0xC2, 0xDF)):
            if i + 1 >= n or not I.decide(in_range(I, items[i + 1], 0x80, 0xBF)):
                return False, i
            i += 2
            continue
        if I.decide(in_range(I, b, 0xE0, 0xEF)):
            if i + 2 >= n:
                return False, i
            b1 = items[i + 1]
            if I.decide(sym_eq(I, b, 0xE0, 8)):
                okk = in_range(I, b1, 0xA0, 0xBF)
            elif I.decide(sym_eq(I, b, 0xED, 8)):
                okk = in_range(I, b1, 0x80, 0x9F)
            else:
                okk = in_range(I, b1, 0x80, 0xBF)
            if not I.decide(okk) or not I.decide(in_range(I, items[i + 2], 0x80, 0xBF)):
                return False, i
            i += 3
            continue
        if I.decide(in_range(I, b, 0xF0, 0xF4)):
            if i + 3 >= n:
                return False, i
            b1 = items[i + 1]
            if I.decide(sym_eq(I, b, 0xF0, 8)):
                okk = in_range(I, b1, 0x90, 0xBF)
            elif I.decide(sym_eq(I, b, 0xF4, 8)):
                okk = in_range(I, b1, 0x80, 0x8F)
            else:
                okk = in_range(I, b1, 0x80, 0xBF)
            if not I.decide(okk) or not I.decide(in_range(I, items[i + 2], 0x80, 0xBF)) or not I.decide(in_range(I, items[i + 3], 0x80, 0xBF)):
                return False, i
            i += 4
            continue
        return False, i
    return True, n


@model('String::from_utf8')
def string_from_utf8(I, args, callee):
    v = args[0]
    if utf8_validate(I, v.elems):
        return ok(StringV(v.elems))
    return err(Adt('FromUtf8Error', None, [v]))


@model('from_utf8', 'str::from_utf8', 'converts::from_utf8')
def str_from_utf8(I, args, callee):
    s = as_slice(args[0])
    valid, upto = utf8_valid_prefix(I, s.items())
    if valid:
        return ok(SliceRef(s.arr, s.start, s.length, True))
    return err(Adt('Utf8Error', None, [upto]))


@model('Utf8Error::valid_up_to')
def utf8error_valid_up_to(I, args, callee):
    e = deref(args[0])
    if type(e) is Adt and e.name == 'Utf8Error':
        return e.fields[0]
    if type(e) is Adt and e.name == 'FromUtf8Error':
        return utf8_valid_prefix(I, items_of(e.fields[0]))[1]
    raise Unmodelled('Utf8Error::valid_up_to on %r' % (e,))


@model('FromUtf8Error::utf8_error')
def fromutf8error_utf8_error(I, args, callee):
    e = deref(args[0])
    return Adt('Utf8Error', None, [utf8_valid_prefix(I, items_of(e.fields[0]))[1]])


@model('from_utf8_unchecked', 'str::from_utf8_unchecked', 'String::from_utf8_unchecked')
def str_from_utf8_unchecked(I, args, callee):
    if 'String' in callee:
        return StringV(args[0].elems)
    s = as_slice(args[0])
    return SliceRef(s.arr, s.start, s.length, True)


@model('String::from_utf8_lossy')
def string_from_utf8_lossy(I, args, callee):
    s = as_slice(args[0])
    if utf8_validate(I, s.items()):
        return Adt('Cow', 'Borrowed', [SliceRef(s.arr, s.start, s.length, True)])
    cb = concrete_bytes(s.items())
    if cb is not None:
        return Adt('Cow', 'Owned', [StringV(list(cb.decode('utf-8', 'replace').encode('utf-8')))])
    # symbolic invalid sequence: replacement text not modelled byte-exactly
    return Adt('Cow', 'Owned', [StringV(list('�'.encode('utf-8')))])


@model('FromUtf8Error::into_bytes')
def fromutf8error_into_bytes(I, args, callee):
    return args[0].fields[0]


# ---- str predicates / searches

def pattern_items(I, p):
    """pattern argument -> ('seq', [bytes]) | ('char', c) | ('fn', closure) | ('chars', [c..])"""
    p0 = p
    while type(p) is Ref:
        p = p.get()
    if type(p) is SliceRef and p.is_str:
        return 'seq', p.items()
    if type(p) is StringV:
        return 'seq', list(p.elems)
    if isinstance(p, int) or type(p) is Sym:
        return 'char', p
    if type(p) is Adt and p.name.startswith('{closure@') or type(p) is FnRef:
        return 'fn', p
    if type(p) is SliceRef or type(p) is Arr:
        return 'chars', items_of(p)
    raise Unmodelled('pattern %r' % (p0,))


def match_at(I, items, pos, kind, pat):
    """does pattern match at byte pos? -> (cond, width)"""
    if kind == 'seq':
        if pos + len(pat) > len(items):
            return False, 0
        return bytes_eq(I, items[pos:pos + len(pat)], pat), len(pat)
    c, w = decode_utf8_at(I, items, pos)
    if kind == 'char':
        return sym_eq(I, c, pat, 32), w
    if kind == 'chars':
        return sym_or(*[sym_eq(I, c, x, 32) for x in pat]), w
    return I.call_value(pat, [c]), w


@model('str::starts_with')
def str_starts_with(I, args, callee):
    items = items_of(args[0])
    kind, pat = pattern_items(I, args[1])
    if not items:
        return kind == 'seq' and len(pat) == 0
    c, w = match_at(I, items, 0, kind, pat)
    return c


@model('str::ends_with')
def str_ends_with(I, args, callee):
    items = items_of(args[0])
    kind, pat = pattern_items(I, args[1])
    if kind == 'seq':
        if len(pat) > len(items):
            return False
        return bytes_eq(I, items[len(items) - len(pat):], pat)
    if not items:
        return False
    k = len(items) - 1
    while k > 0 and I.decide(in_range(I, items[k], 0x80, 0xBF)):
        k -= 1
    c, w = match_at(I, items, k, kind, pat)
    return c


@model('str::strip_prefix')
def str_strip_prefix(I, args, callee):
    s = as_slice(args[0])
    items = s.items()
    kind, pat = pattern_items(I, args[1])
    if not items and not (kind == 'seq' and not pat):
        return none()
    c, w = match_at(I, items, 0, kind, pat)
    if I.decide(c):
        return some(SliceRef(s.arr, s.start + w, s.length - w, True))
    return none()


@model('str::strip_suffix')
def str_strip_suffix(I, args, callee):
    s = as_slice(args[0])
    items = s.items()
    kind, pat = pattern_items(I, args[1])
    if kind != 'seq':
        raise Unmodelled('strip_suffix with non-str pattern')
    if len(pat) > len(items):
        return none()
    if I.decide(bytes_eq(I, items[len(items) - len(pat):], pat)):
        return some(SliceRef(s.arr, s.start, s.length - len(pat), True))
    return none()


def char_starts(I, items):
    """byte positions where a char starts (forks on symbolic continuation-byte tests)"""
    pos = []
    i = 0
    n = len(items)
    while i < n:
        pos.append(i)
        c, w = decode_utf8_at(I, items, i)
        i += w
    return pos


@model('str::find')
def str_find(I, args, callee):
    items = items_of(args[0])
    kind, pat = pattern_items(I, args[1])
    if kind == 'seq' and not pat:
        return some(0)
    i = 0
    n = len(items)
    while i < n:
        c, w = match_at(I, items, i, kind, pat)
        if I.decide(c):
            return some(i)
        if kind == 'seq':
            cc, w = decode_utf8_at(I, items, i)
        i += w
    return none()


@model('str::rfind')
def str_rfind(I, args, callee):
    items = items_of(args[0])
    kind, pat = pattern_items(I, args[1])
    for i in reversed(char_starts(I, items)):
        c, w = match_at(I, items, i, kind, pat)
        if I.decide(c):
            return some(i)
    return none()


@model('str::contains')
def str_contains(I, args, callee):
    r = str_find(I, args, callee)
    return r.variant == 'Some'


def ws_cond(I, c):
    """char::is_whitespace for a char value (ASCII subset + NEL/NBSP etc. for concrete chars)"""
    if type(c) is not Sym:
        return chr(c).isspace() if c not in (0x1c, 0x1d, 0x1e, 0x1f) else False
    e = c.e
    bits = e.size()

    def eq(v):
        return e == z3.BitVecVal(v, bits)
    cs = [eq(0x20), z3.And(z3.UGE(e, z3.BitVecVal(9, bits)), z3.ULE(e, z3.BitVecVal(13, bits)))]
    if bits > 8:
        cs += [eq(0x85), eq(0xA0), eq(0x1680), z3.And(z3.UGE(e, z3.BitVecVal(0x2000, bits)), z3.ULE(e, z3.BitVecVal(0x200A, bits))),
               eq(0x2028), eq(0x2029), eq(0x202F), eq(0x205F), eq(0x3000)]
    return Sym(z3.Or(*cs))


def trim_generic(I, args, pred, left, right):
    s = as_slice(args[0])
    items = s.items()
    a, b = 0, len(items)
    if left:
        while a < b:
            c, w = decode_utf8_at(I, items, a)
            if I.decide(pred(c)):
                a += w
            else:
                break
    if right:
        while b > a:
            k = b - 1
            while k > a and I.decide(in_range(I, items[k], 0x80, 0xBF)):
                k -= 1
            c, w = decode_utf8_at(I, items, k)
            if I.decide(pred(c)):
                b = k
            else:
                break
    return SliceRef(s.arr, s.start + a, b - a, True)


@model('str::trim')
def str_trim(I, args, callee):
    return trim_generic(I, args, lambda c: ws_cond(I, c), True, True)


@model('str::trim_start')
def str_trim_start(I, args, callee):
    return trim_generic(I, args, lambda c: ws_cond(I, c), True, False)


@model('str::trim_end')
def str_trim_end(I, args, callee):
    return trim_generic(I, args, lambda c: ws_cond(I, c), False, True)


def _pat_pred(I, p):
    kind, pat = pattern_items(I, p)
    if kind == 'char':
        return lambda c: sym_eq(I, c, pat, 32)
    if kind == 'chars':
        return lambda c: sym_or(*[sym_eq(I, c, x, 32) for x in pat])
    if kind == 'fn':
        return lambda c: I.call_value(pat, [c])
    raise Unmodelled('trim_matches with str pattern')


@model('str::trim_matches')
def str_trim_matches(I, args, callee):
    return trim_generic(I, args, _pat_pred(I, args[1]), True, True)


@model('str::trim_start_matches')
def str_trim_start_matches(I, args, callee):
    return trim_generic(I, args, _pat_pred(I, args[1]), True, False)


@model('str::trim_end_matches')
def str_trim_end_matches(I, args, callee):
    return trim_generic(I, args, _pat_pred(I, args[1]), False, True)


@model('str::to_uppercase', 'str::to_ascii_uppercase', 'str::to_lowercase', 'str::to_ascii_lowercase')
def str_case(I, args, callee):
    items = items_of(args[0])
    up = 'upper' in callee
    out = []
    for b in items:
        if type(b) is not Sym:
            if b >= 0x80 and 'ascii' not in callee:
                cb = concrete_bytes(items)
                if cb is None:
                    raise Unmodelled('non-ascii case conversion on symbolic text')
                t = cb.decode('utf-8')
                return StringV(list((t.upper() if up else t.lower()).encode('utf-8')))
            out.append(ord(chr(b).upper() if up else chr(b).lower()) if b < 0x80 else b)
        else:
            lo, hi, d = (0x61, 0x7A, -32) if up else (0x41, 0x5A, 32)
            if 'ascii' not in callee:
                I.assume_ascii_note = True
            out.append(Sym(z3.If(z3.And(z3.UGE(b.e, z3.BitVecVal(lo, 8)), z3.ULE(b.e, z3.BitVecVal(hi, 8))), b.e + z3.BitVecVal(d & 0xFF, 8), b.e)))
    return StringV(out)


@model('str::eq_ignore_ascii_case', '[]::eq_ignore_ascii_case')
def str_eq_ignore_case(I, args, callee):
    a = str_case(I, [args[0]], 'to_ascii_lowercase').elems
    b = str_case(I, [args[1]], 'to_ascii_lowercase').elems
    return bytes_eq(I, a, b)


@model('str::repeat')
def str_repeat(I, args, callee):
    n = conc_index(I, args[1], 'repeat count')
    return StringV(list(items_of(args[0])) * n)


@model('str::replace')
def str_replace(I, args, callee):
    items = items_of(args[0])
    kind, pat = pattern_items(I, args[1])
    to = items_of(args[2])
    out = []
    i = 0
    n = len(items)
    while i < n:
        c, w = match_at(I, items, i, kind, pat)
        if w and I.decide(c):
            out.extend(to)
            i += w
        else:
            cc, w2 = decode_utf8_at(I, items, i)
            out.extend(items[i:i + w2])
            i += w2
    return StringV(out)


# ============================================================ char / integer helpers

def _charfn(name, cond):
    def f(I, args, callee):
        c = deref1(args[0])
        return cond(I, c)
    f.__name__ = name
    return f


def _rng(*ranges):
    def cond(I, c):
        return sym_or(*[in_range(I, c, lo, hi) for lo, hi in ranges])
    return cond


for _name, _cond in (
    ('is_ascii_digit', _rng((0x30, 0x39))),
    ('is_ascii_hexdigit', _rng((0x30, 0x39), (0x41, 0x46), (0x61, 0x66))),
    ('is_ascii_alphabetic', _rng((0x41, 0x5A), (0x61, 0x7A))),
    ('is_ascii_alphanumeric', _rng((0x30, 0x39), (0x41, 0x5A), (0x61, 0x7A))),
    ('is_ascii_uppercase', _rng((0x41, 0x5A))),
    ('is_ascii_lowercase', _rng((0x61, 0x7A))),
    ('is_ascii_whitespace', _rng((0x20, 0x20), (0x09, 0x0A), (0x0C, 0x0D))),
    ('is_ascii', _rng((0, 0x7F))),
    ('is_ascii_punctuation', _rng((0x21, 0x2F), (0x3A, 0x40), (0x5B, 0x60), (0x7B, 0x7E))),
    ('is_ascii_graphic', _rng((0x21, 0x7E))),
    ('is_ascii_control', _rng((0, 0x1F), (0x7F, 0x7F))),
):
    f = _charfn(_name, _cond)
    REGISTRY['int::' + _name] = f
    REGISTRY['char::' + _name] = f
    REGISTRY['u8::' + _name] = f


@model('char::is_whitespace')
def char_is_whitespace(I, args, callee):
    return ws_cond(I, deref1(args[0]))


@model('char::is_alphanumeric', 'char::is_alphabetic', 'char::is_numeric')
def char_is_alnum(I, args, callee):
    c = deref1(args[0])
    if type(c) is not Sym:
        ch = chr(c)
        return {'is_alphanumeric': ch.isalnum(), 'is_alphabetic': ch.isalpha(), 'is_numeric': ch.isnumeric()}[callee.split('::')[-1]]
    # symbolic: exact for ASCII; non-ASCII symbolic chars are outside the modelled domain
    if not I.decide(Sym(z3.ULT(c.e, z3.BitVecVal(0x80, c.e.size())))):
        raise Unmodelled('unicode class of symbolic non-ASCII char')
    k = callee.split('::')[-1]
    if k == 'is_numeric':
        return in_range(I, c, 0x30, 0x39)
    if k == 'is_alphabetic':
        return _rng((0x41, 0x5A), (0x61, 0x7A))(I, c)
    return _rng((0x30, 0x39), (0x41, 0x5A), (0x61, 0x7A))(I, c)


@model('char::is_digit')
def char_is_digit(I, args, callee):
    c = deref1(args[0])
    radix = args[1]
    if radix == 10:
        return in_range(I, c, 0x30, 0x39)
    if radix == 16:
        return _rng((0x30, 0x39), (0x41, 0x46), (0x61, 0x66))(I, c)
    raise Unmodelled('is_digit radix %r' % (radix,))


@model('char::to_digit')
def char_to_digit(I, args, callee):
    c = deref1(args[0])
    radix = args[1]
    bits = 32
    if I.decide(in_range(I, c, 0x30, 0x39)):
        d = (c - 0x30) if type(c) is not Sym else Sym(c.e - z3.BitVecVal(0x30, c.e.size()))
        if radix < 10 and not I.decide(sym_lt(I, d, radix, False, 32)):
            return none()
        return some(d)
    if radix > 10:
        for lo in (0x41, 0x61):
            if I.decide(in_range(I, c, lo, lo + radix - 11)):
                d = (c - lo + 10) if type(c) is not Sym else Sym(c.e - z3.BitVecVal(lo - 10, c.e.size()))
                return some(d)
    return none()


@model('char::from_u32', 'char::from_u32_unchecked', 'from_u32')
def char_from_u32(I, args, callee):
    v = args[0]
    bad = sym_or(in_range(I, v, 0xD800, 0xDFFF), sym_not(sym_le(I, v, 0x10FFFF, False, 32)))
    if 'unchecked' in callee:
        return v
    if I.decide(bad):
        return none()
    return some(v)


@model('char::from_digit', 'from_digit')
def char_from_digit(I, args, callee):
    d = conc_index(I, args[0], 'digit')
    radix = args[1]
    if d >= radix:
        return none()
    return some(ord('0') + d if d < 10 else ord('a') + d - 10)


@model('char::len_utf8')
def char_len_utf8(I, args, callee):
    return len(encode_utf8(I, deref1(args[0])))


@model('char::to_ascii_uppercase', 'int::to_ascii_uppercase', 'char::to_ascii_lowercase', 'int::to_ascii_lowercase',
       'char::to_uppercase', 'char::to_lowercase')
def char_case(I, args, callee):
    c = deref1(args[0])
    up = 'upper' in callee
    if type(c) is not Sym:
        if c < 0x80:
            return ord(chr(c).upper() if up else chr(c).lower())
        return c
    lo, hi, d = (0x61, 0x7A, -32) if up else (0x41, 0x5A, 32)
    bits = c.e.size()
    return Sym(z3.If(z3.And(z3.UGE(c.e, z3.BitVecVal(lo, bits)), z3.ULE(c.e, z3.BitVecVal(hi, bits))),
                     c.e + z3.BitVecVal(d & ((1 << bits) - 1), bits), c.e))


def _int_ty_from_callee(callee):
    m = re.search(r'<impl ([iu](?:8|16|32|64|128|size))>', callee) or re.search(r'\b([iu](?:8|16|32|64|128|size))::', callee)
    if m:
        return m.group(1)
    return None


def _arith(opname, pyop):
    def f(I, args, callee, opname=opname):
        ty = _int_ty_from_callee(callee)
        if ty is None:
            raise Unmodelled('integer type of ' + callee)
        bits, signed = INT_TYPES[ty]
        a, b = deref1(args[0]), deref1(args[1])
        kind, op = opname.split('_')
        res = I.binop({'add': 'AddWithOverflow', 'sub': 'SubWithOverflow', 'mul': 'MulWithOverflow'}[op], a, b, ty)
        val, ovf = res.fields
        if kind == 'wrapping':
            return val
        if kind == 'overflowing':
            return res
        if kind == 'checked':
            if I.decide(ovf):
                return none()
            return some(val)
        if kind == 'saturating':
            if not I.decide(ovf):
                return val
            hi = (1 << (bits - 1)) - 1 if signed else (1 << bits) - 1
            lo = -(1 << (bits - 1)) if signed else 0
            if not signed:
                return hi if op != 'sub' else 0
            # signed: direction by sign of a (add: b>0 -> max)
            neg = I.decide(sym_lt(I, b if op != 'mul' else a, 0, True, bits))
            if op == 'add':
                return lo if neg else hi
            if op == 'sub':
                return hi if neg else lo
            raise Unmodelled('saturating_mul signed')
        raise Unmodelled(opname)
    f.__name__ = opname
    return f


for _k in ('wrapping', 'checked', 'saturating', 'overflowing'):
    for _o in ('add', 'sub', 'mul'):
        REGISTRY['int::%s_%s' % (_k, _o)] = _arith('%s_%s' % (_k, _o), None)


@model('int::abs_diff')
def int_abs_diff(I, args, callee):
    ty = _int_ty_from_callee(callee)
    bits, signed = INT_TYPES[ty]
    a, b = args
    if I.decide(sym_lt(I, a, b, signed, bits)):
        return I.binop('Sub', b, a, ty)
    return I.binop('Sub', a, b, ty)


@model('int::pow')
def int_pow(I, args, callee):
    ty = _int_ty_from_callee(callee)
    bits, signed = INT_TYPES[ty]
    e = conc_index(I, args[1], 'exponent')
    r = 1
    for _ in range(e):
        res = I.binop('MulWithOverflow', r, args[0], ty)
        if I.decide(res.fields[1]):
            I.report('panic', 'attempt to multiply with overflow (pow)')
            raise PathEnd('panic', 'pow overflow')
        r = res.fields[0]
    return r


@model('int::from_le_bytes', 'int::from_be_bytes', 'int::from_ne_bytes')
def int_from_bytes(I, args, callee):
    ty = _int_ty_from_callee(callee)
    bits, signed = INT_TYPES[ty]
    bs = list(deref1(args[0]).elems)
    if 'from_be' in callee:
        bs = bs[::-1]
    if all(type(x) is not Sym for x in bs):
        v = 0
        for i, x in enumerate(bs):
            v |= x << (8 * i)
        return wrap(v, bits, signed)
    e = z3.Concat(*[I.to_bv(x, 8) for x in reversed(bs)]) if len(bs) > 1 else I.to_bv(bs[0], 8)
    return Sym(e)


@model('int::to_le_bytes', 'int::to_be_bytes', 'int::to_ne_bytes')
def int_to_bytes(I, args, callee):
    ty = _int_ty_from_callee(callee)
    bits, signed = INT_TYPES[ty]
    v = args[0]
    n = bits // 8
    if type(v) is Sym:
        bs = [Sym(z3.Extract(8 * i + 7, 8 * i, v.e)) for i in range(n)]
    else:
        u = v & ((1 << bits) - 1)
        bs = [(u >> (8 * i)) & 0xFF for i in range(n)]
    if 'to_be' in callee:
        bs = bs[::-1]
    return Arr(bs)


@model('int::leading_zeros', 'int::trailing_zeros', 'int::count_ones')
def int_bitcount(I, args, callee):
    ty = _int_ty_from_callee(callee)
    bits, signed = INT_TYPES[ty]
    v = conc_index(I, args[0], 'bit-count operand') & ((1 << bits) - 1)
    if 'leading' in callee:
        return bits - v.bit_length()
    if 'trailing' in callee:
        return bits if v == 0 else (v & -v).bit_length() - 1
    return bin(v).count('1')


@model('int::abs', 'int::wrapping_abs', 'int::unsigned_abs')
def int_abs(I, args, callee):
    ty = _int_ty_from_callee(callee)
    bits, signed = INT_TYPES[ty]
    v = args[0]
    if type(v) is not Sym:
        if 'unsigned' in callee:
            return abs(v)
        return wrap(abs(v), bits, True)
    return Sym(z3.If(v.e < 0, -v.e, v.e))


@model('int::is_power_of_two')
def int_is_pow2(I, args, callee):
    v = args[0]
    if type(v) is not Sym:
        return v > 0 and (v & (v - 1)) == 0
    return Sym(z3.And(v.e != 0, (v.e & (v.e - 1)) == 0))


@model('int::rem_euclid')
def int_rem_euclid(I, args, callee):
    ty = _int_ty_from_callee(callee)
    a, b = args
    if type(a) is not Sym and type(b) is not Sym:
        return a % abs(b)
    raise Unmodelled('rem_euclid symbolic')


# ---- floats

@model('float::abs', 'f64::abs', 'f32::abs')
def float_abs(I, args, callee):
    v = args[0]
    if type(v) is Sym:
        return Sym(z3.fpAbs(v.e))
    return abs(v)


@model('float::to_bits', 'f64::to_bits')
def float_to_bits(I, args, callee):
    v = args[0]
    if type(v) is Sym:
        return Sym(z3.fpToIEEEBV(v.e))
    return struct.unpack('<Q', struct.pack('<d', v))[0]


@model('float::from_bits', 'f64::from_bits', 'f32::from_bits')
def float_from_bits(I, args, callee):
    v = args[0]
    is32 = 'f32' in callee
    if type(v) is Sym:
        return Sym(z3.fpBVToFP(v.e, z3.Float32() if (is32 or v.e.size() == 32) else z3.Float64()))
    if is32:
        return struct.unpack('<f', struct.pack('<I', v & 0xFFFFFFFF))[0]
    return struct.unpack('<d', struct.pack('<Q', v))[0]


@model('float::is_nan', 'f64::is_nan')
def float_is_nan(I, args, callee):
    v = args[0]
    if type(v) is Sym:
        return Sym(z3.fpIsNaN(v.e))
    return v != v


@model('float::is_finite', 'f64::is_finite')
def float_is_finite(I, args, callee):
    v = args[0]
    if type(v) is Sym:
        return Sym(z3.Not(z3.Or(z3.fpIsNaN(v.e), z3.fpIsInf(v.e))))
    return not (v != v or v in (float('inf'), float('-inf')))


@model('float::is_infinite', 'f64::is_infinite')
def float_is_infinite(I, args, callee):
    v = args[0]
    if type(v) is Sym:
        return Sym(z3.fpIsInf(v.e))
    return v in (float('inf'), float('-inf'))


@model('float::is_sign_negative', 'f64::is_sign_negative')
def float_is_sign_negative(I, args, callee):
    v = args[0]
    if type(v) is Sym:
        return Sym(z3.fpIsNegative(v.e))
    return math.copysign(1.0, v) < 0


@model('float::max', 'f64::max', 'float::min', 'f64::min')
def float_minmax(I, args, callee):
    a, b = args
    if type(a) is Sym or type(b) is Sym:
        x, y = I.to_fp(a, 'f64'), I.to_fp(b, 'f64')
        return Sym(z3.fpMax(x, y) if 'max' in callee else z3.fpMin(x, y))
    if a != a:
        return b
    if b != b:
        return a
    return max(a, b) if 'max' in callee else min(a, b)


@model('AsPrimitive::as_')
def as_primitive(I, args, callee):
    q = I.parse_qualified(callee)
    src = q[0].strip()
    m = re.search(r'AsPrimitive<(\w+)>', q[1])
    dst = m.group(1) if m else None
    if src in INT_TYPES and dst in INT_TYPES:
        return I.cast(args[0], src, dst, 'IntToInt')
    if src in INT_TYPES and dst in ('f32', 'f64'):
        return I.cast(args[0], src, dst, 'IntToFloat')
    raise Unmodelled('AsPrimitive %s -> %s' % (src, dst))


_SIZES = {'u8': 1, 'i8': 1, 'bool': 1, 'u16': 2, 'i16': 2, 'u32': 4, 'i32': 4, 'f32': 4, 'char': 4, 'u64': 8, 'i64': 8,
          'f64': 8, 'usize': 8, 'isize': 8, 'u128': 16, 'i128': 16, '()': 0}


@model('mem::size_of', 'size_of', 'mem::align_of', 'align_of')
def mem_size_of(I, args, callee):
    m = re.search(r'(?:size_of|align_of)::<(.*)>$', callee.strip())
    t = m.group(1).strip() if m else ''
    if t in _SIZES:
        return _SIZES[t]
    if t.startswith(('&', '*', 'Box<')):
        return 16 if ('[' in t or 'str' in t or 'dyn' in t) else 8
    raise Unmodelled('size_of::<%s>' % t)


@model('Not::not', '<bool as Not>::not')
def op_not(I, args, callee):
    v = deref1(args[0])
    if v is True or v is False:
        return not v
    if type(v) is Sym:
        return Sym(z3.Not(v.e)) if z3.is_bool(v.e) else Sym(~v.e)
    raise Unmodelled('Not::not on %r' % (v,))


@model('String::from_utf16', 'String::from_utf16_lossy')
def string_from_utf16(I, args, callee):
    """decode UTF-16 code units (u16, possibly symbolic); unpaired surrogates are an error"""
    units = items_of(args[0])
    out = []
    i = 0
    n = len(units)
    while i < n:
        u = units[i]
        if not I.decide(in_range(I, u, 0xD800, 0xDFFF)):
            c = u if type(u) is not Sym else Sym(z3.ZeroExt(16, u.e))
            out.extend(encode_utf8(I, c))
            i += 1
            continue
        # surrogate: must be a high one followed by a low one
        if not I.decide(in_range(I, u, 0xD800, 0xDBFF)) or i + 1 >= n or not I.decide(in_range(I, units[i + 1], 0xDC00, 0xDFFF)):
            if 'lossy' in callee:
                out.extend([0xEF, 0xBF, 0xBD])
                i += 1
                continue
            return err(Opaque('FromUtf16Error'))
        lo = units[i + 1]
        if type(u) is not Sym and type(lo) is not Sym:
            c = 0x10000 + ((u - 0xD800) << 10) + (lo - 0xDC00)
        else:
            hu = z3.ZeroExt(16, I.to_bv(u, 16))
            lu = z3.ZeroExt(16, I.to_bv(lo, 16))
            c = Sym(z3.simplify(z3.BitVecVal(0x10000, 32) + ((hu - z3.BitVecVal(0xD800, 32)) << 10) + (lu - z3.BitVecVal(0xDC00, 32))))
        out.extend(encode_utf8(I, c))
        i += 2
    if 'lossy' in callee:
        return StringV(out)
    return ok(StringV(out))


@model('[]::strip_prefix', '[]::strip_suffix')
def slice_strip(I, args, callee):
    s = as_slice(args[0])
    a, b = s.items(), items_of(args[1])
    if len(b) > len(a):
        return none()
    if 'prefix' in callee:
        if I.decide(seq_eq(I, a[:len(b)], b)):
            return some(SliceRef(s.arr, s.start + len(b), s.length - len(b), s.is_str))
        return none()
    if I.decide(seq_eq(I, a[len(a) - len(b):], b)):
        return some(SliceRef(s.arr, s.start, s.length - len(b), s.is_str))
    return none()
