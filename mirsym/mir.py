"""Front end: parse the textual MIR dump (`rustc -Zunpretty=mir`) into function bodies.

Bodies are parsed lazily (the dump has ~320k lines; a harness touches a few hundred functions).
"""
import re

_FN_RE = re.compile(r'^(fn|const|static|static mut) (.+)$')


class MirError(Exception):
    pass


def split_top(s, sep=','):
    """Split at top-level separators, respecting () [] {} <> and string/char literals."""
    out = []
    depth = 0
    i = 0
    n = len(s)
    start = 0
    while i < n:
        c = s[i]
        if c == '"':
            i += 1
            while i < n and s[i] != '"':
                if s[i] == '\\':
                    i += 1
                i += 1
        elif c == "'":
            m = re.match(r"'(\\u\{[0-9a-fA-F]+\}|\\.|[^\\'])'", s[i:])
            if m:
                i += m.end() - 1
        elif c in '([{<':
            depth += 1
        elif c in ')]}':
            depth -= 1
        elif c == '>':
            if i > 0 and s[i - 1] in '-=':
                pass
            else:
                depth -= 1
        elif c == sep and depth == 0:
            out.append(s[start:i].strip())
            start = i + 1
        i += 1
    last = s[start:].strip()
    if last:
        out.append(last)
    return out


def find_matching(s, i):
    """s[i] is an opening bracket; return index of the matching closer (string/char aware)."""
    depth = 0
    n = len(s)
    while i < n:
        c = s[i]
        if c == '"':
            i += 1
            while i < n and s[i] != '"':
                if s[i] == '\\':
                    i += 1
                i += 1
        elif c == "'":
            m = re.match(r"'(\\u\{[0-9a-fA-F]+\}|\\.|[^\\'])'", s[i:])
            if m:
                i += m.end() - 1
        elif c in '([{<':
            depth += 1
        elif c in ')]}':
            depth -= 1
            if depth == 0:
                return i
        elif c == '>':
            if not (i > 0 and s[i - 1] in '-='):
                depth -= 1
                if depth == 0:
                    return i
        i += 1
    raise MirError('unbalanced: ' + s)


def unescape_rust(s, is_bytes=False):
    """Rust string literal body -> bytes."""
    out = bytearray()
    i = 0
    n = len(s)
    while i < n:
        c = s[i]
        if c == '\\':
            i += 1
            d = s[i]
            if d == 'n':
                out.append(10)
            elif d == 'r':
                out.append(13)
            elif d == 't':
                out.append(9)
            elif d == '0':
                out.append(0)
            elif d == '\\':
                out.append(92)
            elif d == '"':
                out.append(34)
            elif d == "'":
                out.append(39)
            elif d == 'x':
                out.append(int(s[i + 1:i + 3], 16))
                i += 2
            elif d == 'u':
                j = s.index('}', i)
                out += chr(int(s[i + 2:j], 16)).encode('utf-8')
                i = j
            else:
                raise MirError('escape \\' + d)
            i += 1
        else:
            if is_bytes:
                out.append(ord(c))
            else:
                out += c.encode('utf-8')
            i += 1
    return bytes(out)


# ------------------------------------------------------------------ places / operands / rvalues

class Place:
    __slots__ = ('local', 'proj', 'text')

    def __init__(self, local, proj, text):
        self.local = local
        self.proj = proj
        self.text = text

    def __repr__(self):
        return self.text


def parse_place(s):
    s = s.strip()
    p = _parse_place(s)
    p.text = s
    return p


def _parse_place(s):
    s = s.strip()
    # index / subslice suffix
    if s.endswith(']'):
        # find matching '['
        depth = 0
        i = len(s) - 1
        while i >= 0:
            if s[i] == ']':
                depth += 1
            elif s[i] == '[':
                depth -= 1
                if depth == 0:
                    break
            i -= 1
        base = _parse_place(s[:i])
        inner = s[i + 1:-1].strip()
        m = re.match(r'^_(\d+)$', inner)
        if m:
            base.proj.append(('index', int(m.group(1))))
            return base
        m = re.match(r'^(-?)(\d+) of (\d+)$', inner)
        if m:
            base.proj.append(('constindex', int(m.group(2)), int(m.group(3)), m.group(1) == '-'))
            return base
        m = re.match(r'^(\d+):(-?)(\d*)$', inner)
        if m:
            base.proj.append(('subslice', int(m.group(1)), int(m.group(3) or 0), m.group(2) == '-'))
            return base
        raise MirError('place index ' + s)
    m = re.match(r'^_(\d+)$', s)
    if m:
        return Place(int(m.group(1)), [], s)
    if s.startswith('(*') and s.endswith(')'):
        base = _parse_place(s[2:-1])
        base.proj.append(('deref',))
        return base
    if s.startswith('(') and s.endswith(')'):
        inner = s[1:-1]
        # (BASE as Variant)  or (BASE.N: TYPE)
        # find the split: base is a balanced place expression at the start
        if inner.startswith('('):
            j = find_matching(inner, 0)
            k = j + 1
            # allow trailing [..] on base
            while k < len(inner) and inner[k] == '[':
                k = find_matching(inner, k) + 1
            base_s = inner[:k]
            rest = inner[k:]
        else:
            m = re.match(r'^(_\d+(?:\[[^\]]*\])*)', inner)
            if not m:
                raise MirError('place ' + s)
            base_s = m.group(1)
            rest = inner[m.end():]
        base = _parse_place(base_s)
        if rest.startswith(' as '):
            base.proj.append(('downcast', rest[4:].strip()))
            return base
        m = re.match(r'^\.(\d+): (.*)$', rest, re.S)
        if m:
            base.proj.append(('field', int(m.group(1)), m.group(2)))
            return base
        raise MirError('place ' + s)
    raise MirError('place ' + s)


class Operand:
    __slots__ = ('kind', 'place', 'const', 'text')
    # kind: 'copy' | 'move' | 'const'

    def __init__(self, kind, place=None, const=None, text=''):
        self.kind = kind
        self.place = place
        self.const = const
        self.text = text

    def __repr__(self):
        return self.text


def parse_operand(s):
    s = s.strip()
    if s.startswith('no_retag '):
        s = s[9:]
    if s.startswith('copy '):
        return Operand('copy', parse_place(s[5:]), None, s)
    if s.startswith('move '):
        return Operand('move', parse_place(s[5:]), None, s)
    if s.startswith('const '):
        return Operand('const', None, parse_const(s[6:].strip()), s)
    if re.match(r'^[A-Za-z_<{]', s):
        # bare fn item (zero-sized function value)
        return Operand('const', None, ('named', s), s)
    raise MirError('operand ' + s)


_INT_SUFFIX = re.compile(r'^(-?\d+)_(u8|u16|u32|u64|u128|usize|i8|i16|i32|i64|i128|isize)$')
_FLOAT = re.compile(r'^(-?[0-9.]+(?:[eE][-+]?\d+)?|-?inf|NaN)(f32|f64)$')


def parse_const(s):
    """-> tuple (kind, payload...)"""
    m = _INT_SUFFIX.match(s)
    if m:
        return ('int', int(m.group(1)), m.group(2))
    if s == 'true':
        return ('bool', True)
    if s == 'false':
        return ('bool', False)
    if s == '()':
        return ('unit',)
    if s.startswith('"'):
        return ('str', unescape_rust(s[1:-1]))
    if s.startswith('b"'):
        return ('bytes', unescape_rust(s[2:-1], True))
    if s.startswith("'"):
        b = unescape_rust(s[1:-1])
        return ('char', ord(b.decode('utf-8')))
    if s.startswith("b'"):
        return ('int', unescape_rust(s[2:-1], True)[0], 'u8')
    m = _FLOAT.match(s)
    if m:
        t = m.group(1)
        v = float('nan') if t == 'NaN' else float(t)
        if m.group(2) == 'f32' and v == v and v not in (float('inf'), float('-inf')):
            import struct
            try:
                v = struct.unpack('<f', struct.pack('<f', v))[0]      # an f32 constant carries the f32-rounded value
            except OverflowError:
                v = float('inf') if v > 0 else float('-inf')
        return ('float', v, m.group(2))
    return ('named', s)


class Rvalue:
    __slots__ = ('kind', 'a', 'b', 'c', 'text', 'cache')

    def __init__(self, kind, a=None, b=None, c=None, text=''):
        self.kind = kind
        self.a = a
        self.b = b
        self.c = c
        self.text = text
        self.cache = None

    def __repr__(self):
        return self.text


_BINOPS = {'Add', 'Sub', 'Mul', 'Div', 'Rem', 'BitXor', 'BitAnd', 'BitOr', 'Shl', 'Shr', 'Eq', 'Lt', 'Le', 'Ne', 'Ge',
           'Gt', 'Cmp', 'Offset', 'AddWithOverflow', 'SubWithOverflow', 'MulWithOverflow', 'AddUnchecked',
           'SubUnchecked', 'MulUnchecked', 'ShlUnchecked', 'ShrUnchecked'}
_UNOPS = {'Not', 'Neg', 'PtrMetadata'}


def parse_rvalue(s):
    s = s.strip()
    t = s
    m = re.match(r'^(.*) as (.*) \(([A-Za-z]+(?:\(.*\))?)\)$', s, re.S)
    if m and _balanced(m.group(1)) and not s.startswith(('&', '[', '(')):
        return Rvalue('cast', parse_operand(m.group(1)), m.group(2).strip(), m.group(3), t)
    if s.startswith(('copy ', 'move ', 'const ', 'no_retag ')):
        return Rvalue('use', parse_operand(s), None, None, t)
    if s.startswith('&'):
        r = s[1:]
        mut = False
        if r.startswith('raw const '):
            r = r[10:]
        elif r.startswith('raw mut '):
            r = r[8:]
            mut = True
        elif r.startswith('mut '):
            r = r[4:]
            mut = True
        elif r.startswith('fake shallow '):
            r = r[13:]
        elif r.startswith('fake '):
            r = r[5:]
        if r.startswith('(fake) '):
            r = r[7:]
        return Rvalue('ref', parse_place(r), mut, None, t)
    m = re.match(r'^([A-Za-z]+)\((.*)\)$', s, re.S)
    if m and m.group(1) in _BINOPS:
        ops = split_top(m.group(2))
        return Rvalue('binop', m.group(1), parse_operand(ops[0]), parse_operand(ops[1]), t)
    if m and m.group(1) in _UNOPS:
        return Rvalue('unop', m.group(1), parse_operand(m.group(2)), None, t)
    if m and m.group(1) == 'discriminant':
        return Rvalue('discriminant', parse_place(m.group(2)), None, None, t)
    if m and m.group(1) == 'Len':
        return Rvalue('len', parse_place(m.group(2)), None, None, t)
    if m and m.group(1) == 'CopyForDeref':
        return Rvalue('use', Operand('copy', parse_place(m.group(2)), None, m.group(2)), None, None, t)
    if m and m.group(1) == 'ShallowInitBox':
        ops = split_top(m.group(2))
        return Rvalue('shallow_box', parse_operand(ops[0]), None, None, t)
    if s.startswith('['):
        inner = s[1:-1]
        parts = split_top(inner, ';')
        if len(parts) == 2 and not inner.strip().startswith('['):
            # repeat [op; N]  (N may be a const expr)
            return Rvalue('repeat', parse_operand(parts[0]), parts[1].strip(), None, t)
        if len(parts) == 2:
            # ambiguous: nested; fall through to array
            pass
        return Rvalue('array', [parse_operand(x) for x in split_top(inner)], None, None, t)
    if s.startswith('('):
        inner = s[1:-1]
        return Rvalue('tuple', [parse_operand(x) for x in split_top(inner)], None, None, t)
    # ADT / closure aggregate
    return parse_adt_aggregate(s)


def _balanced(s):
    d = 0
    for ch in s:
        if ch in '([{':
            d += 1
        elif ch in ')]}':
            d -= 1
    return d == 0


def strip_generics(path):
    """Remove ::<...> and <...> generic argument lists from a path (keeps `<X as Y>` qualified heads)."""
    out = []
    i = 0
    n = len(path)
    while i < n:
        if path.startswith('::<', i) and not path.startswith('::<impl ', i):
            j = find_matching(path, i + 2)
            i = j + 1
            continue
        out.append(path[i])
        i += 1
    return ''.join(out)


def parse_adt_aggregate(s):
    t = s
    if s.startswith('{closure@') or s.startswith('{coroutine@'):
        j = find_matching(s, 0)
        name = s[:j + 1]
        rest = s[j + 1:].strip()
        fields = []
        if rest.startswith('{'):
            for f in split_top(rest[1:-1]):
                k = f.index(':')
                fields.append(parse_operand(f[k + 1:]))
        return Rvalue('adt', name, None, fields, t)
    # Name::<G>::Variant(ops) | Name::<G> { f: op } | Name::Variant | Name(ops)
    # find end of path
    i = 0
    n = len(s)
    depth = 0
    while i < n:
        c = s[i]
        if c == '<':
            i = find_matching(s, i) + 1
            continue
        if c in '({ ':
            break
        i += 1
    path = s[:i]
    rest = s[i:].strip()
    fields = []
    if rest.startswith('('):
        fields = [parse_operand(x) for x in split_top(rest[1:-1])]
    elif rest.startswith('{'):
        for f in split_top(rest[1:-1]):
            k = f.index(':')
            fields.append(parse_operand(f[k + 1:]))
    elif rest:
        raise MirError('aggregate ' + s)
    return Rvalue('adt', path, None, fields, t)


# ------------------------------------------------------------------ statements / terminators

class Stmt:
    __slots__ = ('kind', 'a', 'b', 'text')

    def __init__(self, kind, a=None, b=None, text=''):
        self.kind = kind
        self.a = a
        self.b = b
        self.text = text

    def __repr__(self):
        return self.text


class Term:
    __slots__ = ('kind', 'a', 'b', 'c', 'd', 'text', 'cache')

    def __init__(self, kind, a=None, b=None, c=None, d=None, text=''):
        self.kind = kind
        self.a = a
        self.b = b
        self.c = c
        self.d = d
        self.text = text
        self.cache = None

    def __repr__(self):
        return self.text


_SKIP_STMT = ('StorageLive(', 'StorageDead(', 'nop', 'FakeRead(', 'PlaceMention(', 'AscribeUserType(', 'Retag(',
              'Coverage::', 'ConstEvalCounter', 'BackwardIncompatibleDropHint')


def parse_line(line):
    """line: one statement/terminator without trailing ';'. Returns Stmt or Term."""
    s = line.strip()
    if s.endswith(';'):
        s = s[:-1]
    if s.startswith(_SKIP_STMT):
        return None
    if s == 'return':
        return Term('return', text=s)
    if s == 'resume' or s.startswith('resume'):
        return Term('resume', text=s)
    if s == 'unreachable':
        return Term('unreachable', text=s)
    if s.startswith('goto -> '):
        return Term('goto', int(s[8:].strip()[2:]), text=s)
    if s.startswith('switchInt('):
        j = find_matching(s, 9)
        op = parse_operand(s[10:j])
        tg = s[j + 1:].strip()
        assert tg.startswith('-> [')
        targets = []
        otherwise = None
        for part in tg[4:-1].split(','):
            k, v = part.split(':')
            k = k.strip()
            bb = int(v.strip()[2:])
            if k == 'otherwise':
                otherwise = bb
            else:
                targets.append((int(k), bb))
        return Term('switch', op, targets, otherwise, text=s)
    if s.startswith('drop('):
        j = find_matching(s, 4)
        m = re.search(r'return: bb(\d+)', s[j:])
        return Term('drop', parse_place(s[5:j]), int(m.group(1)), text=s)
    if s.startswith('assert('):
        j = find_matching(s, 6)
        parts = split_top(s[7:j])
        cond = parts[0]
        neg = False
        if cond.startswith('!'):
            neg = True
            cond = cond[1:]
        m = re.search(r'success: bb(\d+)', s[j:])
        msg = parts[1] if len(parts) > 1 else ''
        return Term('assert', parse_operand(cond), neg, msg, int(m.group(1)), text=s)
    if s.startswith('discriminant('):
        j = find_matching(s, 12)
        return Stmt('setdiscr', parse_place(s[13:j]), int(s[j + 1:].split('=')[1].strip()), s)
    if s.startswith('Deinit('):
        return None
    if s.startswith('assume('):
        return Stmt('assume', parse_operand(s[7:-1]), None, s)
    if s.startswith(('abort', 'terminate')):
        return Term('abort', text=s)
    # assignment or call
    k = _find_assign(s)
    if k < 0:
        raise MirError('stmt ' + s)
    lhs = s[:k].strip()
    rhs = s[k + 3:].strip()
    # call?  CALLEE(ARGS) -> [return: bbN, unwind ...]  |  CALLEE(ARGS) -> unwind ...
    m = re.search(r' -> (\[return: bb(\d+), unwind[^\]]*\]|unwind [a-z() ]+|\[return: bb(\d+)\])$', rhs)
    if m:
        callpart = rhs[:m.start()]
        ret = m.group(2) or m.group(3)
        ret = int(ret) if ret else None
        # split callee / args: args is the last balanced (...) group
        assert callpart.endswith(')'), s
        depth = 0
        i = len(callpart) - 1
        # scan backwards, string aware is hard; scan forward instead
        i = _last_paren_group(callpart)
        callee = callpart[:i].strip()
        args = [parse_operand(x) for x in split_top(callpart[i + 1:-1])]
        return Term('call', parse_place(lhs), callee, args, ret, text=s)
    return Stmt('assign', parse_place(lhs), parse_rvalue(rhs), s)


def _find_assign(s):
    depth = 0
    i = 0
    n = len(s)
    while i < n - 2:
        c = s[i]
        if c in '([{':
            depth += 1
        elif c in ')]}':
            depth -= 1
        elif c == '"':
            return -1
        elif depth == 0 and s[i:i + 3] == ' = ':
            return i
        i += 1
    return -1


def _last_paren_group(s):
    """index of the '(' opening the final top-level (...) group of s (s ends with ')')."""
    i = 0
    n = len(s)
    last = -1
    depth = 0
    while i < n:
        c = s[i]
        if c == '"':
            i += 1
            while i < n and s[i] != '"':
                if s[i] == '\\':
                    i += 1
                i += 1
        elif c == "'":
            m = re.match(r"'(\\u\{[0-9a-fA-F]+\}|\\.|[^\\'])'", s[i:])
            if m:
                i += m.end() - 1
        elif c in '([{':
            if c == '(' and depth == 0:
                last = i
            depth += 1
        elif c in ')]}':
            depth -= 1
        elif c == '<':
            depth += 1
        elif c == '>' and not (i > 0 and s[i - 1] in '-='):
            depth -= 1
        i += 1
    return last


class Body:
    __slots__ = ('name', 'kind', 'nargs', 'local_types', 'blocks', 'ret_type', 'lines', 'parsed', 'arg_types')


class Program:
    def __init__(self, path):
        self.path = path
        self.bodies = {}      # name -> Body (unparsed lines)
        self.order = []
        self._scan()

    def _scan(self):
        cur = None
        with open(self.path, errors='replace') as f:
            lines = f.read().split('\n')
        i = 0
        n = len(lines)
        while i < n:
            line = lines[i]
            if line.startswith(('fn ', 'const ', 'static ')) and line.rstrip().endswith('{'):
                j = i + 1
                while j < n and lines[j] != '}':
                    j += 1
                self._add(line, lines[i + 1:j])
                i = j + 1
                continue
            elif line.startswith(('const ', 'static ')) and ' = const ' in line:
                # one-line constant: const NAME: T = const V;
                spans = []

                def _hide(mm):
                    spans.append(mm.group(0))
                    return '<IMPLSPAN%d>' % (len(spans) - 1)
                m = re.match(r'^(?:const|static) (.+?): (.*?) = (const .*);$', re.sub(r'<impl at [^>]*>', _hide, line))
                if m:
                    b = Body()
                    b.name = re.sub(r'<IMPLSPAN(\d+)>', lambda mm: spans[int(mm.group(1))], m.group(1))
                    b.kind = 'constval'
                    b.nargs = 0
                    b.lines = [m.group(3)]
                    b.parsed = False
                    b.ret_type = m.group(2)
                    b.local_types = {}
                    b.blocks = None
                    b.arg_types = []
                    self.bodies.setdefault(b.name, b)
            i += 1

    def _add(self, header, lines):
        b = Body()
        b.parsed = False
        b.lines = lines
        b.blocks = None
        b.local_types = {}
        if header.startswith('fn '):
            m = re.match(r'^fn (.+?)\((_1: .*)?\) -> (.*) \{$', header)
            if not m:
                m2 = re.match(r'^fn (.+?)\(\) -> (.*) \{$', header)
                if not m2:
                    return
                b.name = m2.group(1)
                args = ''
                b.ret_type = m2.group(2)
            else:
                b.name = m.group(1)
                args = m.group(2) or ''
                b.ret_type = m.group(3)
            b.kind = 'fn'
            at = split_top(args) if args else []
            b.nargs = len(at)
            b.arg_types = []
            for a in at:
                k = a.index(':')
                b.arg_types.append(a[k + 1:].strip())
                b.local_types[int(a[1:k])] = a[k + 1:].strip()
        else:
            spans = []

            def _hide(mm):
                spans.append(mm.group(0))
                return '<IMPLSPAN%d>' % (len(spans) - 1)
            h2 = re.sub(r'<impl at [^>]*>', _hide, header)
            m = re.match(r'^(?:const|static|static mut) (.+?): (.*) = \{$', h2)
            if not m:
                return
            b.name = re.sub(r'<IMPLSPAN(\d+)>', lambda mm: spans[int(mm.group(1))], m.group(1))
            b.kind = 'const'
            b.nargs = 0
            b.ret_type = m.group(2)
            b.arg_types = []
        # "MIR FOR CTFE" duplicates: keep the first
        if b.name not in self.bodies:
            self.bodies[b.name] = b
            self.order.append(b.name)

    def get(self, name):
        b = self.bodies.get(name)
        if b is None:
            return None
        if not b.parsed:
            self._parse_body(b)
        return b

    def _parse_body(self, b):
        b.parsed = True
        if b.kind == 'constval':
            return
        blocks = {}
        cur = None
        for line in b.lines:
            s = line.strip()
            if not s or s.startswith(('debug ', 'scope ', '}', '//')):
                if s == '}' and cur is not None and line.startswith('    }'):
                    cur = None
                continue
            m = re.match(r'^let (?:mut )?_(\d+): (.*);$', s)
            if m and cur is None:
                b.local_types[int(m.group(1))] = m.group(2)
                continue
            m = re.match(r'^bb(\d+)(?: \(cleanup\))?: \{$', s)
            if m:
                cur = []
                blocks[int(m.group(1))] = cur
                continue
            if cur is None:
                continue
            try:
                st = parse_line(s)
            except Exception as e:
                st = Stmt('unparsed', str(e), None, s)
            if st is not None:
                cur.append(st)
        b.blocks = blocks
        b.lines = None
