"""std models, part 3: core::fmt (exact for strings and integers), number parsing, io/path stubs."""
import re, struct
import z3
from .values import *
from .interp_api import PathEnd, Unmodelled, wrap
from .models import (model, REGISTRY, deref, deref1, some, none, ok, err, as_slice, items_of, concrete_bytes)
from .models_std import (sym_lt, sym_le, sym_eq, sym_not, sym_and, sym_or, conc_index, in_range, encode_utf8, _int_ty_from_callee)

FLAG_PLUS = 1 << 21
FLAG_ALT = 1 << 23
FLAG_ZERO = 1 << 24
FLAG_WIDTH = 1 << 27
FLAG_PREC = 1 << 28
ALIGN_SHIFT = 29
DEFAULT_FLAGS = 0x20 | (3 << 29)


class Fmt:
    """Formatter model: output buffer + options"""
    __slots__ = ('buf', 'flags', 'width', 'prec')

    def __init__(self, buf, flags=DEFAULT_FLAGS, width=0, prec=0):
        self.buf = buf
        self.flags = flags
        self.width = width
        self.prec = prec


def new_argument(kind):
    def f(I, args, callee):
        m = re.search(r'::new_\w+::<(.*)>$', callee.strip())
        ty = m.group(1).strip() if m else ''
        return Adt('FmtArgument', kind, [args[0], ty])
    f.__name__ = 'Argument_new_' + kind
    return f


for _k in ('display', 'debug', 'lower_hex', 'upper_hex', 'octal', 'binary', 'lower_exp', 'upper_exp', 'pointer', 'debug_noop'):
    REGISTRY['Argument::new_' + _k] = new_argument(_k)


@model('Argument::from_usize')
def argument_from_usize(I, args, callee):
    return Adt('FmtArgument', 'usize', [args[0], 'usize'])


@model('Arguments::new', 'Arguments::new_const', 'Arguments::from_str', 'Arguments::new_v1', 'Arguments::from_str_nonconst')
def arguments_new(I, args, callee):
    tmpl = args[0]
    if type(tmpl) is SliceRef and tmpl.is_str:
        # from_str: a plain literal
        return Adt('FmtArguments', None, [('lit', bytes(tmpl.items())), []])
    t = concrete_bytes(items_of(tmpl))
    a = items_of(args[1]) if len(args) > 1 else []
    return Adt('FmtArguments', None, [('tmpl', t), list(a)])


def pad(I, f, body, is_num=False, prefix=b''):
    """apply width / fill / alignment ('body' list of bytes, all of concrete length)"""
    if not (f.flags & FLAG_WIDTH):
        return list(prefix) + body
    n = len(prefix) + body_char_len(I, body)
    if n >= f.width:
        return list(prefix) + body
    fill_cp = f.flags & 0x1FFFFF
    fill = list(chr(fill_cp).encode('utf-8'))
    padn = f.width - n
    align = (f.flags >> ALIGN_SHIFT) & 3
    if is_num and (f.flags & FLAG_ZERO):
        return list(prefix) + [0x30] * padn + body
    if align == 3:
        align = 1 if is_num else 0
    if align == 0:
        return list(prefix) + body + fill * padn
    if align == 1:
        return fill * padn + list(prefix) + body
    l = padn // 2
    return fill * l + list(prefix) + body + fill * (padn - l)


def body_char_len(I, body):
    n = 0
    for b in body:
        if type(b) is Sym:
            if not I.decide(in_range(I, b, 0x80, 0xBF)):
                n += 1
        elif not (0x80 <= b <= 0xBF):
            n += 1
    return n


def fmt_int(I, v, bits, signed, radix, upper, f, alt_prefix=b''):
    """digits of an integer; forks on the digit count when symbolic"""
    neg = False
    if type(v) is not Sym:
        if v < 0:
            neg = True
            u = -v
        else:
            u = v
        if radix != 10:
            u = v & ((1 << bits) - 1)
            neg = False
        digs = []
        if u == 0:
            digs = [0x30]
        while u:
            d = u % radix
            digs.append(0x30 + d if d < 10 else (0x41 if upper else 0x61) + d - 10)
            u //= radix
        body = digs[::-1]
    else:
        e = v.e
        if signed and radix == 10:
            neg = I.decide(Sym(e < 0))
            if neg:
                e = -e
        # digit count
        ndig = 1
        maxd = len(str((1 << bits) - 1)) if radix == 10 else (bits + 3) // 4 if radix == 16 else bits
        p = radix
        while ndig < maxd:
            if p >= (1 << bits):
                break
            if I.decide(Sym(z3.ULT(e, z3.BitVecVal(p, bits)))):
                break
            ndig += 1
            p *= radix
        body = []
        if radix in (2, 8, 16):
            sh = {2: 1, 8: 3, 16: 4}[radix]
            for i in range(ndig):
                lo_bit = i * sh
                hi_bit = min(lo_bit + sh - 1, bits - 1)
                d = z3.ZeroExt(8 - (hi_bit - lo_bit + 1), z3.Extract(hi_bit, lo_bit, e))
                if radix <= 10:
                    ch = d + z3.BitVecVal(0x30, 8)
                else:
                    ch = z3.If(z3.ULT(d, z3.BitVecVal(10, 8)), d + z3.BitVecVal(0x30, 8), d + z3.BitVecVal((0x41 if upper else 0x61) - 10, 8))
                body.append(Sym(z3.simplify(ch)))
        else:
            # decimal digits without division: fresh digit variables d_i with  value == sum d_i * 10^i  (exact encoding)
            W = bits + 8
            tot = z3.BitVecVal(0, W)
            for i in range(ndig):
                dv = z3.BitVec('fd%d_%d' % (len(I.pc), i), 8)
                I.add(z3.ULE(dv, z3.BitVecVal(9, 8)))
                if i == ndig - 1 and ndig > 1:
                    I.add(z3.UGE(dv, z3.BitVecVal(1, 8)))
                tot = tot + z3.ZeroExt(W - 8, dv) * z3.BitVecVal(radix ** i, W)
                body.append(Sym(dv + z3.BitVecVal(0x30, 8)))
            I.add(z3.ZeroExt(8, e) == tot)
            I.model = None
        body = body[::-1]
    prefix = b''
    if neg:
        prefix = b'-'
    elif f.flags & FLAG_PLUS:
        prefix = b'+'
    if f.flags & FLAG_ALT:
        prefix += alt_prefix
    return pad(I, f, body, True, prefix)


def fmt_float_concrete(v, f, ty='f64', exp=None):
    if f.flags & FLAG_PREC:
        s = '%.*f' % (f.prec, v)
    else:
        if v != v:
            s = 'NaN'
        elif v in (float('inf'), float('-inf')):
            s = 'inf' if v > 0 else '-inf'
        else:
            if ty == 'f32':
                import numpy  # noqa (only if available)
                s = numpy.format_float_positional(numpy.float32(v), unique=True, trim='-')
            else:
                s = repr(float(v))
                if 'e' in s or 'E' in s:
                    # Rust Display never uses exponent notation
                    from decimal import Decimal
                    s = format(Decimal(repr(float(v))), 'f')
                if s.endswith('.0'):
                    s = s[:-2]
    if f.flags & FLAG_PLUS and not s.startswith('-'):
        s = '+' + s
    return s


def fmt_float_exp(v, ty, upper):
    """Rust's {:e}: shortest round-trip digits, one digit before the point, exponent without sign padding"""
    if v != v:
        return 'NaN'
    if v in (float('inf'), float('-inf')):
        return 'inf' if v > 0 else '-inf'
    if v == 0:
        return '0e0'
    if ty == 'f32':
        import numpy
        r = numpy.format_float_scientific(numpy.float32(v), unique=True, trim='-')
    else:
        import numpy
        r = numpy.format_float_scientific(numpy.float64(v), unique=True, trim='-')
    mant, exp = r.split('e')
    if mant.endswith('.'):
        mant = mant[:-1]
    e = int(exp)
    out = '%s%s%d' % (mant, 'E' if upper else 'e', e)
    return out


def display_value(I, v, ty, kind, f):
    """append the formatting of value v (type text ty) to f.buf"""
    while type(v) is Ref:
        v = v.get()
        ty = re.sub(r"^&\s*('\w+\s+)?(mut\s+)?", '', ty.strip())
    ty = ty.strip()
    tv = type(v)
    if tv is SliceRef or tv is StringV or tv is StrLit or (tv is Adt and v.name == 'Cow'):
        body = list(items_of(v))
        if kind == 'debug':
            cb = concrete_bytes(body)
            if cb is None:
                body = [0x22] + body + [0x22]   # escapes of symbolic content are not modelled
            else:
                s = cb.decode('utf-8', 'replace')
                body = list(('"' + s.replace('\\', '\\\\').replace('"', '\\"').replace('\n', '\\n').replace('\r', '\\r').replace('\t', '\\t') + '"').encode())
        if f.flags & FLAG_PREC:
            body = body[:f.prec]
        f.buf.extend(pad(I, f, body))
        return
    if v is True or v is False:
        f.buf.extend(pad(I, f, list(b'true' if v else b'false')))
        return
    if tv is Sym and z3.is_bool(v.e):
        f.buf.extend(pad(I, f, list(b'true' if I.decide(v) else b'false')))
        return
    if ty == 'char':
        f.buf.extend(pad(I, f, encode_utf8(I, v)))
        return
    if ty in INT_TYPES and (isinstance(v, int) or tv is Sym):
        bits, signed = INT_TYPES[ty]
        if kind in ('display', 'debug', 'usize'):
            f.buf.extend(fmt_int(I, v, bits, signed, 10, False, f))
        elif kind == 'upper_hex':
            f.buf.extend(fmt_int(I, v, bits, signed, 16, True, f, b'0x'))
        elif kind == 'lower_hex':
            f.buf.extend(fmt_int(I, v, bits, signed, 16, False, f, b'0x'))
        elif kind == 'binary':
            f.buf.extend(fmt_int(I, v, bits, signed, 2, False, f, b'0b'))
        elif kind == 'octal':
            f.buf.extend(fmt_int(I, v, bits, signed, 8, False, f, b'0o'))
        else:
            raise Unmodelled('int format kind ' + kind)
        return
    if ty in ('f32', 'f64') or isinstance(v, float):
        if tv is Sym:
            raise Unmodelled('formatting of a symbolic float (no float-to-text model)')
        if kind in ('lower_exp', 'upper_exp'):
            f.buf.extend(pad(I, f, list(fmt_float_exp(v, ty if ty in ('f32', 'f64') else 'f64', kind == 'upper_exp').encode()), True))
            return
        f.buf.extend(pad(I, f, list(fmt_float_concrete(v, f, ty if ty in ('f32', 'f64') else 'f64').encode()), True))
        return
    if tv is Opaque or tv is FnRef:
        f.buf.extend(list(b'<opaque>'))
        return
    if tv is Adt:
        trait = 'Debug' if kind == 'debug' else ('Display' if kind == 'display' else None)
        if trait:
            c = I.traitimpl.get((trait, v.name, 'fmt'))
            if c:
                fobj = Opaque('Formatter', f)
                r = I.exec_body(I.prog.get(c[0][0]), c[0][0], [Ref([v], 0), Ref([fobj], 0)])
                return
            if v.name == 'Option' and kind == 'debug':
                if v.variant == 'None':
                    f.buf.extend(list(b'None'))
                else:
                    f.buf.extend(list(b'Some('))
                    display_value(I, v.fields[0], re.sub(r'^.*?Option<(.*)>$', r'\1', ty), kind, f)
                    f.buf.extend(list(b')'))
                return
            if v.name == '()' and kind == 'debug':
                f.buf.extend(list(b'('))
                for i, x in enumerate(v.fields):
                    if i:
                        f.buf.extend(list(b', '))
                    display_value(I, x, '?', kind, f)
                f.buf.extend(list(b')'))
                return
    if isinstance(v, Arr) and kind == 'debug':
        f.buf.extend(list(b'['))
        for i, x in enumerate(v.elems):
            if i:
                f.buf.extend(list(b', '))
            display_value(I, x, '?', kind, f)
        f.buf.extend(list(b']'))
        return
    if isinstance(v, int) or tv is Sym:
        # unknown integer type: infer from the value
        bits = v.e.size() if tv is Sym else 64
        f.buf.extend(fmt_int(I, v, bits, False if tv is Sym else True, 10, False, f))
        return
    raise Unmodelled('format %s of %r (type %s)' % (kind, v, ty))


def run_arguments(I, a, buf):
    """interpret a FmtArguments value, appending bytes to buf (python list)"""
    spec, fargs = a.fields
    if spec[0] == 'lit':
        buf.extend(spec[1])
        return
    t = spec[1]
    i = 0
    argi = 0
    n = len(t)
    while i < n:
        b = t[i]
        i += 1
        if b == 0:
            break
        if b < 0x80:
            buf.extend(t[i:i + b])
            i += b
        elif b == 0x80:
            ln = t[i] | (t[i + 1] << 8)
            i += 2
            buf.extend(t[i:i + ln])
            i += ln
        else:
            flags, width, prec = DEFAULT_FLAGS, 0, 0
            if b & 1:
                flags = struct.unpack('<I', t[i:i + 4])[0]
                i += 4
            if b & 2:
                width = t[i] | (t[i + 1] << 8)
                i += 2
            if b & 4:
                prec = t[i] | (t[i + 1] << 8)
                i += 2
            if b & 8:
                argi = t[i] | (t[i + 1] << 8)
                i += 2
            if b & 16:
                width = conc_index(I, deref1(fargs[width].fields[0]), 'dynamic width')
                flags |= FLAG_WIDTH
            if b & 32:
                prec = conc_index(I, deref1(fargs[prec].fields[0]), 'dynamic precision')
                flags |= FLAG_PREC
            arg = fargs[argi]
            argi += 1
            f = Fmt(buf, flags, width, prec)
            display_value(I, arg.fields[0], arg.fields[1], arg.variant, f)


@model('format', 'fmt::format', 'format_inner')
def m_format(I, args, callee):
    buf = []
    run_arguments(I, args[0], buf)
    return StringV(buf)


@model('Arguments::as_str', 'Arguments::as_statically_known_str')
def arguments_as_str(I, args, callee):
    a = deref(args[0])
    if a.fields[0][0] == 'lit':
        b = a.fields[0][1]
        return some(SliceRef(StrLit(list(b)), 0, len(b), True))
    return none()


def fmt_of(v):
    v = deref(v)
    if type(v) is Opaque and v.what == 'Formatter':
        return v.data
    raise Unmodelled('not a Formatter: %r' % (v,))


@model('Formatter::write_str', '<Formatter as Write>::write_str')
def formatter_write_str(I, args, callee):
    fmt_of(args[0]).buf.extend(items_of(args[1]))
    return ok(unit())


@model('Formatter::pad')
def formatter_pad(I, args, callee):
    f = fmt_of(args[0])
    body = list(items_of(args[1]))
    if f.flags & FLAG_PREC:
        body = body[:f.prec]
    f.buf.extend(pad(I, f, body))
    return ok(unit())


@model('Formatter::write_fmt', '<Formatter as Write>::write_fmt')
def formatter_write_fmt(I, args, callee):
    run_arguments(I, args[1], fmt_of(args[0]).buf)
    return ok(unit())


@model('Formatter::write_char', '<Formatter as Write>::write_char')
def formatter_write_char(I, args, callee):
    fmt_of(args[0]).buf.extend(encode_utf8(I, args[1]))
    return ok(unit())


@model('Formatter::alternate')
def formatter_alternate(I, args, callee):
    return bool(fmt_of(args[0]).flags & FLAG_ALT)


@model('Formatter::width')
def formatter_width(I, args, callee):
    f = fmt_of(args[0])
    return some(f.width) if f.flags & FLAG_WIDTH else none()


@model('Formatter::precision')
def formatter_precision(I, args, callee):
    f = fmt_of(args[0])
    return some(f.prec) if f.flags & FLAG_PREC else none()


@model('<String as Write>::write_fmt', 'Write::write_fmt', '<String as fmt::Write>::write_fmt')
def string_write_fmt(I, args, callee):
    tgt = deref(args[0])
    if type(tgt) is StringV:
        run_arguments(I, args[1], tgt.elems)
        return ok(unit())
    if type(tgt) is Opaque and tgt.what == 'Formatter':
        run_arguments(I, args[1], tgt.data.buf)
        return ok(unit())
    if type(tgt) is VecV:
        run_arguments(I, args[1], tgt.elems)
        return ok(unit())
    raise Unmodelled('write_fmt on %r' % (tgt,))


@model('<String as Write>::write_str', '<String as Write>::write_char')
def string_write_str(I, args, callee):
    tgt = deref(args[0])
    if 'write_char' in callee:
        tgt.elems.extend(encode_utf8(I, args[1]))
    else:
        tgt.elems.extend(items_of(args[1]))
    return ok(unit())


def _display_to_string(I, v, ty, kind='display'):
    buf = []
    display_value(I, v, ty, kind, Fmt(buf))
    return StringV(buf)


@model('ToString::to_string', '<T as ToString>::to_string')
def generic_to_string(I, args, callee):
    q = I.parse_qualified(callee)
    ty = q[0] if q else '?'
    v = args[0]
    return _display_to_string(I, v, '&' + ty)


@model('Display::fmt', '<T as Display>::fmt', 'Debug::fmt', '<T as Debug>::fmt', 'UpperHex::fmt', 'LowerHex::fmt')
def generic_fmt(I, args, callee):
    q = I.parse_qualified(callee)
    ty = q[0] if q else '?'
    tr = q[1] if q else 'Display'
    kind = {'Display': 'display', 'Debug': 'debug', 'UpperHex': 'upper_hex', 'LowerHex': 'lower_hex'}.get(tr.split('::')[-1], 'display')
    display_value(I, args[0], '&' + ty, kind, fmt_of(args[1]))
    return ok(unit())


@model('AsDisplay::as_display')
def as_display(I, args, callee):
    return args[0]


# ---- derived Debug helpers (used by #[derive(Debug)] bodies): output text is irrelevant for the properties -> coarse

def _dbg_name(I, f, name_arg):
    f.buf.extend(items_of(name_arg))


@model('Formatter::debug_struct')
def formatter_debug_struct(I, args, callee):
    f = fmt_of(args[0])
    _dbg_name(I, f, args[1])
    return Adt('DebugStruct', None, [args[0], False])


@model('DebugStruct::field')
def debugstruct_field(I, args, callee):
    ds = deref(args[0])
    f = fmt_of(ds.fields[0])
    f.buf.extend(list(b' { ' if not ds.fields[1] else b', '))
    ds.fields[1] = True
    f.buf.extend(items_of(args[1]))
    f.buf.extend(list(b': '))
    try:
        display_value(I, args[2], '?', 'debug', Fmt(f.buf))
    except Unmodelled:
        f.buf.extend(list(b'?'))
    return args[0]


@model('DebugStruct::finish', 'DebugStruct::finish_non_exhaustive')
def debugstruct_finish(I, args, callee):
    ds = deref(args[0])
    f = fmt_of(ds.fields[0])
    if ds.fields[1]:
        f.buf.extend(list(b' }'))
    return ok(unit())


def _debug_finish(I, args, callee):
    f = fmt_of(args[0])
    _dbg_name(I, f, args[1])
    f.buf.extend(list(b'(..)'))
    return ok(unit())


for _n in ('debug_tuple_field1_finish', 'debug_tuple_field2_finish', 'debug_tuple_field3_finish', 'debug_tuple_field4_finish',
           'debug_tuple_field5_finish', 'debug_tuple_fields_finish', 'debug_struct_field1_finish', 'debug_struct_field2_finish',
           'debug_struct_field3_finish', 'debug_struct_field4_finish', 'debug_struct_field5_finish', 'debug_struct_fields_finish'):
    REGISTRY['Formatter::' + _n] = _debug_finish


@model('Formatter::debug_tuple', 'Formatter::debug_list', 'Formatter::debug_map', 'Formatter::debug_set')
def formatter_debug_other(I, args, callee):
    raise Unmodelled('Debug builder ' + callee)


# ============================================================ parsing numbers

def digits_value(I, items, radix, bits, signed, allow_sign=True):
    """core::num::from_str_radix semantics -> ('ok', value) | ('err', reason); forks on character classes"""
    n = len(items)
    if n == 0:
        return 'err', 'empty'
    pos = 0
    neg = False
    first = items[0]
    if I.decide(sym_eq(I, first, 0x2B, 8)):
        pos = 1
    elif I.decide(sym_eq(I, first, 0x2D, 8)):
        if signed:
            neg = True
            pos = 1
        elif n == 1:
            return 'err', 'invalid'
        else:
            return 'err', 'invalid'
    if pos == n:
        return 'err', 'invalid'
    import math as _m
    nd = n - pos
    W = max(bits + 8, int(_m.ceil(nd * _m.log2(radix))) + 2)
    lim_hi = (1 << (bits - 1)) - 1 if signed else (1 << bits) - 1
    lim_neg = 1 << (bits - 1)
    lim = lim_neg if neg else lim_hi
    valid = []
    vals = []
    for i in range(pos, n):
        b = items[i]
        if type(b) is not Sym:
            if 0x30 <= b <= min(0x39, 0x30 + radix - 1):
                vals.append(b - 0x30)
            elif radix > 10 and 0x41 <= b <= 0x41 + radix - 11:
                vals.append(b - 0x41 + 10)
            elif radix > 10 and 0x61 <= b <= 0x61 + radix - 11:
                vals.append(b - 0x61 + 10)
            else:
                return 'err', 'invalid'
        else:
            e = b.e
            c_dig = z3.And(z3.UGE(e, z3.BitVecVal(0x30, 8)), z3.ULE(e, z3.BitVecVal(min(0x39, 0x30 + radix - 1), 8)))
            v = z3.ZeroExt(W - 8, e - z3.BitVecVal(0x30, 8))
            conds = [c_dig]
            if radix > 10:
                c_up = z3.And(z3.UGE(e, z3.BitVecVal(0x41, 8)), z3.ULE(e, z3.BitVecVal(0x41 + radix - 11, 8)))
                c_lo = z3.And(z3.UGE(e, z3.BitVecVal(0x61, 8)), z3.ULE(e, z3.BitVecVal(0x61 + radix - 11, 8)))
                v = z3.If(c_dig, v, z3.If(c_up, z3.ZeroExt(W - 8, e - z3.BitVecVal(0x41 - 10, 8)), z3.ZeroExt(W - 8, e - z3.BitVecVal(0x61 - 10, 8))))
                conds += [c_up, c_lo]
            valid.append(z3.Or(*conds))
            vals.append(Sym(v))
    if valid and not I.decide(Sym(z3.And(*valid) if len(valid) > 1 else valid[0])):
        return 'err', 'invalid'
    if all(type(v) is not Sym for v in vals):
        accv = 0
        for v in vals:
            accv = accv * radix + v
        if accv > lim:
            return 'err', 'overflow'
        return 'ok', (-accv if neg else accv)
    acc = z3.BitVecVal(0, W)
    for v in vals:
        acc = acc * z3.BitVecVal(radix, W) + (v.e if type(v) is Sym else z3.BitVecVal(v, W))
    acc = z3.simplify(acc)
    if I.decide(Sym(z3.UGT(acc, z3.BitVecVal(lim, W)))):
        return 'err', 'overflow'
    v = z3.Extract(bits - 1, 0, acc)
    if neg:
        v = -v
    return 'ok', Sym(z3.simplify(v))


def int_error(kind):
    return Adt('ParseIntError', None, [kind])


@model('int::from_str_radix')
def int_from_str_radix(I, args, callee):
    ty = _int_ty_from_callee(callee)
    bits, signed = INT_TYPES[ty]
    radix = conc_index(I, args[1], 'radix')
    st, v = digits_value(I, list(items_of(args[0])), radix, bits, signed)
    return ok(v) if st == 'ok' else err(int_error(v))


def py_parse_float(s):
    s2 = s.strip()
    if not re.match(r'^[+-]?((\d+\.?\d*|\.\d+)([eE][+-]?\d+)?|inf|infinity|nan)$', s2, re.I) or s2 != s:
        return None
    try:
        return float(s2)
    except ValueError:
        return None


@model('str::parse', '<T as FromStr>::from_str', 'FromStr::from_str', '<int as FromStr>::from_str', '<float as FromStr>::from_str')
def str_parse(I, args, callee):
    m = re.search(r'parse::<(\w+)>', callee) or re.search(r'<(\w+) as (?:std::str::)?FromStr>', callee)
    ty = m.group(1) if m else None
    items = list(items_of(args[0]))
    if ty in INT_TYPES and ty != 'char':
        bits, signed = INT_TYPES[ty]
        st, v = digits_value(I, items, 10, bits, signed)
        return ok(v) if st == 'ok' else err(int_error(v))
    if ty in ('f32', 'f64'):
        cb = concrete_bytes(items)
        if cb is None:
            # symbolic text: exact only for plain decimal integers (sign + digits) below 2^53
            neg = False
            pos = 0
            if items and I.decide(sym_eq(I, items[0], 0x2D, 8)):
                neg, pos = True, 1
            elif items and I.decide(sym_eq(I, items[0], 0x2B, 8)):
                pos = 1
            if pos == len(items):
                return err(Opaque('ParseFloatError'))
            for b in items[pos:]:
                if not I.decide(in_range(I, b, 0x30, 0x39)):
                    raise Unmodelled('float parsing of symbolic non-integer text')
            W = 128
            acc = z3.BitVecVal(0, W)
            for b in items[pos:]:
                acc = acc * 10 + z3.ZeroExt(W - 8, I.to_bv(b, 8) - z3.BitVecVal(0x30, 8))
            fs = z3.Float64() if ty == 'f64' else z3.Float32()
            r = z3.fpUnsignedToFP(z3.RNE(), acc, fs)
            if neg:
                r = z3.fpNeg(r)
            return ok(Sym(r))
        v = py_parse_float(cb.decode('utf-8', 'replace'))
        if v is None:
            return err(Opaque('ParseFloatError'))
        if ty == 'f32':
            try:
                v = struct.unpack('<f', struct.pack('<f', v))[0]
            except OverflowError:
                v = float('inf') if v > 0 else float('-inf')
        return ok(v)
    if ty == 'bool':
        cb = concrete_bytes(items)
        if cb == b'true':
            return ok(True)
        if cb == b'false':
            return ok(False)
        return err(Opaque('ParseBoolError'))
    if ty == 'String':
        return ok(StringV(items))
    raise Unmodelled('parse::<%s>' % ty)


@model('ParseIntError::kind')
def parse_int_error_kind(I, args, callee):
    raise Unmodelled('ParseIntError::kind')


# ============================================================ io / path / env stubs (opaque)

@model('Path::new', 'Path::to_path_buf', 'PathBuf::from', '<PathBuf as From>::from', 'PathBuf::new', 'Path::as_os_str',
       'OsStr::to_os_string', '<OsString as Deref>::deref', '<PathBuf as Deref>::deref', 'Path::display', 'OsString::from',
       '<OsString as From>::from', '<PathBuf as AsRef>::as_ref', '<Path as AsRef>::as_ref', '<OsString as AsRef>::as_ref',
       '<OsStr as AsRef>::as_ref', '<String as AsRef<Path>>::as_ref', '<P as AsRef>::as_ref', 'PathBuf::as_path',
       'OsStr::new', 'Path::to_string_lossy', 'OsStr::to_string_lossy', 'PathBuf::into_os_string', 'Path::as_ref',
       '<OsStr as ToOwned>::to_owned', '<Path as ToOwned>::to_owned', '<PathBuf as Clone>::clone', '<OsString as Clone>::clone')
def path_passthrough(I, args, callee):
    v = args[0]
    if 'to_string_lossy' in callee:
        s = as_slice(v)
        return Adt('Cow', 'Borrowed', [SliceRef(s.arr, s.start, s.length, True)])
    if 'clone' in callee or 'to_owned' in callee or 'to_path_buf' in callee or 'to_os_string' in callee:
        try:
            return StringV(list(items_of(v)))
        except Unmodelled:
            return v
    return v
