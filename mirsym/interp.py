"""E2 core: bounded path-wise symbolic execution of MIR with z3.

Path forking uses os.fork(): at a symbolic branch with two feasible sides the process forks, so every
process explores exactly one path with its own copy of the machine state and of the solver context.
Each path appends one JSON line to a shared results file.
"""
import json, math, os, re, struct, sys, time
import z3
from . import mir
from .mir import split_top, find_matching, strip_generics
from .srcinfo import type_head
from .values import *


from .interp_api import PathEnd, Unmodelled, wrap


class Frame:
    __slots__ = ('body', 'locals', 'name', 'gen')

    def __init__(self, body, name, gen=None):
        self.body = body
        self.name = name
        self.gen = gen
        n = max(body.local_types) + 1 if body.local_types else 1
        self.locals = [UNINIT] * n


SLICE = object()   # pseudo owner: key is a SliceRef (unsized place)

F64_CONSTS = {
    'MIN': -1.7976931348623157e308, 'MAX': 1.7976931348623157e308, 'EPSILON': 2.220446049250313e-16,
    'INFINITY': float('inf'), 'NEG_INFINITY': float('-inf'), 'NAN': float('nan'), 'MIN_POSITIVE': 2.2250738585072014e-308,
}
F32_CONSTS = {
    'MIN': -3.4028234663852886e38, 'MAX': 3.4028234663852886e38, 'EPSILON': 1.1920928955078125e-07,
    'INFINITY': float('inf'), 'NEG_INFINITY': float('-inf'), 'NAN': float('nan'), 'MIN_POSITIVE': 1.1754943508222875e-38,
}


def deref_type(t):
    t = t.strip()
    m = re.match(r"^&\s*('\w+\s+)?(mut\s+)?(.*)$", t, re.S)
    if m:
        return m.group(3).strip()
    m = re.match(r'^\*(const|mut)\s+(.*)$', t, re.S)
    if m:
        return m.group(2).strip()
    m = re.match(r'^(?:std::boxed::|alloc::boxed::)?Box<(.*)>$', t, re.S)
    if m:
        return split_top(m.group(1))[0]
    return t


def elem_type(t):
    t = t.strip()
    if t.startswith('['):
        inner = t[1:find_matching(t, 0)]
        return split_top(inner, ';')[0].strip()
    return None


def float_sort(ty):
    return z3.Float64() if ty == 'f64' else z3.Float32()


RNE = z3.RNE()


class CandModel:
    """assignment found by candidate evaluation; mimics z3 ModelRef.eval"""

    def __init__(self, byid, subs):
        self.byid = byid
        self.subs = subs

    def eval(self, e, model_completion=True):
        return z3.simplify(z3.substitute(e, *self.subs))


class Interp:
    def __init__(self, prog, src, cfg):
        self.prog = prog
        self.src = src
        self.cfg = cfg
        self.solver = z3.Solver()
        self.solver.set('timeout', int(cfg.get('query_timeout_ms', 10000)))
        self.model = None
        self.pc = []
        self.lits = {}
        self.unproven = 0
        self.fp_arith = False
        self.cand_model = None
        self.inputs = []          # [(name, kind, bits, z3expr or concrete)]
        self.decisions = []
        self.obs = []
        self.covers = {}
        self.violations = []
        self.steps = 0
        self.queries = 0
        self.solver_s = 0.0
        self.forks = 0
        self.children = []
        self.holds_token = False
        self.is_root = True
        self.depth = 0
        self.nsym = 0
        self.max_steps = cfg.get('max_steps', 2_000_000)
        self.deadline = cfg.get('deadline', time.time() + 600)
        self.known = set(cfg.get('known', []))
        self.callstack = []
        self._build_impl_tables()
        from . import models
        self.models = models.REGISTRY
        self.models_mod = models
        self.const_cache = {}
        self.resolve_cache = {}
        self.concrete_inputs = cfg.get('concrete_inputs')   # list of ints -> concrete replay mode
        self.cin_pos = 0
        self.trusted = set()
        tr = os.environ.get('MIRSYM_TRACE')
        self.trace_re = re.compile(tr) if tr else None

    # ------------------------------------------------------------------ tables

    def _build_impl_tables(self):
        """(self_head, method) -> [fn names] for inherent impls; (trait, self_head, method) -> [(fn, trait_full, self_full)]"""
        self.inherent = {}
        self.traitimpl = {}
        self.closures = {}
        self.by_suffix = {}
        for name, b in self.prog.bodies.items():
            m = re.search(r'<impl at ([^>]*)>::(.*)$', name)
            if m:
                tr, head, trf, selff = self.src.impl_at(m.group(1))
                meth = m.group(2)
                if head is None:
                    continue
                if tr is None:
                    self.inherent.setdefault((head, meth), []).append(name)
                else:
                    self.traitimpl.setdefault((tr, head, meth), []).append((name, trf, selff))
            if b.arg_types and b.arg_types[0].lstrip('&').replace('mut ', '').strip().startswith('{closure@'):
                ct = b.arg_types[0]
                ct = re.sub(r"^&\s*('\w+\s+)?(mut\s+)?", '', ct.strip())
                self.closures.setdefault(ct, name)
            last2 = '::'.join(name.split('::')[-2:])
            self.by_suffix.setdefault(last2, []).append(name)

    # ------------------------------------------------------------------ solver helpers

    def check(self, extra=None, soft=False, timeout_ms=None):
        """sat? -> True/False; on solver timeout: PathEnd('inconclusive') unless soft (then None).
        A timeout is first retried by candidate evaluation (model finding by substitution)."""
        if time.time() > self.deadline:
            raise PathEnd('timeout', 'harness deadline reached')
        t0 = time.time()
        self.queries += 1
        self.cand_model = None
        if self.fp_arith:
            m = self.try_candidates(extra, tries=120)
            if m is not None:
                self.cand_model = m
                self.solver_s += time.time() - t0
                return True
        self.solver.set('timeout', int(timeout_ms or self.cfg.get('query_timeout_ms', 10000)))
        r = self.solver.check(extra) if extra is not None else self.solver.check()
        self.solver_s += time.time() - t0
        if r == z3.unknown:
            dd = os.environ.get('MIRSYM_DUMP_UNKNOWN')
            if dd:
                try:
                    os.makedirs(dd, exist_ok=True)
                    with open(os.path.join(dd, 'q%d_%d.smt2' % (os.getpid(), self.queries)), 'w') as f:
                        f.write('(set-logic ALL)\n' + self.solver.sexpr())
                        if extra is not None:
                            f.write('\n(assert ' + extra.sexpr() + ')')
                        f.write('\n(check-sat)\n')
                except Exception:
                    pass
            # the incremental solver uses z3's general SMT core; retry once from scratch (tactic-based, like the CLI)
            if not soft or self.cfg.get('fresh_on_soft', False):
                t1 = time.time()
                s2 = z3.Solver()
                s2.set('timeout', int(self.cfg.get('fresh_timeout_ms', 40000)))
                for c in self.pc:
                    s2.add(c)
                if extra is not None:
                    s2.add(extra)
                r2 = s2.check()
                self.solver_s += time.time() - t1
                self.queries += 1
                if r2 == z3.sat:
                    self.cand_model = s2.model()
                    return True
                if r2 == z3.unsat:
                    return False
            m = self.try_candidates(extra)
            if m is not None:
                self.cand_model = m
                return True
            if soft:
                return None
            raise PathEnd('inconclusive', 'solver returned unknown: %s' % self.solver.reason_unknown())
        return r == z3.sat

    def last_model(self):
        """model of the last successful check (solver model or candidate assignment)"""
        if self.cand_model is not None:
            return self.cand_model
        return self.solver.model()

    CAND_FP = [1.0, -1.0, 2.0, -2.0, 0.5, -0.5, 3.0, -7.25, 1e-6, -1e-6, 1e6, -1e6, 0.0, 1234.5678, -0.001, 100.0]
    CAND_BV = [0, 1, 2, 3, 7, 10, 34, 47, 92, 127, 128, 255, 256, 65535, 2 ** 31 - 1, 2 ** 31, 2 ** 32 - 1, 2 ** 63, 2 ** 64 - 1]

    def try_candidates(self, extra, tries=300):
        """model finding by evaluating the path condition (+extra) under candidate assignments; every hit is a genuine model"""
        import random
        rnd = random.Random(len(self.pc) * 7919 + len(self.inputs))
        vars_ = [(n, k, b, e) for (n, k, b, e) in self.inputs if not isinstance(e, int)]
        if not vars_ or len(vars_) > 24:
            return None
        conj = list(self.pc)
        if extra is not None:
            conj.append(extra)
        if not conj:
            return None
        goal = z3.And(*conj) if len(conj) > 1 else conj[0]
        t_end = time.time() + 5
        for t in range(tries):
            if time.time() > t_end:
                break
            subs = []
            for (n, k, b, e) in vars_:
                if k == 'f64':
                    v = z3.FPVal(rnd.choice(self.CAND_FP), z3.Float64())
                elif k == 'bool':
                    v = z3.BoolVal(rnd.random() < 0.5)
                else:
                    c = rnd.choice(self.CAND_BV) if rnd.random() < 0.7 else rnd.getrandbits(b)
                    v = z3.BitVecVal(c & ((1 << b) - 1), b)
                subs.append((e, v))
            try:
                r = z3.simplify(z3.substitute(goal, *subs))
            except z3.Z3Exception:
                return None
            if z3.is_true(r):
                return CandModel(dict((e.get_id(), v) for e, v in subs), subs)
        return None

    def get_model(self):
        if self.model is None:
            r = self.check()
            if not r:
                raise PathEnd('infeasible', 'path condition unsatisfiable')
            self.model = self.last_model()
        return self.model

    def add(self, e):
        self.solver.add(e)
        self.pc.append(e)
        self.lits[e.get_id()] = True
        if z3.is_not(e):
            self.lits[e.arg(0).get_id()] = False

    def lit_value(self, e):
        v = self.lits.get(e.get_id())
        if v is not None:
            return v
        if z3.is_not(e):
            v = self.lits.get(e.arg(0).get_id())
            if v is not None:
                return not v
        return None

    def eval_bool_in_model(self, e):
        if self.model is None and self.unproven:
            return None
        m = self.get_model()
        v = m.eval(e, model_completion=True)
        if z3.is_true(v):
            return True
        if z3.is_false(v):
            return False
        return None

    def decide(self, cond):
        """Turn a (possibly symbolic) bool into a python bool, forking when both sides are feasible.
        If the solver cannot decide feasibility within the (short) feasibility timeout, both sides are explored
        without proof (an over-approximation of the feasible paths: sound for 'no violation found')."""
        if cond is True or cond is False:
            return cond
        if type(cond) is not Sym:
            if isinstance(cond, int):
                return bool(cond)
            raise Unmodelled('decide on %r' % (cond,))
        e = z3.simplify(cond.e)
        if z3.is_true(e):
            return True
        if z3.is_false(e):
            return False
        lv = self.lit_value(e)
        if lv is not None:
            return lv
        ft = int(self.cfg.get('feas_timeout_ms', 3000))
        hard = False
        mv = self.eval_bool_in_model(e)
        if mv is None:
            r1 = self.check(e, soft=True, timeout_ms=ft)
            if r1 is None:
                hard = True
            elif r1:
                self.model = self.last_model()
                mv = True
            else:
                return False
        m2 = None
        if not hard:
            other = z3.Not(e) if mv else e
            r2 = self.check(other, soft=True, timeout_ms=ft)
            if r2 is None:
                hard = True
            elif not r2:
                return mv
            else:
                m2 = self.last_model()
        if hard:
            self.unproven += 1
            if self.fork():
                self.add(z3.Not(e))
                self.model = None
                self.decisions.append(0)
                return False
            self.add(e)
            self.model = None
            self.decisions.append(1)
            return True
        # both sides feasible -> fork
        if self.fork():
            self.add(other)
            self.model = m2
            self.decisions.append(0 if mv else 1)
            return not mv
        self.add(e if mv else z3.Not(e))
        self.decisions.append(1 if mv else 0)
        return mv

    def feasible(self, e):
        """is pathcond & e satisfiable? (no fork, no constraint added)"""
        e = z3.simplify(e)
        if z3.is_true(e):
            return True
        if z3.is_false(e):
            return False
        mv = self.eval_bool_in_model(e)
        if mv:
            return True
        r = self.check(e, soft=True)
        return bool(r)

    def assume(self, cond):
        if cond is True:
            return
        if cond is False:
            raise PathEnd('assume_false')
        e = z3.simplify(cond.e)
        if z3.is_true(e):
            return
        if z3.is_false(e):
            raise PathEnd('assume_false')
        mv = self.eval_bool_in_model(e)
        if not mv:
            if not self.check(e):
                raise PathEnd('assume_false')
            self.model = self.last_model()
        self.add(e)

    def concretize(self, v, bits=64, limit=300, what='value'):
        """concrete python int for a possibly symbolic integer; forks over the feasible values"""
        if type(v) is not Sym:
            return v
        e = z3.simplify(v.e)
        if z3.is_bv_value(e):
            return e.as_long()
        n = 0
        while True:
            m = self.get_model()
            val = m.eval(e, model_completion=True).as_long()
            ne = e != z3.BitVecVal(val, e.size())
            if not self.check(ne):
                return val
            m2 = self.last_model()
            n += 1
            if n > limit:
                raise PathEnd('inconclusive', 'too many feasible values while concretising %s' % what)
            if self.fork():
                # child continues enumerating the other values
                self.add(ne)
                self.model = m2
                self.decisions.append(('ne', val))
                continue
            self.add(e == z3.BitVecVal(val, e.size()))
            self.decisions.append(('eq', val))
            return val

    # ------------------------------------------------------------------ forking

    def fork(self):
        """returns True in the child"""
        if self.concrete_inputs is not None:
            raise PathEnd('error', 'fork in concrete mode')
        sys.stdout.flush()
        sys.stderr.flush()
        sem = self.cfg['sem']
        got = sem.acquire(block=False)
        self.forks += 1
        pid = os.fork()
        if pid == 0:
            self.children = []
            self.holds_token = got
            self.is_root = False
            self.depth += 1
            self.forks = 0
            self.violations = []
            return True
        if got:
            self.children.append(pid)
        else:
            os.waitpid(pid, 0)
        return False

    def finish(self, status, detail=''):
        """record this path; wait for children; exit unless root"""
        rec = {
            'status': status, 'detail': str(detail)[:2000], 'steps': self.steps, 'queries': self.queries,
            'solver_s': round(self.solver_s, 4), 'depth': self.depth, 'nsym': self.nsym,
            'violations': self.violations, 'covers': self.covers, 'ndec': len(self.decisions), 'unproven': self.unproven,
        }
        want_inputs = status in ('ok', 'panic', 'violation', 'steplimit') or self.violations
        if want_inputs:
            try:
                if self.model is None:
                    r = self.check(None, soft=True, timeout_ms=int(self.cfg.get('feas_timeout_ms', 3000)))
                    if r:
                        self.model = self.last_model()
                    else:
                        raise Exception('no model for this path (solver gave up)')
                rec['inputs'] = self.input_vector()
                rec['obs'] = self.eval_obs()
            except Exception as ex:
                rec['inputs_error'] = str(ex)
        if self.cfg.get('export_smt') and status in ('ok', 'panic', 'violation'):
            try:
                rec['export'] = self.export_path(self.cfg['export_smt'])
            except Exception as ex:
                rec['export_error'] = str(ex)[:300]
        line = json.dumps(rec, default=str) + '\n'
        os.write(self.cfg['results_fd'], line.encode())
        for pid in self.children:
            try:
                os.waitpid(pid, 0)
            except ChildProcessError:
                pass
        if not self.is_root:
            if self.holds_token:
                self.cfg['sem'].release()
            os._exit(0)

    def export_path(self, tag):
        """relational checks (two builds of the crate): the path as data - shape of the input vector, the path
        condition and the observations as one SMT-LIB2 text. Observation k item j is the constant o<tag>_<k>_<j>."""
        shape = []
        for (name, kind, bits, e) in self.inputs:
            shape.append(['c', int(e)] if isinstance(e, int) else [kind, bits])
        s = z3.Solver()
        for c in self.pc:
            s.add(c)
        layout = []
        for k, o in enumerate(self.obs):
            items = o if isinstance(o, list) else [o]
            row = []
            for j, x in enumerate(items):
                if type(x) is Sym:
                    e = x.e
                    if z3.is_bool(e):
                        e = z3.If(e, z3.BitVecVal(1, 8), z3.BitVecVal(0, 8))
                    if z3.is_fp(e):
                        e = z3.fpToIEEEBV(e)
                    nm = 'o%s_%d_%d' % (tag, k, j)
                    s.add(z3.BitVec(nm, e.size()) == e)
                    row.append(['s', nm, e.size()])
                elif isinstance(x, float):
                    row.append(['v', struct.unpack('<Q', struct.pack('<d', x))[0]])
                else:
                    row.append(['v', int(x)])
            layout.append({'list': isinstance(o, list), 'items': row})
        return {'shape': shape, 'smt': s.sexpr(), 'obs': layout}

    def input_vector(self, model=None):
        if self.concrete_inputs is not None:
            return list(self.concrete_inputs[:self.cin_pos])
        m = model or self.get_model()
        out = []
        for (name, kind, bits, e) in self.inputs:
            if isinstance(e, int):
                out.append(e)
            elif kind == 'bool':
                out.append(1 if z3.is_true(m.eval(e, model_completion=True)) else 0)
            elif kind == 'f64':
                bv = m.eval(z3.fpToIEEEBV(e), model_completion=True)
                out.append(bv.as_long() if z3.is_bv_value(bv) else 0)
            else:
                out.append(m.eval(e, model_completion=True).as_long())
        return out

    def eval_obs(self, model=None):
        m = None
        out = []
        for o in self.obs:
            if type(o) is Sym:
                if m is None:
                    m = model or self.get_model()
                v = m.eval(o.e, model_completion=True)
                if z3.is_bv_value(v):
                    out.append(v.as_long())
                elif z3.is_true(v) or z3.is_false(v):
                    out.append(1 if z3.is_true(v) else 0)
                else:
                    out.append(str(v))
            elif isinstance(o, list):
                r = []
                for x in o:
                    if type(x) is Sym:
                        if m is None:
                            m = model or self.get_model()
                        r.append(m.eval(x.e, model_completion=True).as_long())
                    else:
                        r.append(x)
                out.append(r)
            else:
                out.append(o)
        return out

    # ------------------------------------------------------------------ violations

    def report(self, kind, msg, extra_cond=None):
        """record a property violation (assert / panic) with a concrete input vector"""
        model = None
        if extra_cond is not None:
            if not self.check(extra_cond):
                return False
            model = self.last_model()
        elif self.concrete_inputs is None and self.inputs and self.model is None:
            # a violation on a path whose feasibility was never proven: prove it now or drop the path
            r = self.check()
            if not r:
                raise PathEnd('infeasible', 'path condition unsatisfiable')
            self.model = self.last_model()
        where = ' <- '.join(reversed(self.callstack[-6:]))
        v = {'kind': kind, 'msg': msg[:300], 'where': where}
        try:
            v['inputs'] = self.input_vector(model)
        except Exception as ex:
            v['inputs_error'] = str(ex)
        self.violations.append(v)
        return True

    def require(self, good, kind, msg, end_status='panic'):
        """`good` (z3 Bool) must hold: report a violation if it can fail, then continue on the side where it holds"""
        good = z3.simplify(good)
        if z3.is_true(good):
            return
        lv = self.lit_value(good)
        if lv is True:
            return
        if z3.is_false(good) or lv is False:
            self.report(kind, msg)
            raise PathEnd(end_status, msg)
        if self.report(kind, msg, z3.Not(good)):
            self.model = None
        r = self.check(good)
        if not r:
            raise PathEnd(end_status, msg)
        self.model = self.last_model()
        self.add(good)

    # ------------------------------------------------------------------ symbols

    def fresh(self, kind, bits):
        if self.concrete_inputs is not None:
            if self.cin_pos >= len(self.concrete_inputs):
                raise PathEnd('error', 'concrete input vector exhausted')
            v = self.concrete_inputs[self.cin_pos]
            self.cin_pos += 1
            if kind == 'bool':
                return bool(v)
            if kind == 'f64':
                return struct.unpack('<d', struct.pack('<Q', v & (2 ** 64 - 1)))[0]
            signed = kind.startswith('i')
            return wrap(v, bits, signed)
        name = 'v%d' % len(self.inputs)
        self.nsym += 1
        if kind == 'bool':
            e = z3.Bool(name)
        elif kind == 'f64':
            e = z3.FP(name, z3.Float64())
        else:
            e = z3.BitVec(name, bits)
        self.inputs.append((name, kind, bits, e))
        self.model = None
        return Sym(e)

    def record_concrete_input(self, v):
        self.inputs.append(('c%d' % len(self.inputs), 'c', 64, int(v)))

    # ------------------------------------------------------------------ types

    def place_type(self, body, place):
        t = body.local_types.get(place.local)
        for p in place.proj:
            k = p[0]
            if t is None:
                return None
            if k == 'deref':
                t = deref_type(t)
            elif k == 'field':
                t = p[2]
            elif k in ('index', 'constindex'):
                t = elem_type(t)
        return t

    def operand_type(self, body, op):
        if op.kind == 'const':
            c = op.const
            if c[0] == 'int':
                return c[2]
            if c[0] == 'bool':
                return 'bool'
            if c[0] == 'char':
                return 'char'
            if c[0] == 'float':
                return c[2]
            if c[0] == 'named':
                s = c[1]
                if 'f64' in s:
                    return 'f64'
                if 'f32' in s:
                    return 'f32'
                m = re.search(r'<impl (\w+)>::', s) or re.match(r'^(\w+)::(MAX|MIN)$', s)
                if m and m.group(1) in INT_TYPES:
                    return m.group(1)
            return None
        return self.place_type(body, op.place)

    # ------------------------------------------------------------------ places

    def resolve(self, fr, place):
        owner = fr.locals
        key = place.local
        for p in place.proj:
            k = p[0]
            if k == 'deref':
                v = owner[key]
                tv = type(v)
                if tv is Ref:
                    owner, key = v.owner, v.key
                elif tv is SliceRef:
                    owner, key = SLICE, v
                elif tv is BoxV:
                    owner, key = v.fields, 0
                else:
                    raise Unmodelled('deref of %r in %s (%s)' % (v, fr.name, place.text))
            elif k == 'field':
                if owner is SLICE:
                    raise Unmodelled('field of unsized place ' + place.text)
                v = owner[key]
                if type(v) is BoxV:
                    # Box internals (Unique / NonNull / pointer): stay on the box; the pointer is recovered by transmute
                    continue
                try:
                    owner, key = v.fields, p[1]
                except AttributeError:
                    raise Unmodelled('field %d of %r in %s (%s)' % (p[1], v, fr.name, place.text))
                if key >= len(owner):
                    raise Unmodelled('field %d out of range of %r (%s)' % (p[1], v, place.text))
            elif k == 'downcast':
                pass
            elif k == 'index':
                idx = fr.locals[p[1]]
                if owner is SLICE:
                    sl = key
                    base, off, n = sl.arr.elems, sl.start, sl.length
                else:
                    v = owner[key]
                    base, off, n = v.elems, 0, len(v.elems)
                if type(idx) is Sym:
                    idx = self.concretize(idx, 64, what='index')
                if idx < 0 or idx >= n:
                    raise PathEnd('panic', 'index out of bounds (unchecked) %d of %d at %s' % (idx, n, place.text))
                owner, key = base, off + idx
            elif k == 'constindex':
                if owner is SLICE:
                    sl = key
                    base, off, n = sl.arr.elems, sl.start, sl.length
                else:
                    v = owner[key]
                    base, off, n = v.elems, 0, len(v.elems)
                i = (n - p[1]) if p[3] else p[1]
                owner, key = base, off + i
            elif k == 'subslice':
                if owner is SLICE:
                    sl = key
                    arr, off, n = sl.arr, sl.start, sl.length
                    is_str = sl.is_str
                else:
                    arr = owner[key]
                    off, n, is_str = 0, len(arr.elems), False
                frm = p[1]
                to = (n - p[2]) if p[3] else p[2]
                owner, key = SLICE, SliceRef(arr, off + frm, to - frm, is_str)
            else:
                raise Unmodelled('projection ' + str(p))
        return owner, key

    def read_place(self, fr, place):
        if not place.proj:
            return fr.locals[place.local]
        # symbolic index on scalars: if-then-else chain instead of forking
        last = place.proj[-1]
        if last[0] == 'index' and type(fr.locals[last[1]]) is Sym:
            sub = mir.Place(place.local, place.proj[:-1], place.text)
            owner, key = self.resolve(fr, sub)
            if owner is SLICE:
                items = key.items()
            else:
                items = owner[key].elems
            idx = fr.locals[last[1]].e
            if items and all(isinstance(x, int) or (type(x) is Sym and z3.is_bv(x.e)) for x in items):
                bits = None
                for x in items:
                    if type(x) is Sym:
                        bits = x.e.size()
                if bits is None:
                    t = self.place_type(fr.body, place)
                    bits = INT_TYPES.get(t, (8, False))[0]
                res = self.to_bv(items[-1], bits)
                for i in range(len(items) - 2, -1, -1):
                    res = z3.If(idx == z3.BitVecVal(i, idx.size()), self.to_bv(items[i], bits), res)
                return Sym(z3.simplify(res))
        owner, key = self.resolve(fr, place)
        if owner is SLICE:
            return key
        return owner[key]

    def write_place(self, fr, place, v):
        if not place.proj:
            fr.locals[place.local] = v
            return
        owner, key = self.resolve(fr, place)
        if owner is SLICE:
            raise Unmodelled('write to unsized place')
        owner[key] = v

    def eval_operand(self, fr, op):
        k = op.kind
        if k == 'move':
            return self.read_place(fr, op.place)
        if k == 'copy':
            v = self.read_place(fr, op.place)
            t = type(v)
            if t is Adt or t is Arr:
                return clone_shallow_copy(v)
            return v
        return self.eval_const(fr, op.const)

    # ------------------------------------------------------------------ constants

    def eval_const(self, fr, c):
        k = c[0]
        if k == 'int':
            return c[1]
        if k == 'bool':
            return c[1]
        if k == 'unit':
            return unit()
        if k == 'str':
            b = c[1]
            return SliceRef(StrLit(list(b)), 0, len(b), True)
        if k == 'bytes':
            b = c[1]
            return Ref([Arr(list(b))], 0)
        if k == 'char':
            return c[1]
        if k == 'float':
            return c[1]
        if k == 'named':
            return self.eval_named_const(fr, c[1])
        raise Unmodelled('const ' + str(c))

    def eval_named_const(self, fr, s):
        if fr is not None and fr.gen:
            s = self.subst_generics(s, fr.gen)
        if s.startswith('ZeroSized: '):
            s = s[11:].strip()
            if s.startswith('{closure@'):
                return Adt(s, None, [])
        m = re.match(r'^core::(f64|f32)::<impl f\d+>::(\w+)$', s) or re.match(r'^(f64|f32)::(\w+)$', s)
        if m:
            tab = F64_CONSTS if m.group(1) == 'f64' else F32_CONSTS
            if m.group(2) in tab:
                return tab[m.group(2)]
        m = re.match(r'^(?:core::num::<impl (\w+)>|(\w+))::(MAX|MIN|BITS)$', s)
        if m:
            t = m.group(1) or m.group(2)
            if t in INT_TYPES:
                bits, signed = INT_TYPES[t]
                if m.group(3) == 'BITS':
                    return bits
                if m.group(3) == 'MAX':
                    return (1 << (bits - 1)) - 1 if signed else (1 << bits) - 1
                return -(1 << (bits - 1)) if signed else 0
        if s == 'std::path::MAIN_SEPARATOR':
            return ord('/')
        if s.startswith(('PhantomData', 'BuildHasherDefault', 'std::marker::PhantomData', 'std::alloc::Global', 'RandomState')):
            return Opaque(s.split('::')[0])
        if s.endswith('SizedTypeProperties>::ALIGN') or s.endswith('SizedTypeProperties>::SIZE'):
            return 1
        if 'MaybeUninit' in s:
            return Opaque('MaybeUninit')
        # enum unit variants / unit structs printed as constants:  Option::<Infallible>::None, VarNamingTag::Numeric
        sg = strip_generics(s)
        segs = sg.split('::')
        if len(segs) >= 2:
            en = self.enum_variants(segs[-2])
            if en and any(v == segs[-1] for v, _ in en):
                return Adt(segs[-2], segs[-1], [])
        # crate constants and promoteds
        name = self.resolve_const_name(s)
        if name is not None:
            if name in self.const_cache:
                return self.const_value_copy(self.const_cache[name])
            b = self.prog.get(name)
            if b.kind == 'constval':
                v = self.eval_operand(None, mir.parse_operand(b.lines[0]))
            else:
                v = self.exec_body(b, name, [])
            self.const_cache[name] = v
            return self.const_value_copy(v)
        if sg.split('::')[-1] in ('RangeFull',):
            return Adt('RangeFull', None, [])
        # function item
        return FnRef(s)

    def const_value_copy(self, v):
        t = type(v)
        if t is Adt or t is Arr:
            return clone_shallow_copy(v)
        return v

    def resolve_const_name(self, s):
        if s in self.prog.bodies and self.prog.bodies[s].kind in ('const', 'constval'):
            return s
        # <X as Trait>::method::promoted[0] | <X as Trait>::method::CONST | path::promoted[N]
        m = re.match(r'^(.*)::((?:promoted\[\d+\])|(?:[A-Z][A-Z0-9_]*)|(?:\{constant#\d+\}))$', s)
        if m:
            prefix, last = m.group(1), m.group(2)
            # promoteds of closures: path::{closure#N}[::{closure#M}]::promoted[K] -> resolve the enclosing fn first
            mc = re.match(r'^(.*?)((?:::\{closure#\d+\})+)$', prefix)
            base, clos = (mc.group(1), mc.group(2)) if mc else (prefix, '')
            for bs, cl in ((prefix, ''), (base, clos)):
                if bs in self.prog.bodies or bs.startswith('<') or '::' in bs:
                    try:
                        fn = self.resolve_static(bs)
                    except Unmodelled:
                        fn = None
                    if fn and (fn + cl + '::' + last) in self.prog.bodies:
                        return fn + cl + '::' + last
            # inner constant of a generic method: X::CONST where X is an fn
            cand = [n for n in self.prog.bodies if n.endswith('::' + prefix.split('::')[-1] + '::' + last)]
            if len(cand) == 1:
                return cand[0]
        cand = self.by_suffix.get('::'.join(s.split('::')[-2:]))
        if cand and len(cand) == 1 and self.prog.bodies[cand[0]].kind in ('const', 'constval'):
            return cand[0]
        last = s.split('::')[-1]
        if last in self.prog.bodies and self.prog.bodies[last].kind in ('const', 'constval') and re.match(r'^[A-Z][A-Z0-9_]*$', last):
            return last
        return None

    def enum_variants(self, name):
        return BUILTIN_ENUMS.get(name) or self.src.enums.get(name)

    # ------------------------------------------------------------------ scalar operations

    def to_bv(self, v, bits):
        if type(v) is Sym:
            e = v.e
            if z3.is_bool(e):
                return z3.If(e, z3.BitVecVal(1, bits), z3.BitVecVal(0, bits))
            return e
        if v is True or v is False:
            return z3.BitVecVal(1 if v else 0, bits)
        return z3.BitVecVal(v & ((1 << bits) - 1), bits)

    def to_fp(self, v, ty):
        if type(v) is Sym:
            return v.e
        return z3.FPVal(v, float_sort(ty))

    def to_boolz(self, v):
        if type(v) is Sym:
            return v.e
        return z3.BoolVal(bool(v))

    def binop(self, op, a, b, ty):
        sa, sb = type(a) is Sym, type(b) is Sym
        if ty in INT_TYPES:
            bits, signed = INT_TYPES[ty]
            if not sa and not sb:
                return self.binop_int_concrete(op, a, b, bits, signed)
            if op in ('Shl', 'Shr', 'ShlUnchecked', 'ShrUnchecked'):
                x = self.to_bv(a, bits)
                if sb:
                    y = b.e
                    if y.size() < bits:
                        y = z3.ZeroExt(bits - y.size(), y)
                    elif y.size() > bits:
                        y = z3.Extract(bits - 1, 0, y)
                else:
                    y = z3.BitVecVal(b, bits)
                y = y & z3.BitVecVal(bits - 1, bits)
                if op.startswith('Shl'):
                    return Sym(x << y)
                return Sym((x >> y) if signed else z3.LShR(x, y))
            x = self.to_bv(a, bits)
            y = self.to_bv(b, bits)
            if op in ('Add', 'AddUnchecked'):
                return Sym(x + y)
            if op in ('Sub', 'SubUnchecked'):
                return Sym(x - y)
            if op in ('Mul', 'MulUnchecked'):
                return Sym(x * y)
            if op == 'Div':
                return Sym((x / y) if signed else z3.UDiv(x, y))
            if op == 'Rem':
                return Sym(z3.SRem(x, y) if signed else z3.URem(x, y))
            if op == 'BitAnd':
                return Sym(x & y)
            if op == 'BitOr':
                return Sym(x | y)
            if op == 'BitXor':
                return Sym(x ^ y)
            if op == 'Eq':
                return Sym(x == y)
            if op == 'Ne':
                return Sym(x != y)
            if op == 'Lt':
                return Sym((x < y) if signed else z3.ULT(x, y))
            if op == 'Le':
                return Sym((x <= y) if signed else z3.ULE(x, y))
            if op == 'Gt':
                return Sym((x > y) if signed else z3.UGT(x, y))
            if op == 'Ge':
                return Sym((x >= y) if signed else z3.UGE(x, y))
            if op in ('AddWithOverflow', 'SubWithOverflow', 'MulWithOverflow'):
                return self.overflow_op(op, a, b, x, y, bits, signed)
            if op == 'Cmp':
                lt = Sym((x < y) if signed else z3.ULT(x, y))
                if self.decide(lt):
                    return Adt('Ordering', 'Less', [])
                if self.decide(Sym(x == y)):
                    return Adt('Ordering', 'Equal', [])
                return Adt('Ordering', 'Greater', [])
            raise Unmodelled('int binop ' + op)
        if ty == 'bool':
            if not sa and not sb:
                a, b = bool(a), bool(b)
                return {'Eq': a == b, 'Ne': a != b, 'BitAnd': a and b, 'BitOr': a or b, 'BitXor': a != b,
                        'Lt': a < b, 'Le': a <= b, 'Gt': a > b, 'Ge': a >= b}[op]
            x, y = self.to_boolz(a), self.to_boolz(b)
            if op == 'Eq':
                return Sym(x == y)
            if op in ('Ne', 'BitXor'):
                return Sym(z3.Xor(x, y))
            if op == 'BitAnd':
                return Sym(z3.And(x, y))
            if op == 'BitOr':
                return Sym(z3.Or(x, y))
            raise Unmodelled('bool binop ' + op)
        if ty in ('f32', 'f64'):
            if not sa and not sb:
                return self.binop_float_concrete(op, a, b, ty)
            x, y = self.to_fp(a, ty), self.to_fp(b, ty)
            if op in ('Add', 'Sub', 'Mul', 'Div'):
                self.fp_arith = True
            if op == 'Add':
                return Sym(z3.fpAdd(RNE, x, y))
            if op == 'Sub':
                return Sym(z3.fpSub(RNE, x, y))
            if op == 'Mul':
                return Sym(z3.fpMul(RNE, x, y))
            if op == 'Div':
                return Sym(z3.fpDiv(RNE, x, y))
            if op == 'Eq':
                return Sym(z3.fpEQ(x, y))
            if op == 'Ne':
                return Sym(z3.Not(z3.fpEQ(x, y)))
            if op == 'Lt':
                return Sym(z3.fpLT(x, y))
            if op == 'Le':
                return Sym(z3.fpLEQ(x, y))
            if op == 'Gt':
                return Sym(z3.fpGT(x, y))
            if op == 'Ge':
                return Sym(z3.fpGEQ(x, y))
            raise Unmodelled('float binop ' + op)
        if ty is not None and ty.startswith(('*const', '*mut', '&')) and op in ('Eq', 'Ne'):
            same = (type(a) is type(b)) and (
                (type(a) is Ref and a.owner is b.owner and a.key == b.key) or
                (type(a) is SliceRef and a.arr is b.arr and a.start == b.start and a.length == b.length))
            return same if op == 'Eq' else not same
        raise Unmodelled('binop %s on type %s (%r, %r)' % (op, ty, a, b))

    def overflow_op(self, op, a, b, x, y, bits, signed):
        """(result, overflowed) with cheap range predicates when one operand is a constant"""
        lo = -(1 << (bits - 1)) if signed else 0
        hi = (1 << (bits - 1)) - 1 if signed else (1 << bits) - 1

        def bv(v):
            return z3.BitVecVal(v & ((1 << bits) - 1), bits)

        def within(e, l, h):
            # l <= e <= h in the type's order (l, h python ints inside the type's range)
            if l > h:
                return z3.BoolVal(False)
            if signed:
                return z3.And(e >= bv(l), e <= bv(h))
            return z3.And(z3.UGE(e, bv(l)), z3.ULE(e, bv(h)))
        ca = a if type(a) is not Sym else None
        cb = b if type(b) is not Sym else None
        if op == 'AddWithOverflow':
            res = x + y
            if cb is not None or ca is not None:
                c, e = (cb, x) if cb is not None else (ca, y)
                ok = within(e, max(lo, lo - c), min(hi, hi - c))
            else:
                ok = z3.And(z3.BVAddNoOverflow(x, y, signed), z3.BVAddNoUnderflow(x, y)) if signed else z3.BVAddNoOverflow(x, y, False)
        elif op == 'SubWithOverflow':
            res = x - y
            if cb is not None:
                ok = within(x, max(lo, lo + cb), min(hi, hi + cb))
            elif ca is not None:
                # ca - y in [lo,hi]  <=>  ca-hi <= y <= ca-lo
                ok = within(y, max(lo, ca - hi), min(hi, ca - lo))
            else:
                ok = z3.And(z3.BVSubNoOverflow(x, y), z3.BVSubNoUnderflow(x, y, True)) if signed else z3.BVSubNoUnderflow(x, y, False)
        else:
            res = x * y
            if cb is not None or ca is not None:
                c, e = (cb, x) if cb is not None else (ca, y)
                if c == 0:
                    ok = z3.BoolVal(True)
                elif c > 0:
                    l = -((-lo) // c) if lo < 0 else 0
                    ok = within(e, l, hi // c)
                else:
                    # negative constant (signed only): e*c in [lo,hi] <=> ceil(hi/c) <= e <= floor(lo/c)
                    import math as _m
                    l = max(lo, -(hi // (-c)))
                    h = min(hi, (-lo) // (-c))
                    ok = within(e, l, h)
            else:
                ok = z3.And(z3.BVMulNoOverflow(x, y, signed), z3.BVMulNoUnderflow(x, y)) if signed else z3.BVMulNoOverflow(x, y, False)
        return Tup([Sym(res), Sym(z3.Not(ok))])

    def binop_int_concrete(self, op, a, b, bits, signed):
        if a is True or a is False:
            a = int(a)
        if b is True or b is False:
            b = int(b)
        if op in ('Add', 'AddUnchecked'):
            return wrap(a + b, bits, signed)
        if op in ('Sub', 'SubUnchecked'):
            return wrap(a - b, bits, signed)
        if op in ('Mul', 'MulUnchecked'):
            return wrap(a * b, bits, signed)
        if op == 'Div':
            if b == 0:
                raise PathEnd('panic', 'division by zero (unchecked)')
            q = abs(a) // abs(b)
            if (a < 0) != (b < 0):
                q = -q
            return wrap(q, bits, signed)
        if op == 'Rem':
            if b == 0:
                raise PathEnd('panic', 'remainder by zero (unchecked)')
            r = abs(a) % abs(b)
            if a < 0:
                r = -r
            return wrap(r, bits, signed)
        if op == 'BitAnd':
            return wrap(a & b, bits, signed)
        if op == 'BitOr':
            return wrap(a | b, bits, signed)
        if op == 'BitXor':
            return wrap(a ^ b, bits, signed)
        if op in ('Shl', 'ShlUnchecked'):
            return wrap(a << (b & (bits - 1)), bits, signed)
        if op in ('Shr', 'ShrUnchecked'):
            sh = b & (bits - 1)
            if signed:
                return wrap(a >> sh, bits, True)
            return (a & ((1 << bits) - 1)) >> sh
        if op == 'Eq':
            return a == b
        if op == 'Ne':
            return a != b
        if op == 'Lt':
            return a < b
        if op == 'Le':
            return a <= b
        if op == 'Gt':
            return a > b
        if op == 'Ge':
            return a >= b
        if op == 'Cmp':
            return Adt('Ordering', 'Less' if a < b else ('Equal' if a == b else 'Greater'), [])
        if op in ('AddWithOverflow', 'SubWithOverflow', 'MulWithOverflow'):
            r = a + b if op[0] == 'A' else (a - b if op[0] == 'S' else a * b)
            w = wrap(r, bits, signed)
            return Tup([w, w != r])
        raise Unmodelled('int binop ' + op)

    def binop_float_concrete(self, op, a, b, ty):
        f32 = ty == 'f32'

        def rnd(x):
            if f32:
                try:
                    return struct.unpack('<f', struct.pack('<f', x))[0]
                except OverflowError:
                    return math.copysign(float('inf'), x)
            return x
        try:
            if op == 'Add':
                return rnd(a + b)
            if op == 'Sub':
                return rnd(a - b)
            if op == 'Mul':
                return rnd(a * b)
            if op == 'Div':
                if b == 0:
                    if a == 0 or a != a:
                        return float('nan')
                    return math.copysign(float('inf'), a) * math.copysign(1.0, b)
                return rnd(a / b)
        except OverflowError:
            return float('inf')
        if op == 'Eq':
            return a == b
        if op == 'Ne':
            return a != b
        if op == 'Lt':
            return a < b
        if op == 'Le':
            return a <= b
        if op == 'Gt':
            return a > b
        if op == 'Ge':
            return a >= b
        raise Unmodelled('float binop ' + op)

    def unop(self, op, a, ty):
        if op == 'Not':
            if ty == 'bool' or a is True or a is False or (type(a) is Sym and z3.is_bool(a.e)):
                if type(a) is Sym:
                    return Sym(z3.Not(a.e))
                return not a
            bits, signed = INT_TYPES[ty]
            if type(a) is Sym:
                return Sym(~a.e)
            return wrap(~a, bits, signed)
        if op == 'Neg':
            if ty in ('f32', 'f64'):
                if type(a) is Sym:
                    return Sym(z3.fpNeg(a.e))
                return -a
            bits, signed = INT_TYPES[ty]
            if type(a) is Sym:
                return Sym(-a.e)
            return wrap(-a, bits, signed)
        if op == 'PtrMetadata':
            if type(a) is SliceRef:
                return a.length
            if type(a) is Ref:
                v = a.get()
                if hasattr(v, 'elems'):
                    return len(v.elems)
                return unit()
            raise Unmodelled('PtrMetadata of %r' % (a,))
        raise Unmodelled('unop ' + op)

    def cast(self, v, src_ty, dst_ty, kind):
        if kind.startswith('PointerCoercion'):
            if 'Unsize' in kind:
                if type(v) is Ref:
                    tgt = v.get()
                    if type(tgt) is Arr:
                        return SliceRef(tgt, 0, len(tgt.elems))
                return v
            if 'ReifyFnPointer' in kind or 'ClosureFnPointer' in kind:
                return v
            return v
        if kind in ('PtrToPtr', 'FnPtrToPtr', 'Transmute', 'Subtype'):
            if kind == 'Transmute':
                return self.transmute(v, src_ty, dst_ty)
            return v
        if kind == 'IntToInt':
            sb, ss = INT_TYPES.get(src_ty, (None, None)) if src_ty != 'bool' else (1, False)
            db, ds = INT_TYPES[dst_ty] if dst_ty in INT_TYPES else (None, None)
            if db is None:
                raise Unmodelled('cast to ' + dst_ty)
            if type(v) is Sym:
                e = v.e
                if z3.is_bool(e):
                    return Sym(z3.If(e, z3.BitVecVal(1, db), z3.BitVecVal(0, db)))
                cur = e.size()
                if db > cur:
                    return Sym(z3.SignExt(db - cur, e) if ss else z3.ZeroExt(db - cur, e))
                if db < cur:
                    return Sym(z3.Extract(db - 1, 0, e))
                return v
            if v is True or v is False:
                v = int(v)
            return wrap(v, db, ds)
        if kind == 'IntToFloat':
            if type(v) is Sym:
                sb, ss = INT_TYPES[src_ty]
                return Sym(z3.fpSignedToFP(RNE, v.e, float_sort(dst_ty)) if ss else z3.fpUnsignedToFP(RNE, v.e, float_sort(dst_ty)))
            r = float(v)
            if dst_ty == 'f32':
                r = struct.unpack('<f', struct.pack('<f', r))[0]
            return r
        if kind == 'FloatToFloat':
            if type(v) is Sym:
                return Sym(z3.fpFPToFP(RNE, v.e, float_sort(dst_ty)))
            if dst_ty == 'f32':
                try:
                    return struct.unpack('<f', struct.pack('<f', v))[0]
                except OverflowError:
                    return math.copysign(float('inf'), v)
            return v
        if kind == 'FloatToInt':
            db, ds = INT_TYPES[dst_ty]
            if type(v) is Sym:
                # saturating semantics approximated by the SMT conversion (RTZ); NaN -> 0 is not modelled
                return Sym(z3.fpToSBV(z3.RTZ(), v.e, z3.BitVecSort(db)) if ds else z3.fpToUBV(z3.RTZ(), v.e, z3.BitVecSort(db)))
            if v != v:
                return 0
            lo = -(1 << (db - 1)) if ds else 0
            hi = (1 << (db - 1)) - 1 if ds else (1 << db) - 1
            if v == float('inf'):
                return hi
            if v == float('-inf'):
                return lo
            return max(lo, min(hi, int(v)))
        raise Unmodelled('cast kind %s (%s -> %s)' % (kind, src_ty, dst_ty))

    def transmute(self, v, src_ty, dst_ty):
        if type(v) is Adt and len(v.fields) == 1 and type(v.fields[0]) in (Ref, SliceRef) and dst_ty.startswith('*'):
            return v.fields[0]
        if type(v) is BoxV and dst_ty.startswith('*'):
            return Ref(v.fields, 0)
        if dst_ty == 'usize' and not isinstance(v, (int, float)) and type(v) is not Sym:
            return 0x10000
        if src_ty == 'f64' and dst_ty == 'u64':
            if type(v) is Sym:
                return Sym(z3.fpToIEEEBV(v.e))
            return struct.unpack('<Q', struct.pack('<d', v))[0]
        if src_ty == 'u64' and dst_ty == 'f64':
            if type(v) is Sym:
                return Sym(z3.fpBVToFP(v.e, z3.Float64()))
            return struct.unpack('<d', struct.pack('<Q', v))[0]
        return v

    # ------------------------------------------------------------------ rvalues

    def eval_rvalue(self, fr, rv):
        k = rv.kind
        if k == 'use':
            return self.eval_operand(fr, rv.a)
        if k == 'ref':
            place = rv.a
            if not place.proj:
                return Ref(fr.locals, place.local)
            owner, key = self.resolve(fr, place)
            if owner is SLICE:
                return key
            return Ref(owner, key)
        if k == 'binop':
            if rv.cache is None:
                rv.cache = self.operand_type(fr.body, rv.b) or self.operand_type(fr.body, rv.c)
            a = self.eval_operand(fr, rv.b)
            b = self.eval_operand(fr, rv.c)
            ty = rv.cache
            if ty is None or (ty not in INT_TYPES and ty not in ('bool', 'f32', 'f64') and not ty.startswith(('*', '&'))):
                ty = self.guess_type(a, b, ty)
            return self.binop(rv.a, a, b, ty)
        if k == 'unop':
            if rv.cache is None:
                rv.cache = self.operand_type(fr.body, rv.b) or '?'
            return self.unop(rv.a, self.eval_operand(fr, rv.b), rv.cache)
        if k == 'cast':
            if rv.cache is None:
                rv.cache = self.operand_type(fr.body, rv.a) or '?'
            return self.cast(self.eval_operand(fr, rv.a), rv.cache, rv.b, rv.c)
        if k == 'discriminant':
            v = self.read_place(fr, rv.a)
            if v is UNINIT:
                # rustc elides the copy of a single-variant (zero-sized) enum: its discriminant is a constant
                t = self.place_type(fr.body, rv.a)
                en = self.enum_variants(strip_generics(t).split('::')[-1]) if t else None
                if en and len(en) == 1:
                    return en[0][1]
            return self.discriminant_of(v)
        if k == 'tuple':
            return Tup([self.eval_operand(fr, o) for o in rv.a])
        if k == 'array':
            return Arr([self.eval_operand(fr, o) for o in rv.a])
        if k == 'repeat':
            n = rv.b
            m = re.match(r'^(?:const )?(\d+)(?:_usize)?$', n)
            if m:
                cnt = int(m.group(1))
            else:
                cnt = self.eval_operand(fr, mir.parse_operand(n if n.startswith('const') else 'const ' + n))
            v = self.eval_operand(fr, rv.a)
            return Arr([clone_shallow_copy(v) for _ in range(cnt)])
        if k == 'adt':
            return self.make_adt(fr, rv)
        if k == 'len':
            v = self.read_place(fr, rv.a)
            if type(v) is SliceRef:
                return v.length
            return len(v.elems)
        if k == 'shallow_box':
            return BoxV(UNINIT)
        raise Unmodelled('rvalue ' + rv.text)

    def guess_type(self, a, b, ty):
        for v in (a, b):
            if v is True or v is False:
                return 'bool'
            if type(v) is Sym:
                if z3.is_bool(v.e):
                    return 'bool'
                if z3.is_fp(v.e):
                    return 'f64' if v.e.sort().sbits() == 53 else 'f32'
                if z3.is_bv(v.e):
                    return {8: 'u8', 16: 'u16', 32: 'u32', 64: 'u64', 128: 'u128'}[v.e.size()]
            if isinstance(v, float):
                return 'f64'
        if isinstance(a, int):
            return 'i128'
        return ty

    def discriminant_of(self, v):
        if type(v) is not Adt or v.variant is None:
            if type(v) is Adt:
                return 0
            raise Unmodelled('discriminant of %r' % (v,))
        en = self.enum_variants(v.name)
        if en is None:
            raise Unmodelled('unknown enum ' + v.name)
        for name, d in en:
            if name == v.variant:
                return d
        raise Unmodelled('variant %s of %s' % (v.variant, v.name))

    def make_adt(self, fr, rv):
        if rv.cache is None:
            path = rv.a
            if path.startswith('{'):
                rv.cache = (path, None)
            else:
                sg = strip_generics(path)
                segs = [x for x in sg.split('::') if x]
                name, variant = segs[-1], None
                if len(segs) >= 2:
                    en = self.enum_variants(segs[-2])
                    if en and any(v == segs[-1] for v, _ in en):
                        name, variant = segs[-2], segs[-1]
                elif segs[-1] in ('Less', 'Equal', 'Greater'):
                    name, variant = 'Ordering', segs[-1]
                elif segs[-1] in ('None', 'Some'):
                    name, variant = 'Option', segs[-1]
                elif segs[-1] in ('Ok', 'Err'):
                    name, variant = 'Result', segs[-1]
                rv.cache = (name, variant)
        name, variant = rv.cache
        return Adt(name, variant, [self.eval_operand(fr, o) for o in rv.c])

    # ------------------------------------------------------------------ execution

    def exec_body(self, body, name, args, gen=None):
        fr = Frame(body, name, gen)
        for i, a in enumerate(args):
            fr.locals[i + 1] = a
        self.callstack.append(name)
        if len(self.callstack) > 400:
            raise PathEnd('inconclusive', 'call depth > 400')
        blocks = body.blocks
        bb = 0
        trace = self.trace_re is not None and self.trace_re.search(name)
        while True:
            for st in blocks[bb]:
                self.steps += 1
                if trace:
                    sys.stderr.write('[%s bb%d] %s\n' % (name[-40:], bb, st.text[:200]))
                if self.steps > self.max_steps:
                    raise PathEnd('steplimit', 'step budget %d exhausted in %s' % (self.max_steps, name))
                ty = type(st)
                if ty is mir.Stmt:
                    k = st.kind
                    if k == 'assign':
                        v = self.eval_rvalue(fr, st.b)
                        if trace:
                            sys.stderr.write('      := %r\n' % (v,))
                        pl = st.a
                        if not pl.proj:
                            fr.locals[pl.local] = v
                        else:
                            self.write_place(fr, pl, v)
                    elif k == 'setdiscr':
                        v = self.read_place(fr, st.a)
                        en = self.enum_variants(v.name)
                        for vn, d in en:
                            if d == st.b:
                                v.variant = vn
                    elif k == 'assume':
                        pass
                    elif k == 'unparsed':
                        raise Unmodelled('unparsed MIR statement: %s (%s)' % (st.text, st.a))
                    continue
                # terminator
                k = st.kind
                if k == 'goto':
                    bb = st.a
                    break
                if k == 'switch':
                    bb = self.do_switch(fr, st)
                    break
                if k == 'call':
                    args2 = [self.eval_operand(fr, o) for o in st.c]
                    r = self.do_call(fr, st, args2)
                    if st.d is None:
                        raise PathEnd('error', 'diverging call returned: ' + st.b)
                    self.write_place(fr, st.a, r)
                    bb = st.d
                    break
                if k == 'return':
                    self.callstack.pop()
                    return fr.locals[0]
                if k == 'drop':
                    bb = st.b
                    break
                if k == 'assert':
                    self.do_assert(fr, st)
                    bb = st.d
                    break
                if k == 'unreachable':
                    raise PathEnd('error', 'reached `unreachable` in ' + name)
                if k == 'resume' or k == 'abort':
                    raise PathEnd('error', 'reached unwind/abort block in ' + name)
                raise Unmodelled('terminator ' + st.text)
            else:
                raise PathEnd('error', 'block without terminator in ' + name)

    def do_switch(self, fr, st):
        v = self.eval_operand(fr, st.a)
        if type(v) is not Sym:
            if v is True:
                v = 1
            elif v is False:
                v = 0
            if not isinstance(v, int):
                raise Unmodelled('switchInt on %r' % (v,))
            for val, bb in st.b:
                if v == val:
                    return bb
            if st.c is None:
                raise PathEnd('error', 'switchInt without matching target')
            return st.c
        e = v.e
        if z3.is_bool(e):
            # targets: [0: bbF, otherwise: bbT] (or explicit 1)
            t = self.decide(v)
            want = 1 if t else 0
            for val, bb in st.b:
                if val == want:
                    return bb
            return st.c
        bits = e.size()
        for val, bb in st.b:
            if self.decide(Sym(e == z3.BitVecVal(val & ((1 << bits) - 1), bits))):
                return bb
        if st.c is None:
            raise PathEnd('error', 'switchInt without matching target (symbolic)')
        return st.c

    def do_assert(self, fr, st):
        c = self.eval_operand(fr, st.a)
        neg = st.b
        if type(c) is not Sym:
            ok = (not c) if neg else bool(c)
            if not ok:
                self.report('panic', 'MIR assert failed: %s in %s' % (st.c, fr.name))
                raise PathEnd('panic', st.c)
            return
        good = z3.Not(c.e) if neg else c.e
        self.require(good, 'panic', 'MIR assert can fail: %s in %s' % (st.c, fr.name))

    # ------------------------------------------------------------------ calls

    def subst_generics(self, text, gen):
        for k, v in gen.items():
            text = re.sub(r'(?<![\w:])' + re.escape(k) + r'(?![\w])', v, text)
        return text

    def callee_generics(self, callee, target):
        """explicit trailing ::<...> arguments of the call -> {param: type} for the MIR function `target`"""
        c = callee.rstrip()
        if not c.endswith('>'):
            return None
        # find the '::<' that opens the final generic list
        depth = 0
        i = len(c) - 1
        while i >= 0:
            ch = c[i]
            if ch == '>' and c[i - 1] not in '-=':
                depth += 1
            elif ch == '<':
                depth -= 1
                if depth == 0:
                    break
            i -= 1
        if i < 2 or c[i - 2:i] != '::':
            return None
        args = [a for a in split_top(c[i + 1:-1]) if not a.startswith("'")]
        if not args:
            return None
        last = target.split('::')[-1]
        if last.startswith('{'):
            return None
        hint = None
        m = re.search(r'<impl at ([^:>]*):', target)
        if m:
            hint = m.group(1)
        params = self.src.fn_generics(last, hint)
        if not params or len(params) < len(args):
            return None
        return {p: a for p, a in zip(params, args) if a != '_' and not re.match(r'^[A-Z]\w?$', a)}

    def do_call(self, fr, st, args):
        callee = st.b
        if fr.gen:
            callee = self.subst_generics(callee, fr.gen)
            kind, target = self.resolve_callee(callee, fr)
        else:
            if st.cache is None:
                st.cache = self.resolve_callee(callee, fr)
            kind, target = st.cache
        if kind == 'mir':
            gen = self.callee_generics(callee, target) if callee.endswith('>') else None
            return self.exec_body(self.prog.get(target), target, args, gen)
        if kind == 'mir_deref':
            name, nref = target
            a2 = []
            for a in args:
                for _ in range(nref):
                    if type(a) is Ref and type(a.get()) is Ref:
                        a = a.get()
                a2.append(a)
            return self.exec_body(self.prog.get(name), name, a2)
        if kind == 'model':
            self.callstack.append('std:' + target.__name__)
            r = target(self, args, callee)
            self.callstack.pop()
            return r
        if kind == 'local':
            f = self.read_place(fr, target)
            return self.call_value(f, args)
        if kind == 'dyn':
            return self.call_dynamic(target, args, callee)
        raise Unmodelled('call ' + callee)

    def call_value(self, f, args):
        """call a function value: FnRef, closure Adt, or Ref to one; args is the list of actual arguments"""
        while type(f) is Ref:
            f = f.get()
        if type(f) is BoxV:
            f = f.fields[0]
        if type(f) is FnRef:
            kind, target = self.resolve_callee(f.path, None)
            if kind == 'mir':
                gen = self.callee_generics(f.path, target) if f.path.endswith('>') else None
                return self.exec_body(self.prog.get(target), target, args, gen)
            if kind == 'model':
                return target(self, args, f.path)
            if kind == 'dyn':
                return self.call_dynamic(target, args, f.path)
            raise Unmodelled('call through fn pointer ' + f.path)
        if type(f) is Adt and f.name.startswith('{closure@'):
            name = self.closures.get(f.name)
            if name is None:
                raise Unmodelled('closure body ' + f.name)
            b = self.prog.get(name)
            first = b.arg_types[0].strip()
            env = f
            if first.startswith('&'):
                env = Ref([f], 0)
            return self.exec_body(b, name, [env] + list(args))
        if type(f) is Adt and f.variant is not None and not f.fields and not f.name.startswith('{'):
            # a tuple-variant constructor used as a function value (printed like a unit variant constant)
            return Adt(f.name, f.variant, list(args))
        if type(f) is Adt and f.name == 'variant_ctor':
            return Adt(f.fields[0], f.fields[1], list(args))
        raise Unmodelled('call of value %r' % (f,))

    def call_closure_like(self, f, args):
        """used by models: call f (closure / fn item) with python list of args"""
        return self.call_value(f, args)

    def parse_qualified(self, callee):
        """'<SELF as TRAIT>::rest' -> (SELF, TRAIT, rest) else None"""
        if not callee.startswith('<'):
            return None
        j = find_matching(callee, 0)
        inner = callee[1:j]
        rest = callee[j + 1:]
        if rest.startswith('::'):
            rest = rest[2:]
        # split at top-level ' as '
        depth = 0
        i = 0
        n = len(inner)
        while i < n:
            ch = inner[i]
            if ch in '<([':
                depth += 1
            elif ch in ')]':
                depth -= 1
            elif ch == '>' and inner[i - 1] not in '-=':
                depth -= 1
            elif depth == 0 and inner.startswith(' as ', i):
                return inner[:i].strip(), inner[i + 4:].strip(), rest
            i += 1
        return inner.strip(), None, rest

    def resolve_static(self, callee):
        """callee text -> MIR function name (crate-defined) or raise Unmodelled"""
        k, t = self.resolve_callee(callee, None)
        if k == 'mir':
            return t
        raise Unmodelled('not a crate function: ' + callee)

    def resolve_callee(self, callee, fr):
        m = re.match(r'^(?:move|copy) (.*)$', callee)
        if m:
            return ('local', mir.parse_place(m.group(1)))
        if callee in self.resolve_cache:
            return self.resolve_cache[callee]
        r = self._resolve_callee(callee)
        self.resolve_cache[callee] = r
        return r

    def _resolve_callee(self, callee):
        models = self.models
        sg = strip_generics(callee)
        last = sg.split('::')[-1]
        # verif runtime intercepts
        if last.startswith('vrt_') and last in models:
            return ('model', models[last])
        ov = self.models_mod.OVERRIDES.get(sg) or self.models_mod.OVERRIDES.get('::'.join(sg.split('::')[-2:]))
        if ov is not None:
            return ('model', ov)
        if sg in self.prog.bodies:
            return ('mir', sg)
        q = self.parse_qualified(callee)
        if q:
            selft, trait, rest = q
            meth = strip_generics(rest)
            shead = type_head(selft)
            if trait is None:
                # <Type>::method  inherent;  rustc prints `<impl modType>` (sic) for impls outside the defining module
                if selft.startswith('impl '):
                    st = selft[5:].strip()
                    best = None
                    for (head, m2) in self.inherent:
                        if m2 == meth and st.endswith(head) and (best is None or len(head) > len(best)):
                            best = head
                    if best:
                        shead = best
                cands = self.inherent.get((shead, meth))
                if cands:
                    return ('mir', cands[0])
                key = '%s::%s' % (shead, meth)
                if key in models:
                    return ('model', models[key])
                raise Unmodelled('callee ' + callee)
            thead = type_head(trait)
            cands = self.traitimpl.get((thead, shead, meth))
            if cands:
                nref = len(re.match(r"^((?:&\s*(?:'\w+\s+)?(?:mut\s+)?)*)", selft.strip()).group(1).replace(' ', '').replace('mut', ''))
                name = self.pick_impl(cands, selft, trait)
                if nref and thead in ('PartialEq', 'PartialOrd', 'Ord', 'Eq', 'Display', 'Debug', 'Hash') and not any((c[2] or '').strip().startswith('&') for c in cands):
                    # std's forwarding impls `impl Trait for &A`: strip the extra reference levels
                    return ('mir_deref', (name, nref))
                return ('mir', name)
            # generic self type -> dynamic dispatch on the receiver
            is_generic = re.match(r'^&?\s*(mut\s+)?[A-Z]\w?$', selft.strip()) is not None or shead in ('Self',)
            anyimpl = any(k[0] == thead and k[2] == meth for k in self.traitimpl)
            for key in ('<%s as %s>::%s' % (shead, thead, meth), '%s::%s' % (thead, meth)):
                if key in models and not (is_generic and anyimpl):
                    return ('model', models[key])
            if anyimpl or is_generic:
                return ('dyn', (thead, meth))
            # trait default method defined in the crate
            for n in self.by_suffix.get('%s::%s' % (thead, meth), []):
                return ('mir', n)
            raise Unmodelled('callee ' + callee)
        # plain path:  a::b::Type::method / core::str::<impl str>::len / free function
        norm = sg
        while True:
            k = norm.find('<impl ')
            if k < 0:
                break
            j = find_matching(norm, k)
            norm = norm[:k] + 'IMPL{' + type_head(norm[k + 6:j]).replace('::', '.') + '}' + norm[j + 1:]
        segs = norm.split('::')
        segs = [re.sub(r'^IMPL\{(.*)\}$', r'\1', s) for s in segs]
        meth = segs[-1]
        if len(segs) >= 2:
            head = segs[-2]
            cands = self.inherent.get((head, meth))
            if cands:
                return ('mir', cands[0])
            en = self.enum_variants(head)
            if en and any(v == meth for v, _ in en):
                return ('model', self.models_mod.make_variant_ctor(head, meth))
            key = '%s::%s' % (head, meth)
            if key in models:
                return ('model', models[key])
            if head in INT_TYPES and ('int::' + meth) in models:
                return ('model', models['int::' + meth])
            if head in ('f32', 'f64') and ('float::' + meth) in models:
                return ('model', models['float::' + meth])
        if meth in models:
            return ('model', models[meth])
        cands = self.by_suffix.get('::'.join(segs[-2:]))
        if cands and len(cands) == 1:
            return ('mir', cands[0])
        # unique function name somewhere in the crate (trimmed paths)
        raise Unmodelled('callee ' + callee)

    def pick_impl(self, cands, selft, trait):
        if len(cands) == 1:
            return cands[0][0]

        def norm(t):
            t = re.sub(r"'\w+\s*", '', t or '')
            t = re.sub(r'\b\w+::', '', t)
            return re.sub(r'\s+', '', t)

        def refness(t):
            t = t.strip()
            if t.startswith('&'):
                return 2 if re.match(r"^&\s*('\w+\s+)?mut\b", t) else 1
            return 0
        best, bscore = None, -1
        for name, trf, sf in cands:
            score = 0
            if refness(sf) == refness(selft):
                score += 4
            ta = norm(trait)
            tb = norm(trf)
            if ta == tb:
                score += 2
            else:
                # compare generic args loosely:  Index<&str> vs Index<usize>
                ga = ta[ta.find('<'):] if '<' in ta else ''
                gb = tb[tb.find('<'):] if '<' in tb else ''
                if ga and gb and (('str' in ga) == ('str' in gb)) and (('usize' in ga) == ('usize' in gb)):
                    score += 1
            if score > bscore:
                best, bscore = name, score
        return best

    def value_type_head(self, v):
        while type(v) is Ref:
            v = v.get()
        t = type(v)
        if t is Adt:
            return v.name
        if t is StringV:
            return 'String'
        if t is VecV:
            return 'Vec'
        if t is SliceRef:
            return 'str' if v.is_str else '[]'
        if t is BoxV:
            return 'Box'
        if t is MapV:
            return 'HashSet' if v.is_set else 'HashMap'
        if v is True or v is False:
            return 'bool'
        if isinstance(v, int) or t is Sym:
            return 'int'
        if isinstance(v, float):
            return 'float'
        return t.__name__

    def call_dynamic(self, target, args, callee):
        thead, meth = target
        if not args:
            raise Unmodelled('static generic call without receiver: ' + callee)
        head = self.value_type_head(args[0])
        cands = self.traitimpl.get((thead, head, meth))
        if cands:
            q = self.parse_qualified(callee)
            name = self.pick_impl(cands, q[0] if q else '', q[1] if q else '')
            return self.exec_body(self.prog.get(name), name, args)
        for key in ('<%s as %s>::%s' % (head, thead, meth), '%s::%s' % (thead, meth)):
            if key in self.models:
                return self.models[key](self, args, callee)
        for n in self.by_suffix.get('%s::%s' % (thead, meth), []):
            return self.exec_body(self.prog.get(n), n, args)
        raise Unmodelled('dynamic dispatch %s::%s on %s (%s)' % (thead, meth, head, callee))

    # ------------------------------------------------------------------ entry

    def run(self, harness):
        name = None
        for n in self.prog.bodies:
            if n == harness or n.endswith('::' + harness):
                name = n
                break
        if name is None:
            self.finish('error', 'harness %s not found in MIR' % harness)
            return
        status, detail = 'ok', ''
        try:
            self.exec_body(self.prog.get(name), name, [])
        except PathEnd as e:
            status, detail = e.status, e.detail
            if status == 'panic' and not any(v['kind'] == 'panic' for v in self.violations):
                self.report('panic', str(detail))
            if status == 'steplimit':
                self.report('steplimit', str(detail))
        except Unmodelled as e:
            status, detail = 'unmodelled', '%s  [at %s]' % (e, ' <- '.join(reversed(self.callstack[-5:])))
        except RecursionError:
            status, detail = 'inconclusive', 'python recursion limit'
        except Exception as e:
            import traceback
            status, detail = 'error', traceback.format_exc()[-1500:] + ' [at %s]' % ' <- '.join(reversed(self.callstack[-5:]))
        self.finish(status, detail)
