// E1 (Kani) harnesses for checker.rs -- injected as a child module of `checker`
// in a scratch copy of the crate, so that private functions are reachable.

fn ref_raw_limits(k: u8) -> (f64, f64) {
    // reference table: raw range of the 11 A2L data types (ASAM MCD-2 MC 1.7.1, table "datatypes")
    match k {
        0 => (0.0, 255.0),
        1 => (-128.0, 127.0),
        2 => (0.0, 65535.0),
        3 => (-32768.0, 32767.0),
        4 => (0.0, 4294967295.0),
        5 => (-2147483648.0, 2147483647.0),
        6 => (0.0, 18446744073709551615.0),
        7 => (-9223372036854775808.0, 9223372036854775807.0),
        8 => (-65504.0, 65504.0),
        9 => (-3.4028234663852886e38, 3.4028234663852886e38),
        _ => (-1.7976931348623157e308, 1.7976931348623157e308),
    }
}

fn datatype_of(k: u8) -> DataType {
    match k {
        0 => DataType::Ubyte,
        1 => DataType::Sbyte,
        2 => DataType::Uword,
        3 => DataType::Sword,
        4 => DataType::Ulong,
        5 => DataType::Slong,
        6 => DataType::AUint64,
        7 => DataType::AInt64,
        8 => DataType::Float16Ieee,
        9 => DataType::Float32Ieee,
        _ => DataType::Float64Ieee,
    }
}

fn coeff_in_range(x: f64) -> bool {
    // coefficient grid of the property: both signs, magnitudes 1e-6..1e6, and zero
    x == 0.0 || (x >= 1e-6 && x <= 1e6) || (x <= -1e-6 && x >= -1e6)
}

fn mk_cm(ct: ConversionType) -> CompuMethod {
    CompuMethod::new(String::new(), String::new(), ct, String::new(), String::new())
}

fn any_dt_index(lo: u8, hi: u8) -> u8 {
    let k: u8 = kani::any();
    kani::assume(k >= lo && k <= hi);
    k
}

/// LINEAR, either sign of a: computed range == [min,max] of the two mapped end points.
fn linear_body(k: u8) {
    let a: f64 = kani::any();
    let b: f64 = kani::any();
    kani::assume(coeff_in_range(a) && coeff_in_range(b));
    let mut cm = mk_cm(ConversionType::Linear);
    cm.coeffs_linear = Some(CoeffsLinear::new(a, b));
    let (lo, hi) = calc_compu_method_limits(Some(&cm), datatype_of(k));
    let (rl, rh) = ref_raw_limits(k);
    // oracle: a*x+b is monotone; increasing for a >= 0, decreasing for a < 0
    let (elo, ehi) = if a >= 0.0 { (a * rl + b, a * rh + b) } else { (a * rh + b, a * rl + b) };
    kani::cover!(a < 0.0, "negative slope reached");
    kani::cover!(a > 0.0, "positive slope reached");
    assert!(lo == elo, "C12 LINEAR lower limit");
    assert!(hi == ehi, "C12 LINEAR upper limit");
    std::mem::forget(cm);
}

/// no compu method / IDENTICAL / TAB_*: the raw range of the data type, for all 11 types
#[kani::proof]
fn c12_identity_and_tables() {
    let k = any_dt_index(0, 10);
    let (rl, rh) = ref_raw_limits(k);
    let sel: u8 = kani::any();
    kani::assume(sel < 5);
    let (lo, hi) = if sel == 0 {
        calc_compu_method_limits(None, datatype_of(k))
    } else {
        let ct = match sel {
            1 => ConversionType::Identical,
            2 => ConversionType::TabIntp,
            3 => ConversionType::TabNointp,
            _ => ConversionType::TabVerb,
        };
        let mut cm = mk_cm(ct);
        // coefficients present but irrelevant for these kinds
        cm.coeffs_linear = Some(CoeffsLinear::new(kani::any(), kani::any()));
        let r = calc_compu_method_limits(Some(&cm), datatype_of(k));
        std::mem::forget(cm);
        r
    };
    assert!(lo == rl && hi == rh, "C12 identity/table: raw range");
}

/// FORM and the general RAT_FUNC are not evaluated: any finite declared limits are valid
#[kani::proof]
fn c12_unevaluated_never_error() {
    let k = any_dt_index(0, 10);
    let form: bool = kani::any();
    let mut cm = mk_cm(if form { ConversionType::Form } else { ConversionType::RatFunc });
    if !form {
        let (a, b, c, d, e, f): (f64, f64, f64, f64, f64, f64) =
            (kani::any(), kani::any(), kani::any(), kani::any(), kani::any(), kani::any());
        kani::assume(a.is_finite() && b.is_finite() && c.is_finite() && d.is_finite() && e.is_finite() && f.is_finite());
        // general case: not the linear special case
        kani::assume(a != 0.0 || d != 0.0 || e != 0.0 || f == 0.0);
        cm.coeffs = Some(Coeffs::new(a, b, c, d, e, f));
    }
    let calc = calc_compu_method_limits(Some(&cm), datatype_of(k));
    let dl: f64 = kani::any();
    let du: f64 = kani::any();
    kani::assume(dl.is_finite() && du.is_finite());
    assert!(check_limits_valid((dl, du), calc), "C12 FORM/general RAT_FUNC never cause a limit error");
    std::mem::forget(cm);
}

/// RAT_FUNC linear special case y=(b*x+c)/f inverted at both raw end points and ordered.
/// Oracle in the documented operation order x = f*(y/b) - c/b (bit-exact comparison: see DESIGN C12).
fn ratfunc_body(k: u8) {
    let b: f64 = kani::any();
    let c: f64 = kani::any();
    let f: f64 = kani::any();
    kani::assume(coeff_in_range(b) && coeff_in_range(c) && coeff_in_range(f));
    kani::assume(b != 0.0 && f != 0.0);
    let mut cm = mk_cm(ConversionType::RatFunc);
    cm.coeffs = Some(Coeffs::new(0.0, b, c, 0.0, 0.0, f));
    let (lo, hi) = calc_compu_method_limits(Some(&cm), datatype_of(k));
    let (rl, rh) = ref_raw_limits(k);
    let x1 = f * (rl / b) - c / b;
    let x2 = f * (rh / b) - c / b;
    let (elo, ehi) = if x1 > x2 { (x2, x1) } else { (x1, x2) };
    kani::cover!(b < 0.0, "negative b reached");
    assert!(lo == elo, "C12 RAT_FUNC lower limit");
    assert!(hi == ehi, "C12 RAT_FUNC upper limit");
    std::mem::forget(cm);
}

macro_rules! per_type {
    ($($name:ident, $body:ident, $k:expr;)*) => { $( #[kani::proof] fn $name() { $body($k); } )* };
}
per_type! {
    c12_lin_ubyte, linear_body, 0; c12_lin_sbyte, linear_body, 1; c12_lin_uword, linear_body, 2; c12_lin_sword, linear_body, 3;
    c12_lin_ulong, linear_body, 4; c12_lin_slong, linear_body, 5; c12_lin_uint64, linear_body, 6; c12_lin_int64, linear_body, 7;
    c12_lin_f16, linear_body, 8; c12_lin_f32, linear_body, 9; c12_lin_f64, linear_body, 10;
    c12_rf_ubyte, ratfunc_body, 0; c12_rf_sbyte, ratfunc_body, 1; c12_rf_uword, ratfunc_body, 2; c12_rf_sword, ratfunc_body, 3;
    c12_rf_ulong, ratfunc_body, 4; c12_rf_slong, ratfunc_body, 5; c12_rf_uint64, ratfunc_body, 6; c12_rf_int64, ratfunc_body, 7;
    c12_rf_f16, ratfunc_body, 8; c12_rf_f32, ratfunc_body, 9; c12_rf_f64, ratfunc_body, 10;
}

/// tolerant comparison: inside => valid; clearly outside (10x the documented 1e-6 relative tolerance) => invalid
#[kani::proof]
fn c12_limits_valid_tolerance() {
    let cl: f64 = kani::any();
    let cu: f64 = kani::any();
    let el: f64 = kani::any();
    let eu: f64 = kani::any();
    kani::assume(cl.is_finite() && cu.is_finite() && el.is_finite() && eu.is_finite());
    kani::assume(cl.abs() <= 1e30 && cu.abs() <= 1e30 && el.abs() <= 1e30 && eu.abs() <= 1e30);
    kani::assume(cl <= cu);
    let valid = check_limits_valid((el, eu), (cl, cu));
    if cl <= el && eu <= cu {
        assert!(valid, "C12 limits inside the range are valid");
    }
    let tol_l = cl.abs() * 1e-5;
    let tol_u = cu.abs() * 1e-5;
    if el < cl - tol_l && (cl - el) > 1e-300 && tol_l >= 0.0 {
        kani::cover!(true, "clearly below reached");
        if cl - tol_l < cl || tol_l == 0.0 {
            assert!(!valid, "C12 lower limit clearly below the range is invalid");
        }
    }
    if eu > cu + tol_u && (eu - cu) > 1e-300 {
        kani::cover!(true, "clearly above reached");
        if cu + tol_u > cu || tol_u == 0.0 {
            assert!(!valid, "C12 upper limit clearly above the range is invalid");
        }
    }
}
