"""dev tool: confirm a seeded change (patch + demo) in a scratch worktree and run our checks against it.
usage: python3 -m vf.seedtest <seed dir> <PROPERTY> [quick|thorough]"""
import json, os, shutil, subprocess, sys, time

def sh(cmd, cwd=None, timeout=3600):
    p = subprocess.run(cmd, shell=True, cwd=cwd, stdout=subprocess.PIPE, stderr=subprocess.STDOUT, text=True, timeout=timeout)
    return p.returncode, p.stdout

def confirm(seed):
    wt = "/tmp/wt-confirm-%d" % os.getpid()
    sh("git -C /repo worktree remove --force %s" % wt)
    rc, o = sh("git -C /repo worktree add -q --detach %s HEAD" % wt)
    res = {}
    try:
        tgt = wt + "/target"
        shutil.copy(os.path.join(seed, "demo.rs"), wt + "/a2lfile/tests/demo_seed.rs")
        rc, o = sh("CARGO_NET_OFFLINE=true cargo test -p a2lfile --test demo_seed --offline --target-dir %s 2>&1 | tail -5" % tgt, cwd=wt)
        res["demo_without_patch_passes"] = "test result: ok" in o
        rc, o = sh("git apply %s" % os.path.join(seed, "patch.diff"), cwd=wt)
        res["patch_applies"] = rc == 0
        rc, o = sh("CARGO_NET_OFFLINE=true cargo test -p a2lfile --test demo_seed --offline --target-dir %s 2>&1 | tail -5" % tgt, cwd=wt)
        res["demo_with_patch_fails"] = "FAILED" in o or "failed" in o
        os.unlink(wt + "/a2lfile/tests/demo_seed.rs")
        rc, o = sh("CARGO_NET_OFFLINE=true cargo test --workspace --offline --target-dir %s 2>&1 | grep 'test result'" % tgt, cwd=wt)
        res["suite_with_patch_passes"] = "FAILED" not in o and o.count("test result: ok") >= 4
    finally:
        sh("git -C /repo worktree remove --force %s" % wt)
    return res

def run_checks(seed, prop, tiers):
    out = {}
    rc, o = sh("git -C /repo status --porcelain")
    assert o.strip() == "", "/repo not clean: " + o
    rc, o = sh("git -C /repo apply %s" % os.path.join(seed, "patch.diff"))
    assert rc == 0, o
    try:
        for tier in tiers:
            t0 = time.time()
            rc, o = sh("./run_check.sh %s %s 2>&1" % (prop, tier), cwd="/verif")
            out[tier] = {"rc": rc, "wall_s": round(time.time() - t0, 1), "tail": o.strip().splitlines()[-6:]}
            if rc == 1:
                break
    finally:
        sh("git -C /repo checkout -- .")
    return out

if __name__ == "__main__":
    seed, prop = sys.argv[1], sys.argv[2]
    tiers = sys.argv[3:] or ["quick", "thorough"]
    c = confirm(seed) if "--noconfirm" not in sys.argv else {}
    print("confirm:", c)
    tiers = [t for t in tiers if not t.startswith("--")]
    r = run_checks(seed, prop, tiers)
    print(json.dumps(r, indent=1))
