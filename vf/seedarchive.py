"""dev tool: copy a confirmed seed (patch.diff, demo.rs, notes.md) into /verif/seeded/<id>/ with meta.json"""
import json, os, shutil, sys
src, sid, prop, detected, by, needs = sys.argv[1:7]
dst = os.path.join("/verif/seeded", sid)
os.makedirs(dst, exist_ok=True)
for f in ("patch.diff", "demo.rs", "notes.md"):
    shutil.copy(os.path.join(src, f), os.path.join(dst, f))
meta = {
    "id": sid, "breaks_property": prop, "needs_to_manifest": needs,
    "origin": "written by an independent sub-agent that saw only the property text and a scratch worktree of /repo",
    "confirmed": "python3 -m vf.seedtest <dir> %s : demo passes without patch, patch applies to /repo HEAD, demo fails with patch, full existing suite passes with patch" % prop,
    "detected": detected, "detected_by": by,
    "how_to_rerun": "git -C /repo apply /verif/seeded/%s/patch.diff && ./run_check.sh %s quick ; git -C /repo checkout -- ." % (sid, prop),
}
json.dump(meta, open(os.path.join(dst, "meta.json"), "w"), indent=1)
print("archived", dst)
