"""C20 - relational check: shipped specification.rs  vs  a fresh expansion of specification_orig.rs by the in-tree generator.

Two scratch copies of /repo's working tree are built: A as it is, B with a2lfile/src/specification.rs replaced by
what the in-tree generator produces now.  The same observation harnesses (harness/lib.rs h_c20_*) are explored by the
symbolic executor on the MIR of both builds; every completed path is exported as (shape of the input vector, path
condition, observations).  For every pair of paths (a in A, b in B) over the same input shape the solver is asked for
an input that satisfies both path conditions and makes an observation differ.  A satisfying assignment is an input
vector; it is replayed natively on both builds and reported only if the native observations differ as well."""
import collections, concurrent.futures as cf, json, os, random, re, struct, time
from . import common as C
from . import mir_engine as M
from .props import PROPS

OK_STATUS = ("ok", "panic", "violation")
QUIET_STATUS = ("assume_false", "infeasible")


def load_paths(scratch, harness):
    recs = []
    with open(os.path.join(scratch, "e2out", harness + ".paths.jsonl")) as f:
        for line in f:
            try:
                recs.append(json.loads(line))
            except Exception:
                recs.append({"status": "corrupt"})
    return recs


def shape_key(rec):
    return json.dumps(rec["export"]["shape"])


def obs_term(z3, item, other):
    if item[0] == "s":
        return z3.BitVec(item[1], item[2])
    bits = other[2] if other[0] == "s" else 64
    return z3.BitVecVal(item[1] & ((1 << bits) - 1), bits)


def diff_condition(z3, a, b):
    """-> True (structurally different), False (identical constants) or a z3 Bool"""
    if a["status"] != b["status"]:
        return True
    oa, ob = a["export"]["obs"], b["export"]["obs"]
    if len(oa) != len(ob):
        return True
    terms = []
    for x, y in zip(oa, ob):
        if x["list"] != y["list"] or len(x["items"]) != len(y["items"]):
            return True
        for p, q in zip(x["items"], y["items"]):
            if p[0] == "v" and q[0] == "v":
                if p[1] != q[1]:
                    return True
                continue
            terms.append(obs_term(z3, p, q) != obs_term(z3, q, p))
    if not terms:
        return False
    return z3.Or(*terms)


def model_inputs(z3, m, shape):
    out = []
    for i, (kind, v) in enumerate(shape):
        if kind == "c":
            out.append(v)
        elif kind == "bool":
            out.append(1 if z3.is_true(m.eval(z3.Bool("v%d" % i), model_completion=True)) else 0)
        elif kind == "f64":
            bv = m.eval(z3.fpToIEEEBV(z3.FP("v%d" % i, z3.Float64())), model_completion=True)
            out.append(bv.as_long())
        else:
            out.append(m.eval(z3.BitVec("v%d" % i, v), model_completion=True).as_long())
    return out


def product_check(harness, pa, pb, timeout_ms=20000):
    """returns (candidates, stats, inconclusive)"""
    import z3
    inconclusive = []
    stats = {"pairs": 0, "queries": 0, "solver_s": 0.0, "shapes": 0}
    for side, recs in (("A", pa), ("B", pb)):
        bad = collections.Counter(r["status"] for r in recs if r["status"] not in OK_STATUS + QUIET_STATUS)
        if bad:
            inconclusive.append("%s: build %s has unfinished paths %s (%s)" % (harness, side, dict(bad),
                                next((r.get("detail", "")[-300:] for r in recs if r["status"] in bad), "")))
        noexp = [r for r in recs if r["status"] in OK_STATUS and "export" not in r]
        if noexp:
            inconclusive.append("%s: build %s: %d paths without export (%s)" % (harness, side, len(noexp), noexp[0].get("export_error")))
    ga, gb = collections.defaultdict(list), collections.defaultdict(list)
    for r in pa:
        if r["status"] in OK_STATUS and "export" in r:
            ga[shape_key(r)].append(r)
    for r in pb:
        if r["status"] in OK_STATUS and "export" in r:
            gb[shape_key(r)].append(r)
    cands = []
    for k in sorted(set(ga) | set(gb)):
        stats["shapes"] += 1
        if k not in ga or k not in gb:
            r = (ga.get(k) or gb.get(k))[0]
            if "inputs" in r:
                cands.append({"why": "input shape explored by one build only", "inputs": r["inputs"]})
            else:
                inconclusive.append("%s: input shape %s explored by one build only and no model available" % (harness, k[:80]))
            continue
        shape = json.loads(k)
        parsed_b = {}
        for a in ga[k]:
            fa = z3.parse_smt2_string(a["export"]["smt"])
            for bi, b in enumerate(gb[k]):
                stats["pairs"] += 1
                d = diff_condition(z3, a, b)
                if d is False:
                    continue
                if bi not in parsed_b:
                    parsed_b[bi] = z3.parse_smt2_string(b["export"]["smt"])
                s = z3.Solver()
                s.set("timeout", timeout_ms)
                s.add(fa)
                s.add(parsed_b[bi])
                if d is not True:
                    s.add(d)
                t0 = time.time()
                r = s.check()
                stats["queries"] += 1
                stats["solver_s"] += time.time() - t0
                if r == z3.sat:
                    cands.append({"why": "observations differ" if d is not True else "outcome / observation layout differs",
                                  "inputs": model_inputs(z3, s.model(), shape)})
                elif r == z3.unknown:
                    inconclusive.append("%s: solver gave up on a path pair (%s)" % (harness, s.reason_unknown()))
        # completeness of the pairing: every input of the shape lies on some path of A and of B (both explorations are
        # exhaustive within the shape unless flagged unfinished above)
    # de-duplicate candidates
    seen, out = set(), []
    for c in cands:
        key = tuple(c["inputs"])
        if key not in seen:
            seen.add(key)
            out.append(c)
    stats["solver_s"] = round(stats["solver_s"], 3)
    return out[:20], stats, inconclusive


def mir_function_stats(mir_a, mir_b):
    """informational: how many function bodies under specification:: are textually identical in the two MIR dumps
    (spans and the harness module removed)"""
    def split(path):
        txt = open(path, errors="replace").read()
        txt = re.sub(r"a2lfile/src/specification\.rs:\d+:\d+: \d+:\d+", "SPAN", txt)
        out = {}
        for m in re.finditer(r"(?m)^(fn [^\n]*)\{\n(.*?)^\}\n", txt, re.S):
            head = m.group(1)
            if "specification::" in head or "SPAN" in head:
                out.setdefault(head, []).append(m.group(2))
        return out
    try:
        a, b = split(mir_a), split(mir_b)
    except Exception as e:
        return {"error": str(e)[:200]}
    same = sum(1 for k in a if k in b and a[k] == b[k])
    return {"functions_a": len(a), "functions_b": len(b), "identical_bodies": same,
            "only_in_a": len([k for k in a if k not in b]), "only_in_b": len([k for k in b if k not in a]),
            "different_bodies": len([k for k in a if k in b and a[k] != b[k]])}


def build_pair(prop, spec, jobs, known_ids):
    sa = C.make_scratch(prop + "a")
    sb = C.make_scratch(prop + "b")
    mods = sorted({j["module"] for j in jobs} | {m for j in jobs for m in j.get("extra_modules", [])})
    gd = spec.get("grammar_deviations", False)
    hooks = M.inject(os.path.join(sa, "repo"), mods, known_ids, False, gd)
    M.inject(os.path.join(sb, "repo"), mods, known_ids, False, gd)
    info = M.expand_a2l_spec(os.path.join(sb, "repo"))
    hooks.append("build B: a2lfile/src/specification.rs := head + rustfmt(a2lmacros::a2lspec::a2l_specification(DSL of specification_orig.rs)) + tail  %s" % json.dumps(info))
    return sa, sb, hooks, info


def native_pair(exe_a, exe_b, sa, sb, harness, inputs):
    na, _ = M.run_native_batch(exe_a, sa, [(harness, inputs)], timeout=60)
    nb, _ = M.run_native_batch(exe_b, sb, [(harness, inputs)], timeout=60)
    a, b = na[0], nb[0]
    differ = (a is None) != (b is None) or (a is not None and (a["outcome"] != b["outcome"] or a["obs"] != b["obs"]))
    return a, b, differ


def brief(n):
    if n is None:
        return None
    return {"outcome": n["outcome"], "panic": n["panic"], "obs": [o if not isinstance(o, list) else {"bytes": len(o), "head": bytes(o[:160]).decode("utf-8", "replace")} for o in n["obs"]]}


def run_property(prop, tier, seed):
    t0 = time.time()
    spec = PROPS[prop]
    jobs = [j for j in spec["jobs"] if tier == "thorough" or j.get("quick", True)]
    random.Random(seed).shuffle(jobs)
    known_ids = sorted({k["id"] for k in C.load_known().get("findings", [])})
    sa, sb, hooks, info = build_pair(prop, spec, jobs, known_ids)
    hashes = C.src_hashes(os.path.join(sa, "repo"), spec.get("files", []))
    inconclusive, violations, results = [], [], []
    validated = 0
    with cf.ThreadPoolExecutor(max_workers=4) as ex:
        f_ma = ex.submit(M.dump_mir, sa)
        f_mb = ex.submit(M.dump_mir, sb)
        f_na = ex.submit(M.build_native, sa, False)
        f_nb = ex.submit(M.build_native, sb, False)
        mir_a, _ = f_ma.result()
        mir_b, _ = f_mb.result()
        exe_a, exe_b = f_na.result(), f_nb.result()
    mstats = mir_function_stats(mir_a, mir_b)
    procs = max(2, C.NCPU // 2)
    for j in jobs:
        h = j["harness"]
        tmo = j.get("timeout_thorough", 3 * j.get("timeout", 240)) if tier == "thorough" else j.get("timeout", 240)
        with cf.ThreadPoolExecutor(max_workers=2) as ex:
            fa = ex.submit(M.explore, sa, mir_a, h, procs, tmo, known_ids, j.get("max_steps", 2_000_000), "A")
            fb = ex.submit(M.explore, sb, mir_b, h, procs, tmo, known_ids, j.get("max_steps", 2_000_000), "B")
            s_a, s_b = fa.result(), fb.result()
        r = {"engine": "E2 x 2 builds", "harness": h, "functions": j.get("functions", []), "bound": j.get("bound", ""),
             "paths": s_a["paths"] + s_b["paths"], "paths_a": s_a["paths"], "paths_b": s_b["paths"],
             "queries": s_a["queries_sum"] + s_b["queries_sum"], "solver_s": s_a["solver_s_sum"] + s_b["solver_s_sum"],
             "status_counts_a": s_a["status_counts"], "status_counts_b": s_b["status_counts"], "wall_s": round(s_a["wall_s"] + s_b["wall_s"], 1)}
        if s_a["paths"] == 0 or s_b["paths"] == 0:
            inconclusive.append("%s: exploration produced no paths (%s / %s)" % (h, s_a["inconclusive"][:1], s_b["inconclusive"][:1]))
            r["result"] = "inconclusive"
            results.append(r)
            continue
        for side, summ in (("A", s_a), ("B", s_b)):
            for mc in j.get("must_cover", []):
                if not summ.get("covers", {}).get(mc):
                    inconclusive.append("%s: vacuity witness '%s' not reached on build %s" % (h, mc, side))
        pa, pb = load_paths(sa, h), load_paths(sb, h)
        cands, stats, inc = product_check(h, pa, pb)
        r.update({"product": stats})
        r["queries"] += stats["queries"]
        r["solver_s"] = round(r["solver_s"] + stats["solver_s"], 3)
        inconclusive += inc
        r["result"] = "pass" if not inc else "inconclusive"
        # native validation of the encoder on both builds (sampled completed paths)
        rnd = random.Random(seed * 31 + len(h))
        for side, scr, exe, recs in (("A", sa, exe_a, pa), ("B", sb, exe_b, pb)):
            okp = [x for x in recs if x["status"] == "ok" and "inputs" in x and not x.get("violations")]
            rnd.shuffle(okp)
            sample = okp[: j.get("validate", 6)]
            if sample:
                nat, _ = M.run_native_batch(exe, scr, [(h, x["inputs"]) for x in sample], timeout=180)
                for x, n in zip(sample, nat):
                    if n is None or n["outcome"] != "ok" or n["obs"] != x["obs"]:
                        inconclusive.append("%s: encoder/native mismatch on build %s, inputs %s" % (h, side, x["inputs"]))
                        r["result"] = "inconclusive"
                    else:
                        validated += 1
        for c in cands:
            a, b, differ = native_pair(exe_a, exe_b, sa, sb, h, c["inputs"])
            if differ:
                violations.append({"harness": h, "kind": "relational", "msg": "C20 shipped specification.rs and the fresh expansion behave differently: " + c["why"],
                                   "inputs": c["inputs"], "native_shipped": brief(a), "native_fresh_expansion": brief(b)})
                r["result"] = "fail"
                break
            inconclusive.append("%s: solver found differing observations for inputs %s but both native builds agree -> encoder suspect" % (h, c["inputs"]))
            r["result"] = "inconclusive"
        results.append(r)
    wall = time.time() - t0
    cov = {
        "states": sum(r.get("paths", 0) for r in results),
        "transitions": sum(r.get("queries", 0) + r.get("paths", 0) for r in results),
        "traces_validated_against_impl": validated + len(violations),
        "samples": [{"harness": r["harness"], "bound": r.get("bound"), "result": r["result"], "paths_a": r.get("paths_a"), "paths_b": r.get("paths_b"), "product": r.get("product")} for r in results[:6]],
        "exhaustive": False,
        "explanation": "states = symbolic paths explored to completion on both builds; transitions = solver queries (exploration + one query per pair of "
                       "paths with a possibly differing observation) + fork edges. A pass means: within the stated bounds no input makes the two builds' "
                       "observations (load result, diagnostics count / line, written text, texts after sort / merge / cleanup) differ.",
        "solver_queries": sum(r.get("queries", 0) for r in results),
        "harnesses": results,
        "functions_encoded": sorted({f for r in results for f in r.get("functions", [])}),
        "source_hashes": hashes,
        "solver_time_s": round(sum(r.get("solver_s", 0) for r in results), 2),
        "inconclusive": inconclusive,
        "known_findings_hit": [],
        "trusted_base": spec.get("trusted", []),
        "scratch_injections": hooks,
        "fresh_expansion": info,
        "mir_comparison_of_specification_functions": mstats,
    }
    C.write_evidence(prop, tier, seed, cov, spec.get("assumptions", []), wall, len(violations))
    rc = 0
    if violations:
        for e in violations:
            path = C.write_replay(prop, e["harness"], {"property": prop, "tier": tier, **e})
            C.out("VIOLATION property=%s replay=%s" % (prop, path))
            C.log("  %s: %s inputs=%s" % (e["harness"], e["msg"], e.get("inputs")))
        rc = 1
    elif inconclusive:
        for m in inconclusive[:12]:
            C.log("INCONCLUSIVE: " + m)
        rc = 2
    C.log("%s %s: %d harnesses, %d violations, 0 known, %d inconclusive, %.1fs" % (prop, tier, len(results), len(violations), len(inconclusive), wall))
    return rc


def replay(prop, path):
    e = json.load(open(path))
    spec = PROPS[prop]
    job = next(j for j in spec["jobs"] if j["harness"] == e["harness"])
    known_ids = sorted({k["id"] for k in C.load_known().get("findings", [])})
    sa, sb, _, _ = build_pair(prop + "-replay", spec, [job], known_ids)
    exe_a, exe_b = M.build_native(sa, False), M.build_native(sb, False)
    a, b, differ = native_pair(exe_a, exe_b, sa, sb, e["harness"], e["inputs"])
    C.log("shipped: %s" % json.dumps(brief(a))[:600])
    C.log("fresh expansion: %s" % json.dumps(brief(b))[:600])
    if differ:
        C.out("VIOLATION property=%s replay=%s" % (prop, path))
        return 1
    C.log("replay: both builds agree on inputs %s" % e["inputs"])
    return 0
