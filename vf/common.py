"""Shared infrastructure: scratch copies of /repo, evidence files, known findings, verdict lines."""
import atexit, json, os, shutil, signal, subprocess, sys, time, hashlib

VERIF = os.path.dirname(os.path.dirname(os.path.abspath(__file__)))
REPO = os.environ.get("VERIF_REPO", "/repo")
SCRATCH_ROOT = os.environ.get("VERIF_SCRATCH", "/var/tmp")
NCPU = int(os.environ.get("VERIF_JOBS", str(os.cpu_count() or 8)))

OFFLINE_ENV = {"CARGO_NET_OFFLINE": "true", "GOPROXY": "off", "PIP_NO_INDEX": "1"}

_scratch_dirs = []


def log(*a):
    print(*a, file=sys.stderr, flush=True)


def out(*a):
    print(*a, flush=True)


def _cleanup():
    for d in _scratch_dirs:
        shutil.rmtree(d, ignore_errors=True)


def _on_signal(signum, frame):
    _cleanup()
    os._exit(130)


def make_scratch(tag):
    """Fresh scratch directory outside /repo and /verif with a copy of /repo's current working tree."""
    d = os.path.join(SCRATCH_ROOT, "a2lverif.%s.%d" % (tag, os.getpid()))
    shutil.rmtree(d, ignore_errors=True)
    os.makedirs(d)
    if not _scratch_dirs:
        atexit.register(_cleanup)
        signal.signal(signal.SIGTERM, _on_signal)
        signal.signal(signal.SIGINT, _on_signal)
    _scratch_dirs.append(d)
    subprocess.check_call(["rsync", "-a", "--exclude", "/target", "--exclude", ".git", REPO + "/", d + "/repo/"])
    return d


def env_offline(extra=None):
    e = dict(os.environ)
    e.update(OFFLINE_ENV)
    if extra:
        e.update(extra)
    return e


def sha256_file(p):
    h = hashlib.sha256()
    with open(p, "rb") as f:
        h.update(f.read())
    return h.hexdigest()


def src_hashes(scratch_repo, files):
    r = {}
    for f in files:
        p = os.path.join(scratch_repo, f)
        if os.path.exists(p):
            r[f] = sha256_file(p)[:16]
    return r


# ---------------------------------------------------------------- known findings

def load_known():
    p = os.path.join(VERIF, "known_findings.json")
    if not os.path.exists(p):
        return {"findings": [], "fixed": []}
    return json.load(open(p))


def known_for(prop):
    return [f for f in load_known().get("findings", []) if f["property"] == prop]


# ---------------------------------------------------------------- evidence

def write_evidence(prop, tier, seed, coverage, assumptions, wall_s, violations, extra=None):
    os.makedirs(os.path.join(VERIF, "evidence"), exist_ok=True)
    ev = {
        "property_id": prop,
        "tier": tier,
        "seed": seed,
        "level": "model_checking",
        "coverage": coverage,
        "assumptions": assumptions,
        "wall_s": round(wall_s, 2),
        "violations": violations,
    }
    if extra:
        ev.update(extra)
    p = os.path.join(VERIF, "evidence", prop + ".json")
    tmp = p + ".tmp"
    with open(tmp, "w") as f:
        json.dump(ev, f, indent=1, default=str)
    os.replace(tmp, p)
    return p


def write_replay(prop, name, payload):
    d = os.path.join(VERIF, "replays")
    os.makedirs(d, exist_ok=True)
    p = os.path.join(d, "%s-%s.json" % (prop, name.replace("::", "-").replace("/", "-")))
    with open(p, "w") as f:
        json.dump(payload, f, indent=1)
    return p
