"""Two generators that make the whole-pipeline harnesses reach every generated parser / writer of the crate:

* every_element_document(dsl): reads the specification DSL (the body of `a2l_specification! { ... }` in
  a2lfile/src/specification_orig.rs of the tree under check) and builds one A2L document that contains every block and
  keyword of the grammar at least once (repeatable ones twice), every parameter filled with a value of its type.
* fingerprint_module(spec_rs): reads the struct / enum definitions of a2lfile/src/specification.rs and emits a Rust
  module with one function per struct that serialises every public data field of a model into bytes - a complete
  observation of the model that does not go through the writer."""
import re


# ---------------------------------------------------------------------------------------------- DSL parsing

class Ref:
    def __init__(self, names, mult, vlow, vup):
        self.names, self.mult, self.vlow, self.vup = names, mult, vlow, vup


class Param:
    def __init__(self, ty, name, dim=None):
        self.ty, self.name, self.dim = ty, name, dim


class Seq:
    def __init__(self, params, name):
        self.params, self.name = params, name


class Block:
    def __init__(self, names, is_block, fields):
        self.names, self.is_block, self.fields = names, is_block, fields


def _strip_comments(t):
    t = re.sub(r"///[^\n]*", "", t)
    return re.sub(r"//[^\n]*", "", t)


def expand_names(spec):
    parts = [p.strip() for p in spec.split("/")]
    names = [parts[0]]
    sfx = [p for p in parts[1:] if p]
    if sfx:
        base = parts[0][: len(parts[0]) - len(sfx[0])]
        names += [base + s for s in sfx]
    return names


def _version(s):
    m = re.match(r"\s*(\d+)\.(\d+)\s*$", s or "")
    return (int(m.group(1)), int(m.group(2))) if m else None


def parse_dsl(text):
    t = _strip_comments(text)
    enums, blocks = {}, {}
    pos = 0
    item_re = re.compile(r"\s*(block|keyword|enum)\s+([A-Za-z0-9_ /]+?)\s*\{")
    while True:
        m = item_re.match(t, pos)
        if not m:
            break
        kind, name = m.group(1), m.group(2).strip()
        i = m.end()
        depth = 1
        k = i
        while depth:
            c = t[k]
            depth += (c == "{") - (c == "}")
            k += 1
        body = t[i:k - 1]
        pos = k
        if kind == "enum":
            vals = []
            for part in body.split(","):
                mm = re.match(r"\s*([A-Za-z0-9_]+)\s*(?:\(\s*([\d.]*)\s*\.\.\s*([\d.]*)\s*\))?\s*$", part, re.S)
                if mm:
                    vals.append((mm.group(1), _version(mm.group(2)), _version(mm.group(3))))
            enums[name] = vals
            continue
        names = expand_names(name)
        fields = []
        j = 0
        while j < len(body):
            if body[j].isspace():
                j += 1
                continue
            if body[j] == "[":
                e = body.index("]", j)
                inner = body[j + 1:e]
                mm = re.match(r"\s*->\s*(.+?)\s*$", inner)
                rnames = expand_names(mm.group(1))
                j = e + 1
                mult = "?"
                mm = re.match(r"\s*([!*+])", body[j:])
                if mm and "\n" not in body[j:j + mm.end()]:
                    mult = mm.group(1)
                    j += mm.end()
                mm = re.match(r"[ \t]*\(\s*([\d.]*)\s*\.\.\s*([\d.]*)\s*\)", body[j:])
                vlow = vup = None
                if mm:
                    vlow, vup = _version(mm.group(1)), _version(mm.group(2))
                    j += mm.end()
                fields.append(Ref(rnames, mult, vlow, vup))
            elif body[j] == "{":
                e = body.index("}", j)
                inner = body[j + 1:e]
                params = [Param(a, b) for a, b in re.findall(r"([A-Za-z0-9_]+)\s+([a-z0-9_]+)", inner)]
                mm = re.match(r"\s*\*\s*([a-z0-9_]+)", body[e + 1:])
                fields.append(Seq(params, mm.group(1)))
                j = e + 1 + mm.end()
            else:
                mm = re.match(r"([A-Za-z0-9_]+)\s*(?:\[\s*(\d+)\s*\])?\s+([a-z0-9_]+)", body[j:])
                if not mm:
                    raise ValueError("DSL: cannot parse %r in %s" % (body[j:j + 40], name))
                fields.append(Param(mm.group(1), mm.group(3), int(mm.group(2)) if mm.group(2) else None))
                j += mm.end()
        b = Block(names, kind == "block", fields)
        for n in names:
            blocks[n] = b
    return enums, blocks


# ---------------------------------------------------------------------------------------------- document generation

class DocGen:
    def __init__(self, enums, blocks, version=(1, 71), repeat=2):
        self.enums, self.blocks, self.version, self.repeat = enums, blocks, version, repeat
        self.counter = 0
        self.emitted = set()

    def in_version(self, vlow, vup):
        if vlow and self.version < vlow:
            return False
        if vup and self.version > vup:
            return False
        return True

    def value(self, ty, name):
        self.counter += 1
        n = self.counter
        if ty == "ident":
            return "id%d" % n
        if ty == "string":
            return '"s %d"' % n
        if ty in ("float", "double"):
            return ["0", "1.5", "-2.25", "100", "0.001", "1e12"][n % 6]
        if ty in ("uchar",):
            return str(n % 200)
        if ty in ("char",):
            return str((n % 100) - 50)
        if ty == "uint":
            return ["0x%X" % (n % 60000), str(n % 60000)][n % 2]
        if ty == "int":
            return ["0x%X" % (n % 30000), str((n % 30000) - 15000)][n % 2]
        if ty == "ulong":
            return ["0x%X" % (n * 65537 % 4000000000), str(n * 65537 % 4000000000)][n % 2]
        if ty == "long":
            return ["0x%X" % (n * 65537 % 2000000000), str((n * 65537 % 2000000000) - 1000000000)][n % 2]
        if ty == "uint64":
            return ["0x%X" % (n * 4294967311), str(n * 4294967311)][n % 2]
        if ty == "int64":
            return ["0x%X" % (n * 4294967311), str(-(n * 4294967311))][n % 2]
        if ty in self.enums:
            ok = [v for v, lo, up in self.enums[ty] if self.in_version(lo, up)]
            return ok[n % len(ok)]
        raise ValueError("DSL: unknown parameter type %s (%s)" % (ty, name))

    def element(self, tag, indent, depth=0):
        b = self.blocks[tag]
        self.emitted.add(tag)
        pad = "  " * indent
        if tag == "A2ML":
            return pad + "/begin A2ML\n" + pad + '  block "IF_DATA" taggedunion if_data { "VERIF" struct { uint; char[20]; }; };\n' + pad + "/end A2ML\n"
        if tag == "IF_DATA":
            self.counter += 1
            if getattr(self, "ifdata_mix", False) and self.counter % 2 == 0:
                # balanced, but not what the A2ML definition says: flagged invalid, removed by ifdata_cleanup()
                return pad + "/begin IF_DATA VERIF \"wrong\" %d\n" % (self.counter % 60000) + pad + "/end IF_DATA\n"
            return pad + "/begin IF_DATA VERIF %d \"ifd\"\n" % (self.counter % 60000) + pad + "/end IF_DATA\n"
        head = [("/begin " if b.is_block else "") + tag]
        subs = []
        for f in b.fields:
            if isinstance(f, Param):
                if f.dim:
                    head += [self.value(f.ty, f.name) for _ in range(f.dim)]
                else:
                    head.append(self.value(f.ty, f.name))
            elif isinstance(f, Seq):
                for _ in range(2):
                    for p in f.params:
                        head.append(self.value(p.ty, p.name))
        if getattr(self, "stagger", False) and len(head) > 1:
            # parameter i starts (i mod 3) lines below the previous token: same line / next line / one blank line between
            cont = "  " * (indent + 1)
            text = head[0]
            for i, tok in enumerate(head[1:]):
                k = (i + self.counter) % 3
                text += (" " if k == 0 else "\n" * k + cont) + tok
            head = [text]
        subs = []
        for f in b.fields:
            if isinstance(f, Param) or isinstance(f, Seq):
                continue
            if True:
                if not self.in_version(f.vlow, f.vup):
                    continue
                for n in f.names:
                    if n not in self.blocks:
                        continue
                    reps = self.repeat if f.mult in "*+" else 1
                    if depth > 6:
                        reps = 1 if f.mult in "!+" else 0
                    for _ in range(reps):
                        subs.append(self.element(n, indent + 1, depth + 1))
        out = pad + " ".join(head) + "\n" + "".join(subs)
        if b.is_block:
            out += pad + "/end " + tag + "\n"
        return out


def every_element_document(dsl_text, version=(1, 71), repeat=1, stagger=False, ifdata_mix=False):
    enums, blocks = parse_dsl(dsl_text)
    g = DocGen(enums, blocks, version, repeat)
    g.stagger = stagger
    g.ifdata_mix = ifdata_mix
    root = blocks["A2L_FILE"]
    out = ""
    for f in root.fields:
        for n in f.names:
            if n == "ASAP2_VERSION":
                out += "ASAP2_VERSION %d %d\n" % version
                g.emitted.add(n)
            elif n == "A2ML_VERSION":
                out += "A2ML_VERSION 1 31\n"
                g.emitted.add(n)
            else:
                out += g.element(n, 0)
    missing = sorted(set(blocks) - g.emitted - {"A2L_FILE"})
    return out, {"elements_in_grammar": len(set(blocks)) - 1, "elements_in_document": len(g.emitted), "not_in_document": missing,
                 "lines": out.count("\n")}


# ---------------------------------------------------------------------------------------------- single deviations (C04)

VERSIONS = [(1, 50), (1, 51), (1, 60), (1, 61), (1, 70), (1, 71)]


class FocusGen(DocGen):
    """document that contains only the path from the root to one occurrence of `tag` inside `parent` (ancestors carry
    their parameters and required sub-elements, nothing optional), and the element itself in the requested form"""

    def __init__(self, enums, blocks, version, parents):
        DocGen.__init__(self, enums, blocks, version, 1)
        self.parents = parents

    def path_to(self, parent):
        path = [parent]
        seen = {parent}
        while path[0] != "PROJECT":
            ps = [p for p in self.parents.get(path[0], []) if p not in seen and p != "A2L_FILE"]
            if not ps:
                return None
            # prefer parents that are not version gated
            path.insert(0, ps[0])
            seen.add(ps[0])
        return path

    def head(self, tag, drop_last=False, bad_enum=False, new_enum=None):
        b = self.blocks[tag]
        vals = []
        for f in b.fields:
            if isinstance(f, Param):
                if f.dim:
                    vals += [self.value(f.ty, f.name) for _ in range(f.dim)]
                elif f.ty in self.enums and bad_enum:
                    vals.append("NOT_A_VALUE_OF_THE_ENUM")
                    bad_enum = False
                elif f.ty in self.enums and new_enum and f.ty == new_enum[0]:
                    vals.append(new_enum[1])
                    new_enum = None
                else:
                    vals.append(self.value(f.ty, f.name))
            elif isinstance(f, Seq):
                for p in f.params:
                    vals.append(self.value(p.ty, p.name))
        if drop_last and vals:
            vals = vals[:-1]
        return vals

    def required_children(self, tag, skip=None):
        out = []
        for f in self.blocks[tag].fields:
            if isinstance(f, Ref) and f.mult in "!+" and self.in_version(f.vlow, f.vup):
                for n in f.names:
                    if n != skip and n in self.blocks:
                        out.append(n)
        return out

    def render(self, tag, indent, inner="", form=None, end_tag=None, **kw):
        b = self.blocks[tag]
        is_block = b.is_block if form is None else form
        pad = " " * indent
        if tag in ("A2ML", "IF_DATA"):
            return self.element(tag, indent // 2)
        t = pad + ("/begin " if is_block else "") + " ".join([tag] + self.head(tag, **kw)) + "\n" + inner
        if is_block:
            t += pad + "/end " + (end_tag or tag) + "\n"
        return t

    def document(self, path, leaf_text):
        """path: [PROJECT, ..., parent]; leaf_text: rendered children of parent"""
        inner = leaf_text
        for depth in range(len(path) - 1, -1, -1):
            tag = path[depth]
            below = path[depth + 1] if depth + 1 < len(path) else None
            req = "".join(self.render(r, 2 * (depth + 1), "".join(self.render(rr, 2 * (depth + 2)) for rr in self.required_children(r)))
                          for r in self.required_children(tag, skip=below) if r not in leaf_text.split())
            inner = self.render(tag, 2 * depth, inner + req)
        return "ASAP2_VERSION %d %d\n" % self.version + inner


def deviation_documents(dsl_text):
    """-> list of dicts {text, kind, element, parent, expect: ParserError variant, hard: bool, version}"""
    enums, blocks = parse_dsl(dsl_text)
    parents = {}
    for tag, b in blocks.items():
        for f in b.fields:
            if isinstance(f, Ref):
                for n in f.names:
                    parents.setdefault(n, [])
                    if tag not in parents[n]:
                        parents[n].append(tag)
    docs = []
    seen_blocks = set()
    for ptag in sorted(blocks):
        pb = blocks[ptag]
        if ptag == "A2L_FILE" or id(pb) in seen_blocks and False:
            continue
        for f in pb.fields:
            if not isinstance(f, Ref):
                continue
            for tag in f.names:
                if tag not in blocks or tag in ("A2ML", "IF_DATA"):
                    continue
                b = blocks[tag]
                base_version = (1, 71)
                if f.vup and base_version > f.vup:
                    base_version = f.vup

                def make(kind, expect, hard, version=base_version, count=1, **kw):
                    g = FocusGen(enums, blocks, version, parents)
                    path = g.path_to(ptag)
                    if path is None:
                        return
                    # ancestors must exist at this version
                    for a, c in zip(path, path[1:] + [tag]):
                        for ff in blocks[a].fields:
                            if isinstance(ff, Ref) and c in ff.names and not g.in_version(ff.vlow, None) and c != tag:
                                return
                    form = kw.pop("form", None)
                    end_tag = kw.pop("end_tag", None)
                    leaf = "".join(g.render(tag, 2 * len(path), "".join(g.render(r, 2 * (len(path) + 1)) for r in g.required_children(tag)), form=form, end_tag=end_tag, **kw)
                                   for _ in range(count))
                    docs.append({"text": g.document(path, leaf), "kind": kind, "element": tag, "parent": ptag, "expect": expect, "hard": hard,
                                 "version": "%d.%02d" % version})

                make("valid", "", False)
                plain = [x for x in b.fields if not isinstance(x, Ref)]
                # an element (or its parent) with an open-ended identifier list swallows whatever follows: the
                # deviation is still a fault, but its class depends on what the list consumed
                has_seq = any(isinstance(x, Seq) for x in b.fields)
                parent_seq = any(isinstance(x, Seq) for x in pb.fields)
                first_name = tag == f.names[0]      # further names of one reference (_Y, _Z, ...) share the element parser
                if first_name and plain and isinstance(plain[-1], Param):
                    make("missing_parameter", "*", True, drop_last=True)
                if f.mult in "?!" and not has_seq:
                    make("too_many", "InvalidMultiplicityTooMany", False, count=2)
                make("wrong_block_form", "*" if (parent_seq or has_seq) else ("IncorrectKeywordError" if not b.is_block else "IncorrectBlockError"), True, form=not b.is_block)
                if first_name and any(isinstance(x, Param) and x.ty in enums and not x.dim for x in b.fields):
                    make("unknown_enum_value", "InvalidEnumValue", True, bad_enum=True)
                if first_name and b.is_block:
                    # the block is closed with another tag: recoverable, like the other problems of a well-formed block
                    make("wrong_end_tag", "IncorrectEndTag", False, end_tag=tag + "_X")
                if f.vlow:
                    older = [v for v in VERSIONS if v < f.vlow]
                    if older:
                        make("too_new", "BlockRefTooNew", False, version=older[-1])
                    if f.vlow in VERSIONS and f.vlow != base_version:
                        make("valid", "", False, version=f.vlow)       # exactly at the lower bound: no diagnostic
                if f.vup:
                    newer = [v for v in VERSIONS if v > f.vup]
                    if newer:
                        make("deprecated", "BlockRefDeprecated", False, version=newer[0])
                for x in (b.fields if first_name else []):
                    if isinstance(x, Param) and x.ty in enums and not x.dim:
                        for val, lo, up in enums[x.ty]:
                            if lo:
                                older = [v for v in VERSIONS if v < lo and (not f.vlow or v >= f.vlow)]
                                if older:
                                    make("enum_value_too_new", "EnumRefTooNew", False, version=older[-1], new_enum=(x.ty, val))
                                if lo in VERSIONS and lo != (1, 71) and (not f.vlow or lo >= f.vlow):
                                    make("valid", "", False, version=lo, new_enum=(x.ty, val))   # enum value exactly at its lower bound
                            if up:
                                # enum value with an upper bound: valid exactly at the bound, a deprecation notice one version later
                                if up in VERSIONS and (not f.vlow or up >= f.vlow):
                                    make("valid", "", False, version=up, new_enum=(x.ty, val))
                                newer = [v for v in VERSIONS if v > up]
                                if newer:
                                    make("deprecated", "EnumRefDeprecated", False, version=newer[0], new_enum=(x.ty, val))
                        break
        # required sub-element missing
        for f in pb.fields:
            if isinstance(f, Ref) and f.mult in "!+" and ptag not in ("A2L_FILE",):
                g = FocusGen(enums, blocks, (1, 71), parents)
                gp = [p for p in parents.get(ptag, []) if p != "A2L_FILE"]
                if ptag != "PROJECT" and not gp:
                    continue
                path = g.path_to(gp[0]) if ptag != "PROJECT" else []
                if path is None:
                    continue
                others = "".join(g.render(r, 2 * (len(path) + 1)) for r in g.required_children(ptag, skip=f.names[0]))
                leaf = g.render(ptag, 2 * len(path), others)
                text = g.document(path, leaf) if path else "ASAP2_VERSION 1 71\n" + leaf
                docs.append({"text": text, "kind": "required_missing", "element": f.names[0], "parent": ptag, "expect": "InvalidMultiplicityNotPresent",
                             "hard": False, "version": "1.71"})
    return docs


def gated_documents(dsl_text):
    """documents for version-gated elements / enum values with the file version left open:
    -> list of (text_before_minor_version, text_after, lower bound as 100*major+minor or 0, upper bound or 0, kind)"""
    docs = deviation_documents(dsl_text)
    enums, blocks = parse_dsl(dsl_text)
    out = []
    seen = set()
    for d in docs:
        if d["kind"] not in ("too_new", "enum_value_too_new", "deprecated"):
            continue
        key = (d["kind"], d["element"], d["parent"], d["text"].split("\n", 1)[1])
        if key in seen:
            continue
        seen.add(key)
        pb = blocks[d["parent"]]
        ref = next(f for f in pb.fields if isinstance(f, Ref) and d["element"] in f.names)
        lo = up = 0
        kind = d["kind"]
        if d["kind"] == "too_new":
            lo = ref.vlow[0] * 100 + ref.vlow[1]
        elif d["kind"] == "deprecated" and d["expect"] == "EnumRefDeprecated":
            b = blocks[d["element"]]
            val = None
            for x in b.fields:
                if isinstance(x, Param) and x.ty in enums and not x.dim:
                    toks = d["text"].split()
                    for v, vlo, vup in enums[x.ty]:
                        if vup and v in toks:
                            val = (v, vup)
                    break
            if not val or ref.vlow or ref.vup:
                continue
            up = val[1][0] * 100 + val[1][1]
            kind = "enum_value_deprecated"
        elif d["kind"] == "deprecated":
            up = ref.vup[0] * 100 + ref.vup[1]
        else:
            b = blocks[d["element"]]
            val = None
            for x in b.fields:
                if isinstance(x, Param) and x.ty in enums and not x.dim:
                    toks = d["text"].split()
                    for v, vlo, vup in enums[x.ty]:
                        if vlo and v in toks:
                            val = (v, vlo)
                    break
            if not val:
                continue
            lo = val[1][0] * 100 + val[1][1]
            if ref.vlow and ref.vlow[0] * 100 + ref.vlow[1] > 150:
                continue        # element itself gated as well: two bounds interact, left to the fixed-version documents
        # ancestors / other values must be valid at every version: regenerate the body at the oldest version
        first, rest = d["text"].split("\n", 1)
        out.append((rest, lo, up, kind if d["expect"] == "EnumRefDeprecated" else d["kind"], d["element"], d["parent"]))
    return out


def gated_module(gdocs):
    out = ["pub(crate) const N_GATED: u32 = %d;" % len(gdocs),
           "/// (document without its ASAP2_VERSION line, lower bound, upper bound (100*major+minor, 0 = none), kind)",
           "pub(crate) fn gated_doc(k: u32) -> (&'static str, u32, u32, &'static str) {", "    match k {"]
    for i, (rest, lo, up, kind, el, par) in enumerate(gdocs):
        out.append("        %d => (%s, %d, %d, %s)," % (i, rust_str(rest), lo, up, rust_str(kind)))
    out.append('        _ => ("", 0, 0, ""),')
    out.append("    }\n}")
    return "\n".join(out) + "\n"


RUST_RESERVED = {"abstract", "as", "async", "await", "become", "box", "break", "const", "continue", "crate", "do", "dyn", "else", "enum", "extern", "false",
                 "final", "fn", "for", "if", "impl", "in", "let", "loop", "macro", "match", "mod", "move", "mut", "override", "priv", "pub", "ref", "return",
                 "Self", "self", "static", "struct", "super", "trait", "true", "try", "type", "typeof", "unsafe", "unsized", "use", "virtual", "where", "while", "yield"}


def make_varname(tag):
    n = tag.lower()
    return "var_" + n if n in RUST_RESERVED else n


def ucname_to_typename(name):
    if any(c.islower() for c in name):
        return name
    out, cap = [], True
    for c in name:
        if c == "_":
            cap = True
            continue
        out.append(c if cap else c.lower())
        cap = False
    return "".join(out)


def _literal(value, ty, enums):
    """Rust expression for the value token `value` of DSL type ty"""
    if ty == "ident":
        return rust_str(value)
    if ty == "string":
        return rust_str(value[1:-1])
    if ty in ("float", "double"):
        v = value if any(c in value for c in ".eE") else value + ".0"
        return v + "f64"
    if ty in enums:
        return "%s::%s" % (ty, ucname_to_typename(value))
    return value            # integer literal, decimal or hex, possibly negative


def readback_and_unknown(dsl_text):
    """C04: for every (parent, element) pair a document in specified form together with a Rust expression that reads every
    parameter of the element from the model *by the field names of the reference grammar* and compares it with the value in
    the document. C07: the same document with an unknown keyword directly in front of the element.
    -> (rust module text, info)"""
    enums, blocks = parse_dsl(dsl_text)
    parents = {}
    for tag, b in blocks.items():
        for f in b.fields:
            if isinstance(f, Ref):
                for n in f.names:
                    parents.setdefault(n, [])
                    if tag not in parents[n]:
                        parents[n].append(tag)

    def step(parent, child):
        pb = blocks[parent]
        ref = next(f for f in pb.fields if isinstance(f, Ref) and child in f.names)
        field = make_varname(child)
        if ref.mult == "!":
            return "." + field
        if ref.mult == "?":
            return "." + field + ".as_ref().unwrap()"
        return "." + field + "[0]"

    arms, unk, skipped = [], [], 0
    for ptag in sorted(blocks):
        if ptag == "A2L_FILE":
            continue
        pb = blocks[ptag]
        for f in pb.fields:
            if not isinstance(f, Ref):
                continue
            tag = f.names[0]
            if tag not in blocks or tag in ("A2ML", "IF_DATA"):
                continue
            b = blocks[tag]
            version = (1, 71)
            if f.vup and version > f.vup:
                version = f.vup
            g = FocusGen(enums, blocks, version, parents)
            path = g.path_to(ptag)
            if path is None:
                skipped += 1
                continue
            # element head with known values
            vals = []
            conds = []
            for x in b.fields:
                if isinstance(x, Param):
                    if x.dim:
                        vs = [g.value(x.ty, x.name) for _ in range(x.dim)]
                        vals += vs
                        conds.append("e.%s == [%s]" % (x.name, ", ".join(_literal(v, x.ty, enums) for v in vs)))
                    else:
                        v = g.value(x.ty, x.name)
                        vals.append(v)
                        conds.append("e.%s == %s" % (x.name, _literal(v, x.ty, enums)))
                elif isinstance(x, Seq):
                    vs = [g.value(p.ty, p.name) for p in x.params]
                    vals += vs
                    if len(x.params) == 1:
                        conds.append("e.%s.len() == 1 && e.%s[0] == %s" % (x.name, x.name, _literal(vs[0], x.params[0].ty, enums)))
                    else:
                        conds.append("e.%s.len() == 1" % x.name)
                        for p, v in zip(x.params, vs):
                            conds.append("e.%s[0].%s == %s" % (x.name, p.name, _literal(v, p.ty, enums)))
            pad = " " * (2 * len(path))
            req = "".join(g.render(r, 2 * (len(path) + 1)) for r in g.required_children(tag))
            leaf = pad + ("/begin " if b.is_block else "") + " ".join([tag] + vals) + "\n" + req
            if b.is_block:
                leaf += pad + "/end " + tag + "\n"
            doc = g.document(path, leaf)
            nav = "file.project"
            chain = path + [tag]
            for a, c in zip(chain, chain[1:]):
                nav += step(a, c)
            cond = " && ".join(conds) if conds else "true"
            arms.append((doc, nav, cond, tag, ptag))
            if not any(isinstance(x, Seq) for x in pb.fields):
                g2_leaf = pad + "FROBNICATE 1 \"x\" some_identifier\n" + leaf
                # the ancestors must be rendered with the same values: re-render with a generator in the same state is not possible,
                # so the unknown element is spliced textually in front of the element's first line
                first_line = leaf.split("\n", 1)[0]
                idx = doc.index(first_line)
                unk.append((doc[:idx] + pad + "FROBNICATE 1 \"x\" some_identifier\n" + doc[idx:], doc, tag, ptag))
    out = ["use crate::specification::*;", "use crate::A2lObjectName;",
           "pub(crate) const N_READBACK: u32 = %d;" % len(arms),
           "pub(crate) fn readback_doc(k: u32) -> &'static str {", "    match k {"]
    for i, (doc, nav, cond, tag, ptag) in enumerate(arms):
        out.append("        %d => %s," % (i, rust_str(doc)))
    out += ['        _ => "",', "    }", "}",
            "/// true iff every parameter of the element under test, read by the field names of the reference grammar, has the value written in the document",
            "#[allow(clippy::all)]", "pub(crate) fn readback_check(k: u32, file: &A2lFile) -> bool {", "    match k {"]
    for i, (doc, nav, cond, tag, ptag) in enumerate(arms):
        out.append("        %d => { let e = &%s; %s }   // %s in %s" % (i, nav, cond, tag, ptag))
    out += ["        _ => false,", "    }", "}",
            "pub(crate) const N_UNK: u32 = %d;" % len(unk),
            "/// (document with an unknown keyword directly in front of the element under test, the same document without it)",
            "pub(crate) fn unk_doc(k: u32) -> (&'static str, &'static str) {", "    match k {"]
    for i, (with_unknown, ref_doc, tag, ptag) in enumerate(unk):
        out.append("        %d => (%s, %s)," % (i, rust_str(with_unknown), rust_str(ref_doc)))
    out += ['        _ => ("", ""),', "    }", "}"]
    return "\n".join(out) + "\n", {"readback": len(arms), "unknown_before": len(unk), "skipped": skipped}


def rust_str(s):
    return '"' + s.replace("\\", "\\\\").replace('"', '\\"').replace("\n", "\\n") + '"'


def deviation_module(docs):
    out = ["// generated by /verif/vf/dslgen.py from the frozen reference grammar /verif/reference/a2l_grammar_dsl.txt",
           "pub(crate) const N_DEV: u32 = %d;" % len(docs),
           "/// (document, deviation kind, expected ParserError variant ('' = none, '*' = any), hard fault in both modes)",
           "pub(crate) fn dev_doc(k: u32) -> (&'static str, &'static str, &'static str, bool) {", "    match k {"]
    for i, d in enumerate(docs):
        out.append("        %d => (%s, %s, %s, %s)," % (i, rust_str(d["text"]), rust_str(d["kind"]), rust_str(d["expect"]), "true" if d["hard"] else "false"))
    out.append('        _ => ("", "", "", false),')
    out.append("    }\n}")
    # index tables for C06: documents with a recoverable problem (strict rejects, non-strict recovers and reports)
    rec = [i for i, d in enumerate(docs) if d["kind"] not in ("valid", "deprecated") and not d["hard"]]
    end = [i for i, d in enumerate(docs) if d["kind"] == "wrong_end_tag"]
    out.append("pub(crate) const DEV_RECOVERABLE: &[u32] = &[%s];" % ", ".join(map(str, rec)))
    out.append("pub(crate) const DEV_END_TAG: &[u32] = &[%s];" % ", ".join(map(str, end)))
    return "\n".join(out) + "\n"


# ---------------------------------------------------------------------------------------------- fingerprint module

INT_TYPES = ("u8", "u16", "u32", "u64", "usize", "i8", "i16", "i32", "i64", "isize")


def parse_structs(spec_rs):
    txt = re.sub(r"//[^\n]*", "", spec_rs)
    cut = txt.find("#[cfg(test)]")
    if cut > 0:
        txt = txt[:cut]
    enums = set(re.findall(r"(?m)^pub enum (\w+)\s*\{", txt))
    structs = {}
    for m in re.finditer(r"(?m)^pub(?:\(crate\))? struct (\w+)\s*\{\n(.*?)^\}", txt, re.S):
        fields = []
        for fm in re.finditer(r"(?m)^\s*(pub(?:\(crate\))?\s+)?(\w+):\s*([^\n]+?),?\s*$", m.group(2)):
            fields.append((fm.group(2), fm.group(3).strip().rstrip(","), bool(fm.group(1))))
        structs[m.group(1)] = fields
    return structs, enums


def fingerprint_module(spec_rs):
    structs, enums = parse_structs(spec_rs)
    skip_fields = {"__block_info", "a2lcomment", "merged_a2ml_text"}
    out = ["// generated by /verif/vf/dslgen.py from the struct definitions of specification.rs: a complete observation of a model",
           "use crate::specification::*;", "use crate::a2ml::GenericIfData;", "use crate::{A2lObjectName};", "",
           "fn fp_u64(v: u64, o: &mut Vec<u8>) { let mut k = 0; while k < 8 { o.push((v >> (8 * k)) as u8); k += 1; } }",
           "fn fp_str(s: &str, o: &mut Vec<u8>) { fp_u64(s.len() as u64, o); o.extend_from_slice(s.as_bytes()); }", ""]
    emitted, skipped = [], []

    def expr(ty, acc):
        """statement(s) serialising the value `acc` (a place expression of type ty, behind a reference)"""
        ty = ty.strip()
        if ty == "String":
            return "fp_str(&%s, o);" % acc
        if ty in INT_TYPES:
            return "fp_u64(%s as i64 as u64, o);" % acc
        if ty == "f64":
            return "fp_u64(%s.to_bits(), o);" % acc
        if ty == "f32":
            return "fp_u64(%s.to_bits() as u64, o);" % acc
        if ty == "bool":
            return "o.push(%s as u8);" % acc
        if ty in enums:
            return "fp_u64(%s as u64, o);" % acc
        m = re.match(r"^Option<(.+)>$", ty)
        if m:
            inner = expr(m.group(1), "(*v)")
            if inner is None:
                return None
            return "match &%s { Some(v) => { o.push(1); %s } None => o.push(0) }" % (acc, inner)
        m = re.match(r"^(?:Vec|ItemList)<(.+)>$", ty)
        if m:
            inner = expr(m.group(1), "(*v)")
            if inner is None:
                return None
            return "fp_u64(%s.len() as u64, o); for v in %s.iter() { %s }" % (acc, acc, inner)
        m = re.match(r"^\[(\w+);\s*(\d+)(?:usize)?\]$", ty)
        if m:
            inner = expr(m.group(1), "(*v)")
            return "for v in %s.iter() { %s }" % (acc, inner)
        if ty in ("a2ml::GenericIfData", "GenericIfData"):
            return "fp_str(&%s.write(0), o);" % acc
        if ty in structs:
            return "fp_%s(&%s, o);" % (ty, acc)
        return None

    for name, fields in sorted(structs.items()):
        if name in ("BlockInfo", "Comment"):
            continue
        body = []
        for fname, fty, _pub in fields:
            if fname in skip_fields:
                continue
            e = expr(fty, "x." + fname)
            if e is None:
                skipped.append("%s.%s: %s" % (name, fname, fty))
                continue
            body.append("    " + e)
        out.append("pub(crate) fn fp_%s(x: &%s, o: &mut Vec<u8>) {\n    o.push(b'{');\n%s\n    o.push(b'}');\n}" % (name, name, "\n".join(body)))
        emitted.append(name)
    out.append("")
    out.append("pub(crate) fn fingerprint(file: &A2lFile) -> Vec<u8> { let mut o = Vec::new(); fp_A2lFile(file, &mut o); o }")
    return "\n".join(out) + "\n", {"structs": len(emitted), "skipped_fields": skipped}


def dsl_body(spec_orig_text):
    key = "a2l_specification! {"
    i = spec_orig_text.index(key)
    k = i + len(key)
    depth = 1
    while depth:
        c = spec_orig_text[k]
        if c == '"':
            k += 1
            while spec_orig_text[k] != '"':
                k += 2 if spec_orig_text[k] == "\\" else 1
        elif c == "{":
            depth += 1
        elif c == "}":
            depth -= 1
        k += 1
    return spec_orig_text[i + len(key):k - 1]


if __name__ == "__main__":
    import sys
    root = sys.argv[1] if len(sys.argv) > 1 else "/repo"
    doc, info = every_element_document(dsl_body(open(root + "/a2lfile/src/specification_orig.rs").read()))
    print(info)
    open("/var/tmp/w/every_element.a2l", "w").write(doc)
    doc2, info_s = every_element_document(dsl_body(open(root + "/a2lfile/src/specification_orig.rs").read()), stagger=True)
    open("/var/tmp/w/every_element_staggered.a2l", "w").write(doc2)
    print("staggered", info_s["lines"])
    devs = deviation_documents(dsl_body(open(root + "/a2lfile/src/specification_orig.rs").read()))
    import collections
    print(len(devs), collections.Counter(d["kind"] for d in devs))
    gd = gated_documents(dsl_body(open(root + "/a2lfile/src/specification_orig.rs").read()))
    print("gated", len(gd), collections.Counter(g[3] for g in gd))
    rb, rbinfo = readback_and_unknown(dsl_body(open(root + "/a2lfile/src/specification_orig.rs").read()))
    print("readback", rbinfo)
    open("/var/tmp/w/verif_rb.rs", "w").write(rb)
    open("/var/tmp/w/verif_dev.rs", "w").write(deviation_module(devs) + gated_module(gd))
    import json
    json.dump(devs, open("/var/tmp/w/devs.json", "w"))
    mod, info2 = fingerprint_module(open(root + "/a2lfile/src/specification.rs").read())
    print(info2)
    open("/var/tmp/w/verif_fp.rs", "w").write(mod)
