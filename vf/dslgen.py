"""Two generators that make the whole-pipeline harnesses reach every generated parser / writer of the crate:

* every_element_document(dsl): reads the specification DSL (the body of `a2l_specification! { ... }` in
  a2lfile/src/specification_orig.rs of the tree under check) and builds one A2L document that contains every block and
  keyword of the grammar at least once (repeatable ones twice), every parameter filled with a value of its type.
* fingerprint_module(spec_rs): reads the struct / enum definitions of a2lfile/src/specification.rs and emits a Rust
  module with one function per struct that serialises every public data field of a model into bytes - a complete
  observation of the model that does not go through the writer."""
import re


# ---------------------------------------------------------------------------------------------- DSL parsing

class Ref:
    def __init__(self, names, mult, vlow, vup):
        self.names, self.mult, self.vlow, self.vup = names, mult, vlow, vup


class Param:
    def __init__(self, ty, name, dim=None):
        self.ty, self.name, self.dim = ty, name, dim


class Seq:
    def __init__(self, params, name):
        self.params, self.name = params, name


class Block:
    def __init__(self, names, is_block, fields):
        self.names, self.is_block, self.fields = names, is_block, fields


def _strip_comments(t):
    t = re.sub(r"///[^\n]*", "", t)
    return re.sub(r"//[^\n]*", "", t)


def expand_names(spec):
    parts = [p.strip() for p in spec.split("/")]
    names = [parts[0]]
    sfx = [p for p in parts[1:] if p]
    if sfx:
        base = parts[0][: len(parts[0]) - len(sfx[0])]
        names += [base + s for s in sfx]
    return names


def _version(s):
    m = re.match(r"\s*(\d+)\.(\d+)\s*$", s or "")
    return (int(m.group(1)), int(m.group(2))) if m else None


def parse_dsl(text):
    t = _strip_comments(text)
    enums, blocks = {}, {}
    pos = 0
    item_re = re.compile(r"\s*(block|keyword|enum)\s+([A-Za-z0-9_ /]+?)\s*\{")
    while True:
        m = item_re.match(t, pos)
        if not m:
            break
        kind, name = m.group(1), m.group(2).strip()
        i = m.end()
        depth = 1
        k = i
        while depth:
            c = t[k]
            depth += (c == "{") - (c == "}")
            k += 1
        body = t[i:k - 1]
        pos = k
        if kind == "enum":
            vals = []
            for part in body.split(","):
                mm = re.match(r"\s*([A-Za-z0-9_]+)\s*(?:\(\s*([\d.]*)\s*\.\.\s*([\d.]*)\s*\))?\s*$", part, re.S)
                if mm:
                    vals.append((mm.group(1), _version(mm.group(2)), _version(mm.group(3))))
            enums[name] = vals
            continue
        names = expand_names(name)
        fields = []
        j = 0
        while j < len(body):
            if body[j].isspace():
                j += 1
                continue
            if body[j] == "[":
                e = body.index("]", j)
                inner = body[j + 1:e]
                mm = re.match(r"\s*->\s*(.+?)\s*$", inner)
                rnames = expand_names(mm.group(1))
                j = e + 1
                mult = "?"
                mm = re.match(r"\s*([!*+])", body[j:])
                if mm and "\n" not in body[j:j + mm.end()]:
                    mult = mm.group(1)
                    j += mm.end()
                mm = re.match(r"[ \t]*\(\s*([\d.]*)\s*\.\.\s*([\d.]*)\s*\)", body[j:])
                vlow = vup = None
                if mm:
                    vlow, vup = _version(mm.group(1)), _version(mm.group(2))
                    j += mm.end()
                fields.append(Ref(rnames, mult, vlow, vup))
            elif body[j] == "{":
                e = body.index("}", j)
                inner = body[j + 1:e]
                params = [Param(a, b) for a, b in re.findall(r"([A-Za-z0-9_]+)\s+([a-z0-9_]+)", inner)]
                mm = re.match(r"\s*\*\s*([a-z0-9_]+)", body[e + 1:])
                fields.append(Seq(params, mm.group(1)))
                j = e + 1 + mm.end()
            else:
                mm = re.match(r"([A-Za-z0-9_]+)\s*(?:\[\s*(\d+)\s*\])?\s+([a-z0-9_]+)", body[j:])
                if not mm:
                    raise ValueError("DSL: cannot parse %r in %s" % (body[j:j + 40], name))
                fields.append(Param(mm.group(1), mm.group(3), int(mm.group(2)) if mm.group(2) else None))
                j += mm.end()
        b = Block(names, kind == "block", fields)
        for n in names:
            blocks[n] = b
    return enums, blocks


# ---------------------------------------------------------------------------------------------- document generation

class DocGen:
    def __init__(self, enums, blocks, version=(1, 71), repeat=2):
        self.enums, self.blocks, self.version, self.repeat = enums, blocks, version, repeat
        self.counter = 0
        self.emitted = set()

    def in_version(self, vlow, vup):
        if vlow and self.version < vlow:
            return False
        if vup and self.version > vup:
            return False
        return True

    def value(self, ty, name):
        self.counter += 1
        n = self.counter
        if ty == "ident":
            return "id%d" % n
        if ty == "string":
            return '"s %d"' % n
        if ty in ("float", "double"):
            return ["0", "1.5", "-2.25", "100", "0.001", "1e12"][n % 6]
        if ty in ("uchar",):
            return str(n % 200)
        if ty in ("char",):
            return str((n % 100) - 50)
        if ty == "uint":
            return ["0x%X" % (n % 60000), str(n % 60000)][n % 2]
        if ty == "int":
            return str((n % 30000) - 15000)
        if ty == "ulong":
            return ["0x%X" % (n * 65537 % 4000000000), str(n * 65537 % 4000000000)][n % 2]
        if ty == "long":
            return str((n * 65537 % 2000000000) - 1000000000)
        if ty == "uint64":
            return ["0x%X" % (n * 4294967311), str(n * 4294967311)][n % 2]
        if ty == "int64":
            return str(-(n * 4294967311))
        if ty in self.enums:
            ok = [v for v, lo, up in self.enums[ty] if self.in_version(lo, up)]
            return ok[n % len(ok)]
        raise ValueError("DSL: unknown parameter type %s (%s)" % (ty, name))

    def element(self, tag, indent, depth=0):
        b = self.blocks[tag]
        self.emitted.add(tag)
        pad = "  " * indent
        if tag == "A2ML":
            return pad + "/begin A2ML\n" + pad + '  block "IF_DATA" taggedunion if_data { "VERIF" struct { uint; char[20]; }; };\n' + pad + "/end A2ML\n"
        if tag == "IF_DATA":
            self.counter += 1
            return pad + "/begin IF_DATA VERIF %d \"ifd\"\n" % (self.counter % 60000) + pad + "/end IF_DATA\n"
        head = [("/begin " if b.is_block else "") + tag]
        subs = []
        for f in b.fields:
            if isinstance(f, Param):
                if f.dim:
                    head += [self.value(f.ty, f.name) for _ in range(f.dim)]
                else:
                    head.append(self.value(f.ty, f.name))
            elif isinstance(f, Seq):
                for _ in range(2):
                    for p in f.params:
                        head.append(self.value(p.ty, p.name))
            else:
                if not self.in_version(f.vlow, f.vup):
                    continue
                for n in f.names:
                    if n not in self.blocks:
                        continue
                    reps = self.repeat if f.mult in "*+" else 1
                    if depth > 6:
                        reps = 1 if f.mult in "!+" else 0
                    for _ in range(reps):
                        subs.append(self.element(n, indent + 1, depth + 1))
        out = pad + " ".join(head) + "\n" + "".join(subs)
        if b.is_block:
            out += pad + "/end " + tag + "\n"
        return out


def every_element_document(dsl_text, version=(1, 71), repeat=1):
    enums, blocks = parse_dsl(dsl_text)
    g = DocGen(enums, blocks, version, repeat)
    root = blocks["A2L_FILE"]
    out = ""
    for f in root.fields:
        for n in f.names:
            if n == "ASAP2_VERSION":
                out += "ASAP2_VERSION %d %d\n" % version
                g.emitted.add(n)
            elif n == "A2ML_VERSION":
                out += "A2ML_VERSION 1 31\n"
                g.emitted.add(n)
            else:
                out += g.element(n, 0)
    missing = sorted(set(blocks) - g.emitted - {"A2L_FILE"})
    return out, {"elements_in_grammar": len(set(blocks)) - 1, "elements_in_document": len(g.emitted), "not_in_document": missing,
                 "lines": out.count("\n")}


# ---------------------------------------------------------------------------------------------- fingerprint module

INT_TYPES = ("u8", "u16", "u32", "u64", "usize", "i8", "i16", "i32", "i64", "isize")


def parse_structs(spec_rs):
    txt = re.sub(r"//[^\n]*", "", spec_rs)
    cut = txt.find("#[cfg(test)]")
    if cut > 0:
        txt = txt[:cut]
    enums = set(re.findall(r"(?m)^pub enum (\w+)\s*\{", txt))
    structs = {}
    for m in re.finditer(r"(?m)^pub(?:\(crate\))? struct (\w+)\s*\{\n(.*?)^\}", txt, re.S):
        fields = []
        for fm in re.finditer(r"(?m)^\s*(pub(?:\(crate\))?\s+)?(\w+):\s*([^\n]+?),?\s*$", m.group(2)):
            fields.append((fm.group(2), fm.group(3).strip().rstrip(","), bool(fm.group(1))))
        structs[m.group(1)] = fields
    return structs, enums


def fingerprint_module(spec_rs):
    structs, enums = parse_structs(spec_rs)
    skip_fields = {"__block_info", "a2lcomment", "merged_a2ml_text"}
    out = ["// generated by /verif/vf/dslgen.py from the struct definitions of specification.rs: a complete observation of a model",
           "use crate::specification::*;", "use crate::a2ml::GenericIfData;", "use crate::{A2lObjectName};", "",
           "fn fp_u64(v: u64, o: &mut Vec<u8>) { let mut k = 0; while k < 8 { o.push((v >> (8 * k)) as u8); k += 1; } }",
           "fn fp_str(s: &str, o: &mut Vec<u8>) { fp_u64(s.len() as u64, o); o.extend_from_slice(s.as_bytes()); }", ""]
    emitted, skipped = [], []

    def expr(ty, acc):
        """statement(s) serialising the value `acc` (a place expression of type ty, behind a reference)"""
        ty = ty.strip()
        if ty == "String":
            return "fp_str(&%s, o);" % acc
        if ty in INT_TYPES:
            return "fp_u64(%s as i64 as u64, o);" % acc
        if ty == "f64":
            return "fp_u64(%s.to_bits(), o);" % acc
        if ty == "f32":
            return "fp_u64(%s.to_bits() as u64, o);" % acc
        if ty == "bool":
            return "o.push(%s as u8);" % acc
        if ty in enums:
            return "fp_u64(%s as u64, o);" % acc
        m = re.match(r"^Option<(.+)>$", ty)
        if m:
            inner = expr(m.group(1), "(*v)")
            if inner is None:
                return None
            return "match &%s { Some(v) => { o.push(1); %s } None => o.push(0) }" % (acc, inner)
        m = re.match(r"^(?:Vec|ItemList)<(.+)>$", ty)
        if m:
            inner = expr(m.group(1), "(*v)")
            if inner is None:
                return None
            return "fp_u64(%s.len() as u64, o); for v in %s.iter() { %s }" % (acc, acc, inner)
        m = re.match(r"^\[(\w+);\s*(\d+)(?:usize)?\]$", ty)
        if m:
            inner = expr(m.group(1), "(*v)")
            return "for v in %s.iter() { %s }" % (acc, inner)
        if ty in ("a2ml::GenericIfData", "GenericIfData"):
            return "fp_str(&%s.write(0), o);" % acc
        if ty in structs:
            return "fp_%s(&%s, o);" % (ty, acc)
        return None

    for name, fields in sorted(structs.items()):
        if name in ("BlockInfo", "Comment"):
            continue
        body = []
        for fname, fty, _pub in fields:
            if fname in skip_fields:
                continue
            e = expr(fty, "x." + fname)
            if e is None:
                skipped.append("%s.%s: %s" % (name, fname, fty))
                continue
            body.append("    " + e)
        out.append("pub(crate) fn fp_%s(x: &%s, o: &mut Vec<u8>) {\n    o.push(b'{');\n%s\n    o.push(b'}');\n}" % (name, name, "\n".join(body)))
        emitted.append(name)
    out.append("")
    out.append("pub(crate) fn fingerprint(file: &A2lFile) -> Vec<u8> { let mut o = Vec::new(); fp_A2lFile(file, &mut o); o }")
    return "\n".join(out) + "\n", {"structs": len(emitted), "skipped_fields": skipped}


def dsl_body(spec_orig_text):
    key = "a2l_specification! {"
    i = spec_orig_text.index(key)
    k = i + len(key)
    depth = 1
    while depth:
        c = spec_orig_text[k]
        if c == '"':
            k += 1
            while spec_orig_text[k] != '"':
                k += 2 if spec_orig_text[k] == "\\" else 1
        elif c == "{":
            depth += 1
        elif c == "}":
            depth -= 1
        k += 1
    return spec_orig_text[i + len(key):k - 1]


if __name__ == "__main__":
    import sys
    root = sys.argv[1] if len(sys.argv) > 1 else "/repo"
    doc, info = every_element_document(dsl_body(open(root + "/a2lfile/src/specification_orig.rs").read()))
    print(info)
    open("/var/tmp/w/every_element.a2l", "w").write(doc)
    mod, info2 = fingerprint_module(open(root + "/a2lfile/src/specification.rs").read())
    print(info2)
    open("/var/tmp/w/verif_fp.rs", "w").write(mod)
