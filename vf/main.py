"""./run_check.sh <PROPERTY> <quick|thorough>   |   ./run_check.sh <PROPERTY> --replay <file>"""
import json, os, random, sys, time, concurrent.futures as cf
from . import common as C
from . import kani_engine as K
from . import mir_engine as M
from .props import PROPS


def pick_jobs(prop, tier):
    spec = PROPS[prop]
    return [j for j in spec["jobs"] if tier == "thorough" or j.get("quick", True)]


def run_property(prop, tier, seed):
    t0 = time.time()
    spec = PROPS[prop]
    jobs = pick_jobs(prop, tier)
    rnd = random.Random(seed)
    rnd.shuffle(jobs)
    known = C.known_for(prop)
    known_ids = sorted({k["id"] for k in C.load_known().get("findings", [])})
    listed = {k["id"] for k in known}
    jobs = [j for j in jobs if not j.get("known") or j["known"] in listed]
    e1 = [j for j in jobs if j["engine"] == "E1"]
    e2 = [j for j in jobs if j["engine"] == "E2"]
    scratch = C.make_scratch(prop)
    repo = os.path.join(scratch, "repo")
    hashes = C.src_hashes(repo, spec.get("files", []))
    results = []        # per harness dicts
    violations = []     # confirmed (replayed) violations
    known_hits = []
    inconclusive = []
    hooks = []
    validated = 0
    # ------------------------------------------------------------- E2
    if e2:
        mods = sorted({j["module"] for j in e2} | {m for j in e2 for m in j.get("extra_modules", [])})
        hooks += M.inject(repo, mods, known_ids, spec.get("intree_macros", False), spec.get("grammar_deviations", False))
        mirpath, mir_s = M.dump_mir(scratch)
        with cf.ThreadPoolExecutor(max_workers=2) as ex:
            fut_native = ex.submit(M.build_native, scratch, False)
            # explore: harnesses in parallel, each with a share of the cores
            npar = min(len(e2), 4)
            procs = max(2, C.NCPU // npar)
            summaries = {}
            with cf.ThreadPoolExecutor(max_workers=npar) as ex2:
                futs = {ex2.submit(M.explore, scratch, mirpath, j["harness"], procs,
                                   (j.get("timeout_thorough", 3 * j.get("timeout", 240)) if tier == "thorough" else j.get("timeout", 240)), known_ids,
                                   j.get("max_steps", 2_000_000), None, j.get("msg_prefix")): j for j in e2}
                for f in cf.as_completed(futs):
                    summaries[futs[f]["harness"]] = f.result()
            try:
                exe = fut_native.result()
            except Exception as e:
                exe = None
                inconclusive.append("native build failed: %s" % str(e)[-800:])
        for j in e2:
            h = j["harness"]
            s = summaries[h]
            r = {"engine": "E2", "harness": h, "functions": j.get("functions", []), "bound": j.get("bound", ""),
                 "paths": s["paths"], "status_counts": s["status_counts"], "queries": s["queries_sum"],
                 "solver_s": s["solver_s_sum"], "steps": s["steps_sum"], "covers": s["covers"], "wall_s": s["wall_s"],
                 "result": "pass"}
            if not s["complete"]:
                r["result"] = "inconclusive"
                r["why"] = s["inconclusive"][:3]
                inconclusive.append("%s: %s" % (h, s["inconclusive"][:2]))
            for c in j.get("must_cover", []):
                if not s["covers"].get(c):
                    r["result"] = "inconclusive"
                    inconclusive.append("%s: vacuity witness '%s' not reached" % (h, c))
            if s["paths"] and not s["status_counts"].get("ok") and not s["violations"]:
                r["result"] = "inconclusive"
                inconclusive.append("%s: no path reaches the end of the harness (vacuous)" % h)
            # differential validation of the encoder on sampled paths + replay of violations
            if exe:
                samples = s["samples"]
                rnd.shuffle(samples)
                samples = samples[: j.get("validate", 60 if tier == "quick" else 300)]
                cases = [(h, x["inputs"]) for x in samples]
                vcases = [(h, v["inputs"]) for v in s["violations"] if "inputs" in v]
                nat, raw = M.run_native_batch(exe, scratch, cases + [c for c, v in zip(vcases, [v for v in s["violations"] if "inputs" in v]) if v["kind"] != "steplimit"], timeout=180, msg_prefix=j.get("msg_prefix"))
                # suspected non-termination: replay one by one under a watchdog
                hang_nat = {}
                for idx, v in enumerate([v for v in s["violations"] if "inputs" in v]):
                    if v["kind"] == "steplimit":
                        hn, _ = M.run_native_batch(exe, scratch, [(h, v["inputs"])], timeout=20)
                        hang_nat[idx] = hn[0] if hn and hn[0] else {"outcome": "hang", "obs": [], "panic": None, "checks": [], "covers": []}
                vn = []
                it = iter(nat[len(cases):])
                for idx, v in enumerate([v for v in s["violations"] if "inputs" in v]):
                    vn.append(hang_nat[idx] if idx in hang_nat else next(it, None))
                nat = nat[: len(cases)] + vn
                mism = 0
                for x, n in zip(samples, nat[: len(cases)]):
                    if n is None or n["outcome"] != "ok" or n["obs"] != x["obs"]:
                        mism += 1
                        if mism <= 3:
                            inconclusive.append("%s: encoder/native mismatch on inputs %s: predicted ok obs=%s, native %s" % (
                                h, x["inputs"], x["obs"], n))
                validated += len(cases) - mism
                r["validated_paths"] = len(cases) - mism
                if mism:
                    r["result"] = "inconclusive"
                for v, n in zip([v for v in s["violations"] if "inputs" in v], nat[len(cases):]):
                    if j.get("msg_prefix") and v["kind"] == "check" and not v["msg"].startswith(j["msg_prefix"]):
                        continue   # assertion belongs to the sibling property that shares this harness
                    reproduced = n is not None and n["outcome"] in ("panic", "hang", "crash")
                    if reproduced and j.get("msg_prefix") and v["kind"] == "check" and n["outcome"] == "panic":
                        # shared harness: the native run must trip over an assertion of this property, not of a sibling
                        reproduced = any(c.startswith(j["msg_prefix"]) for c in (n.get("checks") or [])) or not (n.get("checks") or [])
                    if not reproduced and v.get("alt_inputs") and v["kind"] != "steplimit":
                        # the same assertion failed on other paths as well: a demonic model (e.g. unstable sort) may
                        # predict a failure that this std version only shows for some of the inputs
                        alt, _ = M.run_native_batch(exe, scratch, [(h, a) for a in v["alt_inputs"]], timeout=180, msg_prefix=j.get("msg_prefix"))
                        for a, na in zip(v["alt_inputs"], alt):
                            same_prop = [c for c in (na.get("checks") or []) if c.split(" ")[0] == v["msg"].split(" ")[0]] if na else []
                            if na is not None and na["outcome"] in ("panic", "hang", "crash") and (v["kind"] != "check" or same_prop):
                                # the native run may trip over a later assertion of the same property than the model did
                                v = dict(v, inputs=a, msg=(same_prop[0] if same_prop else v["msg"]))
                                n = na
                                reproduced = True
                                break
                    entry = {"harness": h, "kind": v["kind"], "msg": v["msg"], "where": v.get("where"), "inputs": v["inputs"],
                             "native": n, "paths": v.get("count", 1)}
                    if reproduced:
                        kf = match_known(known, h, v, n)
                        if kf:
                            known_hits.append((kf, entry))
                        else:
                            violations.append(entry)
                            r["result"] = "fail"
                    else:
                        r["result"] = "inconclusive"
                        inconclusive.append("%s: solver counterexample did not reproduce natively (%s / %s) -> encoder suspect" % (
                            h, v["msg"], n and n["outcome"]))
            elif s["violations"]:
                r["result"] = "inconclusive"
            r["sample"] = (s["samples"][:1] or [None])[0]
            results.append(r)
    # ------------------------------------------------------------- E1
    if e1:
        mods = sorted({j["module"] for j in e1})
        hooks += K.inject(repo, mods, known_ids)
        filters = [j["harness"] for j in e1]
        tmo = max(j.get("timeout_thorough" if tier == "thorough" else "timeout", 240) for j in e1)
        extra = []
        if all(j.get("no_overflow_checks") for j in e1):
            extra = ["--no-overflow-checks"]
        res, raw, lpath, wall, logtxt = K.run(scratch, filters, tmo, min(C.NCPU, max(1, len(e1))), tag="k", extra_args=extra, exact=False)
        if res is None:
            inconclusive.append("kani run produced no result: " + logtxt[-1500:])
            res = {}
        for j in e1:
            matched = {k: v for k, v in res.items() if k == j["harness"]}
            if not matched:
                inconclusive.append("%s: harness did not run" % j["harness"])
                results.append({"engine": "E1", "harness": j["harness"], "result": "inconclusive"})
                continue
            for hn, hr in matched.items():
                r = {"engine": "E1", "harness": hn, "functions": j.get("functions", []), "bound": j.get("bound", ""),
                     "checks": hr["n_checks"], "failed": hr["n_failed"], "covers": hr["covers"], "cbmc": hr["cbmc"],
                     "wall_s": hr["duration_s"], "result": hr["status"]}
                for c in hr["covers"]:
                    if c["status"] not in ("Satisfied", "SATISFIED"):
                        r["result"] = "inconclusive" if r["result"] == "pass" else r["result"]
                        inconclusive.append("%s: vacuity witness '%s' %s" % (hn, c["description"], c["status"]))
                if hr["status"] == "inconclusive":
                    inconclusive.append("%s: %s" % (hn, hr.get("why") or "no verdict"))
                if hr["status"] == "fail":
                    pb = K.playback(scratch, hn, timeout_s=tmo, tag="pb-" + hn)
                    entry = {"harness": hn, "kind": "kani", "msg": "; ".join(str(c["description"]) for c in hr["failed_checks"]),
                             "failed_checks": hr["failed_checks"], "playback_test": pb.get("test_src"), "native": (pb.get("native_output") or "")[-1500:]}
                    if pb.get("reproduced"):
                        kf = match_known(known, hn, {"msg": entry["msg"], "kind": "kani"}, None)
                        if kf:
                            known_hits.append((kf, entry))
                            r["result"] = "known"
                        else:
                            violations.append(entry)
                    else:
                        r["result"] = "inconclusive"
                        inconclusive.append("%s: CBMC counterexample did not reproduce natively (reproduced=%s)" % (hn, pb.get("reproduced")))
                results.append(r)
    wall = time.time() - t0
    # ------------------------------------------------------------- verdict + evidence
    states = sum(r.get("paths", 0) for r in results) + sum((r.get("cbmc") or {}).get("size_program_expression", 0) or 0 for r in results)
    # E2: solver queries discharged + fork edges of the exploration tree (one per explored path; choice forks need no solver)
    transitions = sum(r.get("queries", 0) + r.get("paths", 0) for r in results) + sum(r.get("checks", 0) for r in results)
    samples = []
    for r in results[:6]:
        samples.append({"harness": r["harness"], "bound": r.get("bound"), "result": r["result"], "example_path_inputs": r.get("sample")})
    cov = {
        "states": max(states, 0), "transitions": max(transitions, 0),
        "traces_validated_against_impl": validated + len(violations) + len(known_hits),
        "samples": samples,
        "exhaustive": False,
        "explanation": "states = symbolic paths explored to completion (E2) + CBMC SSA steps (E1); transitions = solver queries discharged plus "
                       "fork edges of the path tree (E2; bounded choices fork without a query) + properties decided by CBMC (E1). "
                       "Every verdict is bounded: see 'harnesses[].bound'.",
        "solver_queries": sum(r.get("queries", 0) for r in results),
        "harnesses": results,
        "functions_encoded": sorted({f for r in results for f in r.get("functions", [])}),
        "source_hashes": hashes,
        "solver_time_s": round(sum(r.get("solver_s", 0) for r in results) + sum(((r.get("cbmc") or {}).get("runtime_decision_procedure_s") or 0) for r in results), 2),
        "inconclusive": inconclusive,
        "known_findings_hit": [{"id": k["id"], "harness": e["harness"], "msg": e["msg"]} for k, e in known_hits],
        "trusted_base": spec.get("trusted", []),
        "scratch_injections": hooks,
    }
    C.write_evidence(prop, tier, seed, cov, spec.get("assumptions", []), wall, len(violations))
    for k, e in known_hits:
        C.out("KNOWN-FINDING: property=%s %s (%s) [harness %s: %s]" % (prop, k["id"], k["what"], e["harness"], e["msg"][:120]))
    # stale known findings are reported on stderr only
    hit_ids = {k["id"] for k, _ in known_hits}
    for k in known:
        if k["id"] not in hit_ids and any(j["harness"] in k.get("harnesses", [j["harness"]]) for j in jobs):
            C.log("note: known finding %s did not show up in this run" % k["id"])
    rc = 0
    if violations:
        for e in violations:
            path = C.write_replay(prop, e["harness"], {"property": prop, "tier": tier, **e})
            C.out("VIOLATION property=%s replay=%s" % (prop, path))
            C.log("  %s: %s inputs=%s" % (e["harness"], e["msg"], e.get("inputs")))
        rc = 1
    elif inconclusive:
        for m in inconclusive[:12]:
            C.log("INCONCLUSIVE: " + m)
        rc = 2
    C.log("%s %s: %d harnesses, %d violations, %d known, %d inconclusive, %.1fs" % (prop, tier, len(results), len(violations), len(known_hits), len(inconclusive), wall))
    return rc


def match_known(known, harness, v, native):
    """a known finding matches by harness name and message substring (both stated in known_findings.json)"""
    for k in known:
        if harness in k.get("harnesses", []) and all(s in v["msg"] for s in k.get("msg_contains", [])):
            return k
    return None


def replay(prop, path):
    e = json.load(open(path))
    spec = PROPS[prop]
    scratch = C.make_scratch(prop + "-replay")
    repo = os.path.join(scratch, "repo")
    known_ids = sorted({k["id"] for k in C.load_known().get("findings", [])})
    h = e["harness"]
    job = [j for j in spec["jobs"] if j["harness"] == h][0]
    if job["engine"] == "E2":
        M.inject(repo, sorted({job["module"]} | set(job.get("extra_modules", []))), known_ids, PROPS[prop].get("intree_macros", False), PROPS[prop].get("grammar_deviations", False))
        ok = True
        for rel in (False, True):
            exe = M.build_native(scratch, rel)
            nat, raw = M.run_native_batch(exe, scratch, [(h, e["inputs"])], timeout=60)
            n = nat[0]
            C.out("replay %s (%s): %s" % (h, "release" if rel else "dev", n))
            if rel is False and not (n and n["outcome"] in ("panic", "hang", "crash")):
                ok = False
        return 1 if ok else 0
    K.inject(repo, [job["module"]], known_ids)
    # put the recorded playback test into the harness module and run it
    src = os.path.join(repo, "a2lfile", "src", job["module"] + ".rs")
    txt = open(src).read().rstrip()
    assert txt.endswith("}")
    txt = txt[:-1] + "\n" + e["playback_test"] + "\n}\n"
    open(src, "w").write(txt)
    import re
    name = re.search(r"fn (kani_concrete_playback_\w+)", e["playback_test"]).group(1)
    r = K.run_playback_test(scratch, name)
    C.out("replay %s: reproduced=%s" % (h, r.get("reproduced")))
    C.out(r.get("native_output", "")[-1500:])
    return 1 if r.get("reproduced") else 0


def main():
    if len(sys.argv) < 3:
        print(__doc__)
        sys.exit(64)
    prop = sys.argv[1]
    if prop not in PROPS:
        print("unknown or unclaimed property", prop)
        sys.exit(64)
    if PROPS[prop].get("driver") == "c20":
        from . import c20
        if sys.argv[2] == "--replay":
            sys.exit(c20.replay(prop, sys.argv[3]))
        tier = sys.argv[2] if sys.argv[2] in ("quick", "thorough") else (os.environ.get("VERIF_TIER") or "quick")
        sys.exit(c20.run_property(prop, tier, int(os.environ.get("VERIF_SEED", "0"))))
    if sys.argv[2] == "--replay":
        sys.exit(replay(prop, sys.argv[3]))
    tier = os.environ.get("VERIF_TIER") or sys.argv[2]
    if sys.argv[2] in ("quick", "thorough"):
        tier = sys.argv[2]
    seed = int(os.environ.get("VERIF_SEED", "0"))
    sys.exit(run_property(prop, tier, seed))


if __name__ == "__main__":
    try:
        main()
    except SystemExit:
        raise
    except BaseException as e:
        # an infrastructure failure (scratch build, harness no longer compiles against a changed tree, tool missing) is
        # neither a pass nor a violation: exit 2, never 1
        import traceback
        traceback.print_exc()
        sys.stderr.write("INCONCLUSIVE: the check could not be carried out: %s\n" % (str(e)[-1500:],))
        sys.exit(2)
