"""Manifest texts per claimed property, and the not_applicable list (kept current with props.py)."""
from .props import PROPS

CLAIMS = {
    "C03": {
        "engine": "E2-mirsym",
        "text": "Bounded symbolic execution of the hand-written scanners and parser helpers from the MIR of the current tree: for every input inside the stated bound no MIR assert (bounds, overflow), unwrap/expect or explicit panic is reachable and every loop terminates within the step budget; counterexamples are replayed natively before being reported.",
        "design_ref": "DESIGN.md section 4 C03",
        "note": "Trusted: the std models of E2 (validated every run against the native build on sampled paths), z3, rustc's MIR. Outside: the generated element parsers, inputs longer than the bounds, stack depth, memory exhaustion.",
        "technique": "SMT-based bounded symbolic execution of MIR (z3), native replay of counterexamples",
    },
    "C13": {
        "engine": "E2-mirsym",
        "text": "One-step inductive check by bounded symbolic execution: from every reachable list of <= 3 uniquely named items (symbolic names) one arbitrary operation with symbolic arguments is executed on the real ItemList code (MIR) and compared with a vector-of-names reference model; the representation invariant (name index <-> positions) is re-established and no panic is reachable. Covers histories of any length over lists <= 3.",
        "design_ref": "DESIGN.md section 4 C13",
        "note": "Trusted: HashMap association-list model (std HashMap itself is not verified), other E2 std models, z3. Outside: lists longer than 3, names longer than one byte, duplicate names.",
        "technique": "SMT-based bounded symbolic execution of MIR (z3), inductive step over symbolic pre-states, native replay",
    },
    "C12": {
        "engine": "E2-mirsym",
        "text": "The numeric kernel of the limit check (range calculation per data type and conversion kind, tolerant comparison) is executed symbolically from MIR with f64 coefficients and declared limits as solver variables over the whole coefficient grid of the property; the computed range is compared with the property's formulas. Unbounded in value within the grid, bounded in shape (one conversion, one object).",
        "design_ref": "DESIGN.md section 4 C12",
        "note": "Trusted: z3 FP theory, E2 encoder (validated natively on sampled paths). The oracle for LINEAR/RAT_FUNC is compared bit-exactly (see assumptions in the evidence). Outside: the dispatch from objects to data types/conversions (C11 harnesses), NaN/infinite coefficients.",
        "technique": "SMT (z3 FP theory) over symbolically executed MIR, native replay",
    },
    "C15": {
        "engine": "E2-mirsym",
        "text": "Induction on one call: from an arbitrary pre-state (placed elements with arbitrary distinct u32 position ids, new elements with id 0; <= 3 items per list, two kinds, optional singletons) one call of the real sort_new_items / sort_objectlist_new is executed symbolically; the relative order of placed elements under the writer's order is unchanged, each new element sits directly after the last placed one of its kind, and no arithmetic overflow is reachable - except the recorded known finding D7 (ids >= 2^31).",
        "design_ref": "DESIGN.md section 4 C15",
        "note": "Trusted: E2 std models (sort_by = stable insertion sort calling the real comparator), z3. Outside: more than 3 items per list, the textual output. Known finding D7 is listed in known_findings.json and demonstrated by a twin harness on every run.",
        "technique": "SMT-based bounded symbolic execution of MIR (z3), one inductive step over symbolic u32 ids, native replay",
    },
    "C14": {
        "engine": "E2-mirsym",
        "text": "sort_objectlist_full and sort() executed symbolically on small modules with symbolic names and previous ids: same elements with equal content, lists ordered by name, ids consecutive in the documented kind order, name index rebuilt, second sort is the identity.",
        "design_ref": "DESIGN.md section 4 C14",
        "note": "Trusted: E2 std models, generated PartialEq impls are executed from MIR. Outside: text output and reload, modules larger than the stated shape.",
        "technique": "SMT-based bounded symbolic execution of MIR (z3), native replay",
    },
    "C02": {
        "engine": "E2-mirsym",
        "text": "Integer literal fidelity per field type: for every literal text within the stated digit bounds (symbolic digits, both cases, optional sign) the real get_integer either stores a value that denotes exactly the literal or returns an error - no silent truncation. Decided by z3 over the symbolically executed MIR; counterexamples replayed natively.",
        "design_ref": "DESIGN.md section 4 C02",
        "note": "Trusted: E2 model of from_str_radix / str::parse for integers. Outside: token conservation through the generated element parsers, comments, floats, uninterpreted IF_DATA (H02b/c not built).",
        "technique": "SMT-based bounded symbolic execution of MIR (z3 bit-vectors), native replay",
    },
    "C01": {
        "engine": "E2-mirsym",
        "text": "Two of the mechanisms behind save/reload stability are decided symbolically on the real code: (a) add_quoted_string -> tokenize_core/find_string_end -> get_string/unescape_string is the identity on every string over the escape-relevant alphabet up to 4 chars, and re-writing a loaded string is a fixpoint; (b) add_integer -> get_integer returns the same value and notation for every value of each integer type (decimal of 32/64-bit types: bands next to the range ends).",
        "design_ref": "DESIGN.md section 4 C01 (H01a, H01b)",
        "note": "Trusted: E2 fmt/parse models. Outside: the 185 generated parse/stringify pairs, floats, line-offset bookkeeping (C05), A2ML raw capture, k>=2 cycles beyond the fixpoint argument.",
        "technique": "SMT-based bounded symbolic execution of MIR (z3), native replay",
    },
    "C07": {
        "engine": "E2-mirsym",
        "text": "The skipping routine is executed symbolically on every well-formed unknown element of the bounded shape (keyword with <= 3 arguments, block with <= 3 items incl. nested unknown blocks and comments; identifiers and strictness symbolic) followed by something the enclosing block understands: non-strict => Ok, exactly one warning, cursor on the first token of the remainder; strict => UnknownSubBlock error naming the element.",
        "design_ref": "DESIGN.md section 4 C07",
        "note": "Trusted: E2 std models; the tokenizer is executed as well (texts are built per path). Outside: the interaction with each block's real TAG_LIST and the model equality of the whole file with/without the element.",
        "technique": "SMT-based bounded symbolic execution of MIR (z3), native replay",
    },
    "C05": {
        "engine": "E2-mirsym",
        "text": "The whole load -> write pipeline (tokenizer, generated parsers and writers of the elements in the template, line-offset bookkeeping, comment handling) is executed by the symbolic executor on a template document whose layout is chosen per gap from the layouts the property allows (spaces, line breaks, blank lines, CRLF, both comment kinds, multi-line comments): every significant token keeps its line, the token sequence is unchanged, the reloaded model is equal and the second write is identical.",
        "design_ref": "DESIGN.md section 4 C05 / C01 H01c",
        "note": "The layout choices are enumerated by forking (bounded shape); the solver is only needed for feasibility. Trusted: E2 std models. Outside: element kinds not in the template, edit locality.",
        "technique": "bounded symbolic execution of MIR (fork per layout choice), native replay of counterexamples and sampled paths",
    },
    "C11": {
        "engine": "E2-mirsym",
        "text": "check() is executed by the symbolic executor on modules produced by the real parser from a template that populates 41 reference sites: the consistent module yields an empty report, each single corrupted site yields a cross reference error naming the missing target and no other cross reference error, the NO_* conventions are honoured, the model is unchanged, and 0..=7 AXIS_DESCR never make it panic.",
        "design_ref": "DESIGN.md section 4 C11",
        "note": "The cases are enumerated by forking (bounded shape: one corrupted site at a time). Trusted: E2 std models. Outside: THIS. references, group structure, combinations of several corrupted sites.",
        "technique": "bounded symbolic execution of MIR (fork per corrupted site), native replay of counterexamples and of every explored path",
    },
    "C10": {
        "engine": "E2-mirsym",
        "text": "cleanup() is executed by the symbolic executor on template modules produced by the real parser: objects and typedefs are unchanged, a helper kept alive from exactly one reference site (14 sites, including the unusual ones) survives, every unreferenced helper is removed, a consistent file stays consistent under check(), and a second cleanup changes nothing (also for REF_UNIT chains).",
        "design_ref": "DESIGN.md section 4 C10",
        "note": "The cases are enumerated by forking (bounded shape: one keeping site per case, chains <= 3). Trusted: E2 std models. Outside: arbitrary reference graphs beyond these shapes, cycles of SUB_GROUP/SUB_FUNCTION.",
        "technique": "bounded symbolic execution of MIR (fork per case), native replay of counterexamples and of every explored path",
    },
    "C09": {
        "engine": "E2-mirsym",
        "text": "merge_modules is executed by the symbolic executor on modules produced by the real parser from a template that populates 30+ reference sites. With an A that conflicts on every name, every element of B must reappear as NAME.MERGE and equal B's element with all references rewritten - a whole-element comparison, so a forgotten rename site anywhere in the populated elements is a counterexample; plus check() stays clean.",
        "design_ref": "DESIGN.md section 4 C08/C09",
        "note": "Scenarios are enumerated by forking (bounded shape). Trusted: E2 std models. Outside: reference sites not in the template (list in harness/lib.rs MERGE_T / MERGE_T2), partial conflicts with cascading renames.",
        "technique": "bounded symbolic execution of MIR (fork per scenario), native replay of counterexamples and of every explored path",
    },
    "C08": {
        "engine": "E2-mirsym",
        "text": "Conservation and uniqueness under merge on the same template scenarios (A unchanged, B represented, identical copy / empty module are no-ops, merge into empty yields B), fresh-name generation with pre-existing X.MERGE / X.MERGE2 names chosen symbolically, and cross-kind name clashes inside the shared namespaces.",
        "design_ref": "DESIGN.md section 4 C08/C09",
        "note": "Trusted: E2 std models incl. core::fmt for the .MERGEn names. Outside: sequences of several merges, namespaces not in the templates.",
        "technique": "bounded symbolic execution of MIR (z3 for the symbolic presence bits), native replay",
    },
    "C17": {
        "engine": "E2-mirsym",
        "text": "load() (decode_raw_bytes + BOM rule, real code from MIR) is executed symbolically on files whose bytes are the reference encoding of k <= 3 symbolic Unicode scalar values in each of the 10 encodings: the loaded text equals the characters. Plus: every byte string up to 4 bytes decodes without panic and odd-length non-UTF-8 input is read as Latin-1.",
        "design_ref": "DESIGN.md section 4 C17",
        "note": "Trusted: E2 models of the std UTF-8/UTF-16 decoders and of file I/O (virtual file system). Outside: texts longer than 3 characters, NUL and U+FEFF as content characters.",
        "technique": "SMT-based bounded symbolic execution of MIR (z3 bit-vectors over symbolic code points), native replay",
    },
    "C16": {
        "engine": "E2-mirsym",
        "text": "Loading through /include (virtual file system) is compared with loading the flattened text for every splitting of a three-element document into main + inc1 + nested inc2 with quoted/unquoted names; the written file (same directory) and the merge_includes() output must load to an equal model; a missing include must be an error naming the directive. Include names in sub-directories (both separators, quoted / unquoted, decoy files of the same name next to the main file and in the current directory, A2ML /include inside an included fragment) must be resolved relative to the including file.",
        "design_ref": "DESIGN.md section 4 C16",
        "note": "Splittings and directory layouts are enumerated by forking. Trusted: virtual file system and std::path models (validated natively in a real temp directory on every sampled path). Outside: absolute paths, Windows drive prefixes, self-including files, unreadable files.",
        "technique": "bounded symbolic execution of MIR (fork per splitting), native replay against real files in a temp directory",
    },
    "C06": {
        "engine": "E2-mirsym",
        "text": "The whole loader is executed by the symbolic executor on one document per fault kind (18 kinds, two layouts) and on one generated document per block element of the grammar whose end tag is wrong (thorough: every generated document with one recoverable problem), once strict and once non-strict: strict Ok implies non-strict Ok with equal models; strict fails exactly when non-strict reports a problem that is not a deprecation notice (or fails too); every diagnostic carries the line of the faulty token. The skipping routine is additionally run with a symbolic strictness flag.",
        "design_ref": "DESIGN.md section 4 C06",
        "note": "Fault kinds are enumerated by forking (bounded shape); only the call sites reached by the template are covered. Trusted: E2 std models. Outside: IF_DATA interplay, combinations of several problems in one document.",
        "technique": "bounded symbolic execution of MIR (fork per fault kind, symbolic strictness in the helper harnesses), native replay",
    },
    "C19": {
        "engine": "E2-mirsym",
        "text": "The in-tree generator behind a2ml_specification! is run on the current tree for two fixed invocations that together use every A2ML construct it accepts; the generated data structures, parse()/store() functions and A2ML text constants are compiled into a2lfile's scratch copy and executed by the symbolic executor from MIR: (a) store_to_ifdata then load_from_ifdata is the identity for every value of every scalar member (solver variables) and every member kind; (b) typed value -> store -> write (A2ML text = generated constant) -> strict load -> decode gives an equal value, so the constant is accepted by the library's A2ML parser and describes the same structure; (c) parsed instance -> decode -> store -> write reproduces model and text; (d) IF_DATA valid under a different in-file definition (12 mismatch shapes) decodes to None without panic.",
        "design_ref": "DESIGN.md section 4 C19",
        "note": "Bounded: two invocations, repeated members <= 2, strings <= 2 chars, the listed mismatch family. Trusted: rustfmt and proc_macro2's fallback (generator run outside the compiler), E2 std models (HashMap as association list). Outside: the proc-macro glue in a2lmacros/src/lib.rs, other invocations, integer sequences (generated code does not compile).",
        "technique": "SMT-based bounded symbolic execution of the MIR of freshly generated code (z3 bit-vectors/FP for scalar members, fork per member kind / instance), native replay",
    },
    "C04": {
        "engine": "E2-mirsym",
        "text": "The reference grammar (a frozen copy of the specification DSL) is turned into documents by a generator: one per (parent, element) pair in its specified form - at version 1.71 and exactly at the lower version bound of every version-gated element and enum value - and one per single deviation (last parameter missing, optional element twice, wrong /begin../end form, unknown enum value, element or enum value newer than the declared version, deprecated element, required element missing). The whole loader (tokenizer, generated parser of every element on the path, writer) is executed by the symbolic executor on the MIR of the current tree for every document in strict and non-strict mode: the specified form loads without any diagnostic and every value is written back; each deviation produces its diagnostic class (hard error in both modes, or strict error / non-strict warning, or deprecation notice).",
        "design_ref": "DESIGN.md section 4 C04",
        "note": "The deciding step for the structural deviations is exhaustive execution of a finite, generated document family (1206 documents, 203 of 205 grammar elements) by the symbolic executor - the documents are concrete, so no solver query is involved there; the version gates (101 documents) are decided by the solver with the file version symbolic. Trusted: the frozen DSL as reference grammar and the generator /verif/vf/dslgen.py. Outside: parameter value spaces (C02), combinations of deviations, A2ML / IF_DATA content, whole random documents.",
        "technique": "bounded symbolic execution of MIR over a generated finite document family (fork per document); version gates decided by z3 with the file version as solver variable; native replay",
    },
    "C20": {
        "engine": "E2-mirsym x 2 builds",
        "text": "Relational check of two builds of the crate made from the current tree: A = as shipped, B = a2lfile/src/specification.rs replaced by what the in-tree generator (a2lmacros::a2lspec::a2l_specification, run outside the compiler on the DSL in specification_orig.rs) produces now. The same observation harnesses are executed symbolically on the MIR of both builds; every completed path is exported as (input shape, path condition, observations); for every pair of paths over the same input shape z3 is asked for an input that satisfies both path conditions and makes an observation differ (load result, diagnostics, written text). unsat for all pairs = the builds are observationally equal on every input of the bounded families; a model is replayed natively on both builds before it is reported.",
        "design_ref": "DESIGN.md section 4 C20",
        "note": "Bounded to the observation harness families (see assumptions in the evidence); NOT a claim over all inputs. Trusted: rustfmt, proc_macro2 fallback, E2 std models (validated natively on sampled paths of both builds). Outside: the proc-macro glue in a2lmacros/src/lib.rs, elements that no observation document contains.",
        "technique": "SMT-based product check (z3) over the path conditions and observations of two symbolically executed builds (MIR), native replay on both builds",
    },
    "C18": {
        "engine": "E2-mirsym",
        "text": "For a fixed family of twelve A2ML definitions the whole loader (A2ML capture, runtime A2ML parser, type-directed IF_DATA parser, fallback parser, writer, ifdata_cleanup) is executed by the symbolic executor on a conforming and on a deviating instance, with LF and CRLF line ends: validity flag is exact, every token survives load and write, and ifdata_cleanup removes exactly the invalid blocks; definitions whose sequence element matches zero tokens must not make loading spin.",
        "design_ref": "DESIGN.md section 4 C18",
        "note": "NOT a claim over all A2ML definitions: a bounded family enumerated by forking. Trusted: E2 std models. Outside: built-in specification argument, depth > 2, generated instances.",
        "technique": "bounded symbolic execution of MIR (fork per definition/instance/line-end), step budget + native watchdog for non-termination, native replay",
    },
}

_PENDING = "check not built yet in this revision of /verif (see DESIGN.md section 7 for the order of work)"
_NA_FIXED = {
}
NOT_APPLICABLE = []
for i in range(1, 21):
    pid = "C%02d" % i
    if pid in PROPS:
        continue
    NOT_APPLICABLE.append({"property_id": pid, "reason": _NA_FIXED.get(pid, _PENDING)})
