"""E2 driver: inject Rust harness modules into a scratch copy, dump MIR, explore symbolically, validate natively."""
import json, os, re, subprocess, sys, time, glob
from . import common as C

NIGHTLY = "+nightly"


def harness_names(modfile):
    txt = open(os.path.join(C.VERIF, "harness", modfile + ".rs")).read()
    names = re.findall(r"pub\(crate\) fn (h_\w+)\s*\(\s*\)", txt)
    # harness names produced by macro invocations:  some_macro!(h_a, h_b, h_c, ...)
    for m in re.finditer(r"^\w+!\(((?:h_\w+,\s*)+)", txt, re.M):
        names += re.findall(r"h_\w+", m.group(1))
    return names


def link_intree_macros(scratch_repo):
    """a2lfile's lock file resolves a2lmacros to the registry release; properties about the in-tree generator (C19)
    need the scratch copy to link /repo/a2lmacros instead (path dependency; cargo re-resolves offline)."""
    p = os.path.join(scratch_repo, "a2lfile", "Cargo.toml")
    s = open(p).read()
    s2 = re.sub(r'(\[dependencies\.a2lmacros\]\n)', r'\1path = "../a2lmacros"\n', s, count=1)
    if s2 == s:
        s2 = re.sub(r'(?m)^a2lmacros\s*=\s*"[^"]*"\s*$', 'a2lmacros = { path = "../a2lmacros" }', s, count=1)
    if s2 == s:
        raise RuntimeError("could not redirect the a2lmacros dependency to the in-tree crate")
    open(p, "w").write(s2)
    return ["a2lfile/Cargo.toml: a2lmacros -> path ../a2lmacros (in-tree generator instead of the registry release)"]


EXPAND_RE = re.compile(r"//@EXPAND_A2ML_BEGIN\n(.*?)//@EXPAND_A2ML_END\n", re.S)


def expand_a2ml_specs(scratch_repo, body):
    """Replace every //@EXPAND_A2ML_BEGIN ... //@EXPAND_A2ML_END region by the code the in-tree generator
    (a2lmacros::a2mlspec::a2ml_specification, the function behind the a2ml_specification! proc macro) produces for it on
    the current tree.  The generator is run as a test of the scratch copy of a2lmacros (proc_macro2 works outside the
    compiler), its token stream is pretty-printed with rustfmt so that every generated impl has its own source span
    (inside a macro invocation all impls share one span, which the MIR encoder cannot tell apart)."""
    specs = EXPAND_RE.findall(body)
    if not specs:
        return body
    lib = os.path.join(scratch_repo, "a2lmacros", "src", "lib.rs")
    txt = open(lib).read()
    if "mod verif_expand" not in txt:
        with open(lib, "a") as f:
            f.write('''
#[cfg(test)]
mod verif_expand {
    #[test]
    fn vrt_expand() {
        let n: usize = std::env::var("VRT_NSPEC").unwrap().parse().unwrap();
        for i in 0..n {
            let spec = std::fs::read_to_string(format!("{}.{}", std::env::var("VRT_SPEC").unwrap(), i)).unwrap();
            let ts: proc_macro2::TokenStream = spec.parse().unwrap();
            let out = crate::a2mlspec::a2ml_specification(ts);
            std::fs::write(format!("{}.{}", std::env::var("VRT_OUT").unwrap(), i), out.to_string()).unwrap();
        }
    }
}
''')
    base = os.path.join(scratch_repo, "..", "a2mlspec")
    for i, sp in enumerate(specs):
        open("%s.in.%d" % (base, i), "w").write(sp)
    env = C.env_offline({"VRT_SPEC": base + ".in", "VRT_OUT": base + ".out", "VRT_NSPEC": str(len(specs))})
    p = subprocess.run(["cargo", "test", "--offline", "-p", "a2lmacros", "--lib", "--target-dir",
                        os.path.join(scratch_repo, "..", "tgt-macros"), "verif_expand::vrt_expand", "--", "--exact"],
                       cwd=scratch_repo, env=env, stdout=subprocess.PIPE, stderr=subprocess.STDOUT, text=True)
    if p.returncode != 0:
        raise RuntimeError("in-tree a2ml_specification generator failed:\n" + p.stdout[-3000:])
    outs = []
    for i in range(len(specs)):
        o = "%s.out.%d" % (base, i)
        rs = o + ".rs"
        os.rename(o, rs)
        q = subprocess.run(["rustfmt", "--edition", "2021", rs], stdout=subprocess.PIPE, stderr=subprocess.STDOUT, text=True)
        if q.returncode != 0:
            raise RuntimeError("rustfmt of the generated code failed:\n" + q.stdout[-2000:])
        outs.append(open(rs).read())
    it = iter(outs)
    return EXPAND_RE.sub(lambda m: next(it), body)


def inject(scratch_repo, modules, known_ids, intree_macros=False, grammar_deviations=False):
    src = os.path.join(scratch_repo, "a2lfile", "src")
    table = []
    pre = link_intree_macros(scratch_repo) if intree_macros else []
    for m in modules:
        rel = m.replace("__", "/") + ".rs"
        body = expand_a2ml_specs(scratch_repo, open(os.path.join(C.VERIF, "harness", m + ".rs")).read())
        with open(os.path.join(src, rel), "a") as f:
            f.write("\n#[cfg(verif)]\n#[allow(unused, clippy::all)]\npub(crate) mod verif_h {\nuse super::*;\n")
            f.write(body)
            f.write("\n}\n")
        for h in harness_names(m):
            modpath = "" if m == "lib" else m.replace("__", "::") + "::"
            table.append((h, "crate::%sverif_h::%s" % (modpath, h)))
    # data files used by harnesses through include_str!
    for fn in os.listdir(os.path.join(C.VERIF, "harness")):
        if fn.endswith(".txt"):
            import shutil
            shutil.copy(os.path.join(C.VERIF, "harness", fn), os.path.join(src, fn))
    # generated inputs: a document with every element of the grammar (from the DSL of the tree under check) and a
    # module that serialises every data field of a model (from the struct definitions of specification.rs)
    from . import dslgen
    try:
        doc, dinfo = dslgen.every_element_document(dslgen.dsl_body(open(os.path.join(src, "specification_orig.rs")).read()))
        doc_ifd, _ = dslgen.every_element_document(dslgen.dsl_body(open(os.path.join(src, "specification_orig.rs")).read()), repeat=2, ifdata_mix=True)
        doc_x2, _ = dslgen.every_element_document(dslgen.dsl_body(open(os.path.join(src, "specification_orig.rs")).read()), repeat=2)
        doc_st, _ = dslgen.every_element_document(dslgen.dsl_body(open(os.path.join(src, "specification_orig.rs")).read()), stagger=True)
        fpmod, finfo = dslgen.fingerprint_module(open(os.path.join(src, "specification.rs")).read())
        pre.append("a2lfile/src/verif_every_element.txt (generated from the DSL: %d of %d grammar elements, %d lines), a2lfile/src/verif_fp.rs (generated: %d structs)" % (
            dinfo["elements_in_document"], dinfo["elements_in_grammar"], dinfo["lines"], finfo["structs"]))
    except Exception as e:      # a tree whose DSL / struct definitions the generators do not understand: harnesses that need them become vacuous (must_cover)
        doc = "ASAP2_VERSION 1 71\n/begin PROJECT p \"\"\n/end PROJECT\n"
        doc_st = doc
        doc_x2 = doc
        doc_ifd = doc
        fpmod = "use crate::specification::*;\npub(crate) fn fingerprint(_file: &A2lFile) -> Vec<u8> { Vec::new() }\npub(crate) const VERIF_FP_STUB: bool = true;\n"
        pre.append("dslgen failed (%s): stub every-element document and fingerprint module" % str(e)[:200])
    # C04: single deviations from the frozen reference grammar (only built when a property asks for them: large)
    devmod = ("pub(crate) const N_DEV: u32 = 0;\npub(crate) fn dev_doc(_k: u32) -> (&'static str, &'static str, &'static str, bool) { (\"\", \"\", \"\", false) }\npub(crate) const DEV_RECOVERABLE: &[u32] = &[];\npub(crate) const DEV_END_TAG: &[u32] = &[];\n"
              "pub(crate) const N_GATED: u32 = 0;\npub(crate) fn gated_doc(_k: u32) -> (&'static str, u32, u32, &'static str) { (\"\", 0, 0, \"\") }\n")
    if grammar_deviations:
        ref = open(os.path.join(C.VERIF, "reference", "a2l_grammar_dsl.txt")).read()
        devs = dslgen.deviation_documents(ref)
        gated = dslgen.gated_documents(ref)
        devmod = dslgen.deviation_module(devs) + dslgen.gated_module(gated)
        import collections
        pre.append("a2lfile/src/verif_dev.rs (generated from /verif/reference/a2l_grammar_dsl.txt: %d documents %s, %d version-open documents)" % (len(devs), dict(collections.Counter(d["kind"] for d in devs)), len(gated)))
    open(os.path.join(src, "verif_dev.rs"), "w").write(devmod)
    rbmod = ("use crate::specification::*;\npub(crate) const N_READBACK: u32 = 0;\npub(crate) fn readback_doc(_k: u32) -> &'static str { \"\" }\n"
             "pub(crate) fn readback_check(_k: u32, _file: &A2lFile) -> bool { false }\npub(crate) const N_UNK: u32 = 0;\n"
             "pub(crate) fn unk_doc(_k: u32) -> (&'static str, &'static str) { (\"\", \"\") }\n")
    if grammar_deviations:
        rbmod, rbinfo = dslgen.readback_and_unknown(open(os.path.join(C.VERIF, "reference", "a2l_grammar_dsl.txt")).read())
        pre.append("a2lfile/src/verif_rb.rs (generated from the reference grammar: %s)" % json.dumps(rbinfo))
    open(os.path.join(src, "verif_rb.rs"), "w").write(rbmod)
    if "VERIF_FP_STUB" not in fpmod:
        fpmod += "pub(crate) const VERIF_FP_STUB: bool = false;\n"
    open(os.path.join(src, "verif_every_element.txt"), "w").write(doc)
    open(os.path.join(src, "verif_every_element_staggered.txt"), "w").write(doc_st)
    open(os.path.join(src, "verif_every_element_x2.txt"), "w").write(doc_x2)
    open(os.path.join(src, "verif_every_element_ifdata.txt"), "w").write(doc_ifd)
    open(os.path.join(src, "verif_fp.rs"), "w").write(fpmod)
    rt = open(os.path.join(C.VERIF, "harness", "verif_rt.rs")).read()
    rt += "\nstatic VRT_KNOWN: &[&str] = &[%s];\n" % ", ".join('"%s"' % k for k in known_ids)
    rt += "pub(crate) fn vrt_dispatch(name: &str) -> bool {\n    match name {\n"
    for h, path in table:
        rt += '        "%s" => %s(),\n' % (h, path)
    rt += "        _ => return false,\n    }\n    true\n}\n"
    with open(os.path.join(src, "verif_rt.rs"), "w") as f:
        f.write(rt)
    with open(os.path.join(src, "lib.rs"), "a") as f:
        f.write("\n#[cfg(verif)]\n#[allow(unused, clippy::all)]\npub(crate) mod verif_rt;\n#[cfg(verif)]\n#[allow(unused, clippy::all)]\npub(crate) mod verif_fp;\n#[cfg(verif)]\n#[allow(unused, clippy::all)]\npub(crate) mod verif_dev;\n#[cfg(verif)]\n#[allow(unused, clippy::all)]\npub(crate) mod verif_rb;\n")
    return pre + ["a2lfile/src/%s.rs += /verif/harness/%s.rs (cfg(verif))" % (m.replace("__", "/"), m) for m in modules] + [
        "a2lfile/src/verif_rt.rs (new, cfg(verif))"]


SLOW = {"factor": 1.0}
NOMINAL_MIR_S = 14.0      # MIR dump of the crate with all harness modules on the idle 16-core sandbox: 8-12 s


def note_speed(mir_seconds):
    """calibrate all time limits against the machine as it is right now (the dump is a fixed amount of work)"""
    SLOW["factor"] = min(12.0, max(1.0, mir_seconds / NOMINAL_MIR_S))
    return SLOW["factor"]


def dump_mir(scratch):
    repo = os.path.join(scratch, "repo")
    out = os.path.join(scratch, "a2l.mir")
    t0 = time.time()
    with open(out, "w") as f, open(os.path.join(scratch, "mir.err"), "w") as e:
        p = subprocess.run(["cargo", NIGHTLY, "rustc", "--offline", "-p", "a2lfile", "--lib", "--target-dir",
                            os.path.join(scratch, "tgt-mir"), "--", "-Zunpretty=mir", "-C", "overflow-checks=on",
                            "--cfg", "verif", "-Awarnings"],
                           cwd=repo, env=C.env_offline(), stdout=f, stderr=e)
    if p.returncode != 0 or os.path.getsize(out) < 1000:
        raise RuntimeError("MIR dump failed:\n" + open(os.path.join(scratch, "mir.err")).read()[-3000:])
    note_speed(time.time() - t0)
    return out, time.time() - t0


def build_native(scratch, release=False):
    """cargo test --no-run with --cfg verif; returns path of the lib test binary"""
    repo = os.path.join(scratch, "repo")
    env = C.env_offline({"RUSTFLAGS": "--cfg verif -Awarnings"})
    cmd = ["cargo", "test", "--offline", "-p", "a2lfile", "--lib", "--no-run", "--message-format=json",
           "--target-dir", os.path.join(scratch, "tgt-native")]
    if release:
        cmd.insert(2, "--release")
    p = subprocess.run(cmd, cwd=repo, env=env, stdout=subprocess.PIPE, stderr=subprocess.PIPE, text=True)
    exe = None
    for line in p.stdout.splitlines():
        try:
            j = json.loads(line)
        except Exception:
            continue
        if j.get("reason") == "compiler-artifact" and j.get("executable") and j.get("target", {}).get("name") == "a2lfile":
            exe = j["executable"]
    if p.returncode != 0 or not exe:
        raise RuntimeError("native build failed:\n" + p.stderr[-3000:])
    return exe


def run_native_batch(exe, scratch, cases, timeout=120, msg_prefix=None):
    """cases: list of (harness, [ints]); returns list of dict(outcome, obs, panic, checks) or None on hang/crash"""
    bpath = os.path.join(scratch, "batch.%d.txt" % os.getpid())
    with open(bpath, "w") as f:
        for h, vals in cases:
            f.write("%s %s\n" % (h, ",".join(str(v) for v in vals)))
    timeout = int(timeout * SLOW["factor"])
    env = dict(os.environ)
    env["VRT_BATCH"] = bpath
    env["VRT_PREFIX"] = msg_prefix or ""
    env["RUST_BACKTRACE"] = "0"
    try:
        p = subprocess.run([exe, "verif_rt::vrt_replay_entry", "--exact", "--nocapture", "--test-threads", "1"],
                           env=env, stdout=subprocess.PIPE, stderr=subprocess.STDOUT, text=True, timeout=timeout, errors="replace")
        out = p.stdout
        hung = False
    except subprocess.TimeoutExpired as e:
        out = (e.stdout or b"").decode("utf-8", "replace") if isinstance(e.stdout, bytes) else (e.stdout or "")
        hung = True
    res = [None] * len(cases)
    cur = None
    for line in out.splitlines():
        k = line.find("VRT-")
        if k > 0:
            line = line[k:]
        if line.startswith("VRT-BEGIN "):
            cur = int(line.split()[1])
            res[cur] = {"outcome": "hang" if hung else "crash", "obs": [], "panic": None, "checks": [], "covers": []}
        elif cur is not None and line.startswith("VRT-OBS "):
            t = line[8:].strip()
            res[cur]["obs"].append(json.loads(t))
        elif cur is not None and line.startswith("VRT-PANIC "):
            res[cur]["panic"] = line[10:]
        elif cur is not None and line.startswith("VRT-CHECK-FAILED "):
            res[cur]["checks"].append(line[17:])
        elif cur is not None and line.startswith("VRT-COVER "):
            res[cur]["covers"].append(line[10:])
        elif cur is not None and line.startswith("VRT-END "):
            res[cur]["outcome"] = line.split()[2]
            if res[cur]["outcome"] == "panic" and res[cur]["panic"] and "VRT-ASSUME-FAILED" in res[cur]["panic"]:
                res[cur]["outcome"] = "assume_failed"
            cur = None
    return res, out


def expand_a2l_spec(scratch_repo):
    """C20: replace a2lfile/src/specification.rs of the scratch copy by a fresh expansion of the DSL in
    specification_orig.rs: the in-tree generator a2lmacros::a2lspec::a2l_specification (the function behind the
    a2l_specification! proc macro) is run as a test of the scratch copy of a2lmacros, its output is pretty-printed with
    rustfmt (distinct spans per impl) and spliced between the hand-written head and tail of specification_orig.rs."""
    src = os.path.join(scratch_repo, "a2lfile", "src")
    orig = open(os.path.join(src, "specification_orig.rs")).read()
    key = "a2l_specification! {"
    i = orig.index(key)
    k = i + len(key)
    depth = 1
    while depth > 0:
        c = orig[k]
        if c == '"':
            k += 1
            while orig[k] != '"':
                if orig[k] == "\\":
                    k += 1
                k += 1
        elif c == "{":
            depth += 1
        elif c == "}":
            depth -= 1
        k += 1
    body, head, tail = orig[i + len(key):k - 1], orig[:i], orig[k:]
    lib = os.path.join(scratch_repo, "a2lmacros", "src", "lib.rs")
    with open(lib, "a") as f:
        f.write('''
#[cfg(test)]
mod verif_expand_a2l {
    #[test]
    fn vrt_expand_a2l() {
        let spec = std::fs::read_to_string(std::env::var("VRT_SPEC").unwrap()).unwrap();
        let ts: proc_macro2::TokenStream = spec.parse().unwrap();
        let out = crate::a2lspec::a2l_specification(ts);
        std::fs::write(std::env::var("VRT_OUT").unwrap(), out.to_string()).unwrap();
    }
}
''')
    base = os.path.join(scratch_repo, "..", "a2lspec")
    open(base + ".in", "w").write(body)
    env = C.env_offline({"VRT_SPEC": base + ".in", "VRT_OUT": base + ".out.rs"})
    p = subprocess.run(["cargo", "test", "--offline", "-p", "a2lmacros", "--lib", "--target-dir",
                        os.path.join(scratch_repo, "..", "tgt-macros"), "verif_expand_a2l::vrt_expand_a2l", "--", "--exact"],
                       cwd=scratch_repo, env=env, stdout=subprocess.PIPE, stderr=subprocess.STDOUT, text=True)
    if p.returncode != 0 or not os.path.exists(base + ".out.rs"):
        raise RuntimeError("in-tree a2l_specification generator failed:\n" + p.stdout[-3000:])
    q = subprocess.run(["rustfmt", "--edition", "2021", base + ".out.rs"], stdout=subprocess.PIPE, stderr=subprocess.STDOUT, text=True)
    if q.returncode != 0:
        raise RuntimeError("rustfmt of the generated code failed:\n" + q.stdout[-2000:])
    gen = open(base + ".out.rs").read()
    head = head.replace("use a2lmacros::a2l_specification;", "")
    shipped = open(os.path.join(src, "specification.rs")).read()
    # the harness module appended by inject() must survive the replacement
    hm = shipped.find("\n#[cfg(verif)]\n#[allow(unused, clippy::all)]\npub(crate) mod verif_h {")
    appended = shipped[hm:] if hm >= 0 else ""
    with open(os.path.join(src, "specification.rs"), "w") as f:
        f.write("#![allow(clippy::all)]\n" + head + gen + tail + appended)
    return {"dsl_bytes": len(body), "generated_lines": gen.count("\n"), "shipped_lines": shipped.count("\n")}


def explore(scratch, mirpath, harness, procs, timeout, known, max_steps=2_000_000, export_smt=None, msg_prefix=None):
    outdir = os.path.join(scratch, "e2out")
    os.makedirs(outdir, exist_ok=True)
    timeout = int(timeout * SLOW["factor"])
    cmd = ["python3-vt", "-m", "mirsym.run", "--mir", mirpath, "--repo", os.path.join(scratch, "repo"), "--harness", harness,
           "--out", outdir, "--procs", str(procs), "--timeout", str(timeout), "--max-steps", str(max_steps),
           "--known", ",".join(known)]
    if export_smt:
        cmd += ["--export-smt", export_smt]
    if msg_prefix:
        cmd += ["--msg-prefix", msg_prefix]
    env = dict(os.environ)
    env["MIRSYM_SLOW"] = "%.2f" % SLOW["factor"]
    p = subprocess.run(cmd, cwd=C.VERIF, stdout=subprocess.PIPE, stderr=subprocess.PIPE, text=True, env=env)
    sp = os.path.join(outdir, harness + ".summary.json")
    if not os.path.exists(sp):
        return {"harness": harness, "paths": 0, "complete": False, "violations": [], "samples": [], "status_counts": {},
                "inconclusive": [["engine crashed: " + p.stderr[-1500:], 1]], "steps_sum": 0, "queries_sum": 0, "solver_s_sum": 0,
                "covers": {}, "wall_s": 0}
    return json.load(open(sp))
