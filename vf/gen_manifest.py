"""Regenerate MANIFEST.json from vf/props.py (claimed) and vf/not_applicable.py."""
import json, os, sys
sys.path.insert(0, os.path.dirname(os.path.dirname(os.path.abspath(__file__))))
from vf.props import PROPS
from vf.claims import CLAIMS, NOT_APPLICABLE

BASE = "cd /repo && cargo test --workspace --no-fail-fast --offline"
m = {
    "version": 1,
    "setup_cmd": "cargo kani --version && python3-vt -c 'import z3' && cargo +nightly --version && rustfmt --version && mkdir -p /verif/evidence",
    "hooks": {
        "guard": "none committed: harness modules are appended to a scratch copy of /repo under cfg(verif) (E2) / cfg(kani) (E1) at run time",
        "enable": "./run_check.sh copies /repo's working tree to /var/tmp/a2lverif.*, appends /verif/harness/<module>.rs as `#[cfg(verif)] mod verif_h` (and /verif/kani/<module>.rs as `#[cfg(kani)] mod verif_kani`) to the matching module file of the copy, adds a2lfile/src/verif_rt.rs, and builds the copy with --cfg verif",
        "baseline_off_cmd": BASE,
        "source_commits": [],
        "add_only": True,
    },
    "engines": [
        {"name": "E2-mirsym", "path": "mirsym/", "serves_properties": sorted(p for p in PROPS if any(j["engine"] == "E2" for j in PROPS[p]["jobs"])),
         "kind_free_text": "own bounded path-wise symbolic executor over rustc's MIR dump of the crate (regenerated every run) with z3; forks per feasible branch; counterexamples and sampled paths are replayed against the native build"},
        {"name": "E1-kani", "path": "kani/", "serves_properties": sorted(p for p in PROPS if any(j["engine"] == "E1" for j in PROPS[p]["jobs"])),
         "kind_free_text": "Kani 0.68 / CBMC 6.11 proof harnesses over kani::any() inputs on the compiled crate"},
    ],
    "checks": [],
    "not_applicable": NOT_APPLICABLE,
    "notes": "exit 0 = held within the stated bounds; exit 1 + VIOLATION line = counterexample replayed against the native build; exit 2 = inconclusive (solver cap, unmodelled callee, encoder/native mismatch) - never reported as pass.",
}
for pid in sorted(PROPS):
    c = CLAIMS[pid]
    m["checks"].append({
        "property_id": pid,
        "quick_cmd": "./run_check.sh %s quick" % pid,
        "thorough_cmd": "./run_check.sh %s thorough" % pid,
        "evidence_file": "/verif/evidence/%s.json" % pid,
        "replay_cmd_template": "./run_check.sh %s --replay {path}" % pid,
        "engine": c["engine"],
        "level_claimed": {"category": "model_checking", "text": c["text"], "design_ref": c["design_ref"]},
        "level_note": c["note"],
        "technique": c["technique"],
    })
claimed = set(PROPS)
assert not (claimed & {n["property_id"] for n in NOT_APPLICABLE}), "claimed and not_applicable overlap"
json.dump(m, open(os.path.join(os.path.dirname(os.path.dirname(os.path.abspath(__file__))), "MANIFEST.json"), "w"), indent=1)
print("checks:", sorted(claimed), "n/a:", [n["property_id"] for n in NOT_APPLICABLE])
