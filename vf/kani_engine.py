"""E1: run Kani/CBMC harnesses on a scratch copy of the crate.

Harness files live in /verif/kani/<module>.rs and are appended to the matching module file of the
scratch copy as `#[cfg(kani)] mod verif_kani { use super::*; ... }` so private items are reachable.
"""
import json, os, re, subprocess, time
from . import common as C


def known_consts(known_ids):
    arms = " | ".join('"%s"' % k for k in known_ids) if known_ids else '"__none__"'
    return (
        "#[allow(dead_code)]\npub(crate) fn verif_known(id: &str) -> bool { matches!(id, %s) }\n" % arms
    )


def inject(scratch_repo, modules, known_ids):
    """Append harness modules to the scratch copy (never to /repo)."""
    injected = []
    for m in modules:
        src = os.path.join(C.VERIF, "kani", m + ".rs")
        dst = os.path.join(scratch_repo, "a2lfile", "src", m + ".rs")
        with open(src) as f:
            body = f.read()
        with open(dst, "a") as f:
            f.write("\n#[cfg(kani)]\n#[allow(unused, clippy::all)]\nmod verif_kani {\nuse super::*;\n")
            f.write(known_consts(known_ids))
            f.write(body)
            f.write("\n}\n")
        injected.append("a2lfile/src/%s.rs += /verif/kani/%s.rs" % (m, m))
    return injected


def run(scratch, filters, timeout_s, jobs, mem_kb=14_000_000, tag="k", extra_args=None, exact=False):
    """One cargo-kani invocation for all harnesses matching the filters. Returns (results, raw_json, logpath)."""
    repo = os.path.join(scratch, "repo")
    tgt = os.path.join(scratch, "tgt-" + tag)
    jpath = os.path.join(scratch, tag + ".json")
    lpath = os.path.join(scratch, tag + ".log")
    cmd = ["cargo", "kani", "-Z", "stubbing", "-Z", "unstable-options", "--target-dir", tgt,
           "-j", str(jobs), "--output-format", "terse", "--harness-timeout", "%ds" % timeout_s,
           "--export-json", jpath]
    if exact:
        cmd.append("--exact")
    for f in filters:
        cmd += ["--harness", f]
    if extra_args:
        cmd += extra_args
    shell = "ulimit -v %d; exec %s" % (mem_kb, " ".join("'%s'" % c for c in cmd))
    t0 = time.time()
    # global watchdog: compile (~60 s) + ceil(n/jobs) rounds of harness timeouts
    with open(lpath, "w") as lf:
        p = subprocess.run(["bash", "-c", shell], cwd=os.path.join(repo, "a2lfile"), env=C.env_offline(),
                           stdout=lf, stderr=subprocess.STDOUT, timeout=None)
    wall = time.time() - t0
    results = {}
    raw = None
    if os.path.exists(jpath):
        try:
            raw = json.load(open(jpath))
        except Exception:
            raw = None
    logtxt = open(lpath, errors="replace").read()
    if raw is None:
        return None, None, lpath, wall, logtxt
    stats = {c["harness_id"]: c.get("cbmc_stats") for c in raw.get("cbmc", [])}
    errs = {e["harness_id"]: e for e in raw.get("error_details", [])}
    for r in raw.get("verification_results", {}).get("results", []):
        hid = r["harness_id"]
        short = hid.split("::")[-1]
        checks = r.get("checks") or []
        failed = [c for c in checks if c.get("status") in ("Failure", "Failed")]
        undet = [c for c in checks if c.get("status") in ("Undetermined", "Unknown")]
        covers = [c for c in checks if c.get("category") == "cover"]
        unwind_fail = [c for c in failed if "unwinding" in (c.get("description") or "") or c.get("category") == "unwind"]
        e = errs.get(hid, {})
        if r.get("status") == "Success" and not failed and not undet:
            status = "pass"
        elif e.get("exit_status") in ("timeout", "out_of_memory") or (not checks):
            status = "inconclusive"
        elif unwind_fail and len(unwind_fail) == len(failed):
            status = "inconclusive"
        elif failed:
            status = "fail"
        else:
            status = "inconclusive"
        results[short] = {
            "harness": hid,
            "status": status,
            "why": e.get("exit_status") or ("unwinding bound too small" if unwind_fail else ""),
            "duration_s": round(r.get("duration_ms", 0) / 1000.0, 2),
            "n_checks": len(checks),
            "n_failed": len(failed),
            "failed_checks": [
                {"description": c.get("description"), "file": (c.get("location") or {}).get("file"),
                 "line": (c.get("location") or {}).get("line"), "function": c.get("function")}
                for c in failed if c not in unwind_fail][:8],
            "covers": [{"description": c.get("description"), "status": c.get("status")} for c in covers],
            "cbmc": stats.get(hid) or {},
        }
    # SAT sizes from the log are not in the json; collect them per harness when present
    return results, raw, lpath, wall, logtxt


def playback(scratch, harness_short, timeout_s=600, mem_kb=14_000_000, tag="pb"):
    """Re-run one failing harness with concrete playback (inplace), then execute the generated unit test natively
    (dev profile; cargo kani playback has no release switch that keeps cfg(kani) code, so release is not replayed here).
    Returns dict(reproduced: bool|None, test_src: str, native_output: str)."""
    repo = os.path.join(scratch, "repo")
    tgt = os.path.join(scratch, "tgt-" + tag)
    lpath = os.path.join(scratch, tag + "-gen.log")
    cmd = ("ulimit -v %d; exec cargo kani -Z stubbing -Z unstable-options -Z concrete-playback --concrete-playback=inplace "
           "--target-dir '%s' --harness-timeout %ds --harness '%s'" % (mem_kb, tgt, timeout_s, harness_short))
    before = {}
    srcdir = os.path.join(repo, "a2lfile", "src")
    for fn in os.listdir(srcdir):
        if fn.endswith(".rs"):
            before[fn] = open(os.path.join(srcdir, fn)).read()
    with open(lpath, "w") as lf:
        subprocess.run(["bash", "-c", cmd], cwd=os.path.join(repo, "a2lfile"), env=C.env_offline(), stdout=lf, stderr=subprocess.STDOUT)
    test_src, test_name, test_file = None, None, None
    for fn, old in before.items():
        new = open(os.path.join(srcdir, fn)).read()
        if new != old:
            m = re.search(r"fn (kani_concrete_playback_\w+)\s*\(", new)
            if m:
                test_name = m.group(1)
                test_file = fn
                i = new.rfind("#[test]", 0, m.start())
                j = new.find("\n}", m.end())
                test_src = new[i:j + 2]
    if not test_name:
        return {"reproduced": None, "test_src": None, "native_output": open(lpath, errors="replace").read()[-3000:]}
    r = run_playback_test(scratch, test_name)
    r.update({"test_src": test_src, "test_file": test_file, "test_name": test_name})
    return r


def run_playback_test(scratch, test_name):
    repo = os.path.join(scratch, "repo")
    p = subprocess.run(["cargo", "kani", "playback", "-Z", "concrete-playback", "--", test_name],
                       cwd=os.path.join(repo, "a2lfile"), env=C.env_offline(), stdout=subprocess.PIPE, stderr=subprocess.STDOUT, text=True)
    o = p.stdout
    ran = re.search(r"test result: (\w+)\. (\d+) passed; (\d+) failed", o)
    if not ran:
        return {"reproduced": None, "native_output": o[-3000:]}
    reproduced = int(ran.group(3)) > 0
    if int(ran.group(2)) + int(ran.group(3)) == 0:
        return {"reproduced": None, "native_output": o[-3000:]}
    return {"reproduced": reproduced, "native_output": o[-3000:]}
