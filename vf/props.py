"""Property -> harness table. Each job names the engine, the module file the harness is injected into,
the real functions it drives, and the bound it states."""

T_STD = ["E2 std models in /verif/mirsym/models*.py (Vec/String/slice/str/Option/Result/iterators/HashMap as association list/core::fmt for str+int)",
         "z3 4.x (python3-vt) as decision procedure", "rustc nightly MIR dump (-Zunpretty=mir, overflow-checks=on) as the encoding of the real code"]

PROPS = {
    "C03": {
        "files": ["a2lfile/src/tokenizer.rs", "a2lfile/src/parser.rs", "a2lfile/src/a2ml.rs", "a2lfile/src/ifdata.rs", "a2lfile/src/loader.rs"],
        "trusted": T_STD,
        "assumptions": ["texts over the stated alphabets / prefix families only; the generated element parsers are outside the claim"],
        "jobs": [
            {"engine": "E2", "module": "tokenizer", "harness": "h_find_string_end_6", "functions": ["tokenizer::find_string_end"],
             "bound": "all byte strings of length 6 (full byte range), any start <= 6", "timeout": 200},
            {"engine": "E2", "module": "tokenizer", "harness": "h_find_block_comment_end_5", "functions": ["tokenizer::find_block_comment_end"],
             "bound": "all byte strings of length 5 (full byte range), any start <= 5", "timeout": 200},
        ] + [
            {"engine": "E2", "module": "tokenizer", "harness": "h_tok_core_%d" % n,
             "functions": ["tokenizer::tokenize_core", "tokenizer::handle_a2ml", "tokenizer::find_string_end", "tokenizer::find_block_comment_end", "tokenizer::separator_check", "tokenizer::count_newlines", "tokenizer::is_identchar", "tokenizer::is_numchar", "tokenizer::is_pathchar"],
             "bound": "all texts of length %d over the 15-symbol class alphabet ' \\n\\r/*\"\\0xag.-['" % n, "timeout": 300, "quick": n <= 4, "validate": 100}
            for n in (1, 2, 3, 4, 5)
        ] + [
            {"engine": "E2", "module": "tokenizer", "harness": h, "functions": ["tokenizer::tokenize_core", "tokenizer::handle_a2ml"],
             "bound": b, "timeout": 300, "quick": q}
            for h, b, q in [
                ("h_tok_a2ml_tail_0", "the text '/begin A2ML'", True),
                ("h_tok_a2ml_tail_1", "'/begin A2ML' + every 1-char tail over ' \\n\\r/*endx\"'", True),
                ("h_tok_a2ml_tail_2", "'/begin A2ML' + every 2-char tail over ' \\n\\r/*endx\"'", True),
                ("h_tok_a2ml_tail_3", "'/begin A2ML' + every 3-char tail over ' \\n\\r/*endx\"'", True),
                ("h_tok_a2ml_tail_4", "'/begin A2ML ' + every 4-char tail over ' \\n\\r/*endx'", True),
                ("h_tok_a2ml_tail_5", "'/begin A2ML x' + every 5-char tail over ' \\n\\r/*end'", False),
                ("h_tok_include_tail_3", "'/include ' + every 3-char tail over ' \\n\"/\\a.0'", True),
                ("h_tok_string_tail_4", "'\"' + every 4-char tail over ' \\n\"\\a'", True),
                ("h_tok_comment_tail_4", "'/*' + every 4-char tail over ' \\n*/a'", True),
                ("h_tok_number_tail_3", "'0x' + every 3-char tail over ' 0afxg.-+'", True),
                ("h_tok_keyword_tail_3", "'/' + every 3-char tail over 'begind /*'", True),
                ("h_tok_core_raw_2", "all valid UTF-8 texts of 2 bytes (full byte range)", True),
                ("h_tok_core_raw_3", "all valid UTF-8 texts of 3 bytes (full byte range)", False),
            ]
        ],
    },
    "C13": {
        "files": ["a2lfile/src/itemlist.rs"],
        "trusted": T_STD + ["std HashMap modelled as an association list with the std contract (iteration order = insertion order)"],
        "assumptions": ["names are unique (stated by the property); item type is a harness-defined struct {name, tag} implementing A2lObjectName/A2lObjectNameSetter",
                        "pre-states: every list of 0..=3 items with symbolic, pairwise distinct one-byte names over {a,b,c,d}, built by the real push; induction over histories relies on this set being closed under the operations (checked by the post-condition being the same invariant)"],
        "jobs": [
            {"engine": "E2", "module": "itemlist", "harness": h, "functions": ["itemlist::ItemList::" + f], "timeout": 200,
             "bound": "one call from every list of <= 3 items; every argument symbolic (names over {a,b,c,d,z}, indices any usize)",
             "must_cover": mc}
            for h, f, mc in [
                ("h_il_push", "push", ["pre-state with 3 items"]), ("h_il_pop", "pop", []),
                ("h_il_swap_remove", "swap_remove", ["single-element list"]), ("h_il_swap_remove_idx", "swap_remove_idx", []),
                ("h_il_retain", "retain", []), ("h_il_truncate", "truncate", []), ("h_il_sort_by", "sort_by", []),
                ("h_il_rename_item", "rename_item", []), ("h_il_extend", "extend", []), ("h_il_clear", "clear", []),
                ("h_il_collect_clone_eq", "from_iter/clone/eq/first/last", []), ("h_il_get_mut_index_str", "get_mut/Index<&str>", []),
            ]
        ],
    },
    "C12": {
        "files": ["a2lfile/src/checker.rs"],
        "trusted": T_STD + ["z3 floating-point theory (IEEE-754 binary64, RNE) for f64 arithmetic"],
        "assumptions": ["coefficients: zero or magnitude in [1e-6, 1e6], either sign (the property's grid); RAT_FUNC b != 0 and f != 0",
                        "LINEAR/RAT_FUNC oracles are compared bit-exactly first (decided by term identity), numerically second; the RAT_FUNC oracle uses the operation order documented in the code comment x = f*(y/b) - c/b",
                        "which data type applies (dispatch in check_measurement etc.) is covered under C11's harnesses, not here"],
        "jobs": [
            {"engine": "E2", "module": "checker", "harness": "h_c12_linear", "functions": ["checker::calc_compu_method_limits", "checker::get_datatype_limits"],
             "bound": "all 11 data types x all f64 a,b in the coefficient grid (no other bound)", "timeout": 240, "must_cover": ["negative slope", "positive slope"]},
            {"engine": "E2", "module": "checker", "harness": "h_c12_ratfunc", "functions": ["checker::calc_compu_method_limits"],
             "bound": "all 11 data types x all f64 b,c,f in the coefficient grid, b,f != 0", "timeout": 240, "must_cover": ["negative b"]},
            {"engine": "E2", "module": "checker", "harness": "h_c12_identity_and_tables", "functions": ["checker::calc_compu_method_limits"],
             "bound": "11 data types x {none, IDENTICAL, TAB_INTP, TAB_NOINTP, TAB_VERB} x arbitrary coefficient values", "timeout": 120},
            {"engine": "E2", "module": "checker", "harness": "h_c12_unevaluated_never_error", "functions": ["checker::calc_compu_method_limits", "checker::check_limits_valid"],
             "bound": "11 data types x {FORM, general RAT_FUNC with arbitrary finite coefficients} x arbitrary finite declared limits", "timeout": 240},
            {"engine": "E2", "module": "checker", "harness": "h_c12_limits_valid", "functions": ["checker::check_limits_valid"],
             "bound": "calculated range = raw range of each of the 11 data types; all finite declared limits inside / clearly outside (10x tolerance)", "timeout": 240},
        ],
    },
    "C15": {
        "files": ["a2lfile/src/sort.rs", "a2lfile/src/itemlist.rs"],
        "trusted": T_STD,
        "assumptions": ["inductive pre-state: placed elements carry arbitrary distinct non-zero u32 position ids, new elements carry 0 (every u32 is reachable as uid0*2^k)",
                        "writer order is modelled as 'ascending uid, uid 0 last' (Writer::sort_function's primary key)",
                        "known finding D7 restricts the main harness to ids < 2^31 while it is listed; the twin harness demonstrates the overflow"],
        "jobs": [
            {"engine": "E2", "module": "sort", "harness": "h_sort_new_objectlist", "functions": ["sort::sort_objectlist_new", "sort::cmp_named_a2lobject", "itemlist::ItemList::sort_by"],
             "bound": "one call on a UNIT list of <= 3 items; uids any u32 (distinct, non-zero for placed), lines < 4, names over {a,b,c}", "timeout": 240, "must_cover": ["three items"]},
            {"engine": "E2", "module": "sort", "harness": "h_sort_new_objectlist_known_d7", "functions": ["sort::sort_objectlist_new"], "known": "D7",
             "bound": "one placed element with uid >= 2^31", "timeout": 120},
            {"engine": "E2", "module": "sort", "harness": "h_sort_new_two_kinds", "functions": ["sort::sort_new_items", "sort::sort_objectlist_new", "sort::sort_optional_item"],
             "bound": "one call of sort_new_items on a file with 1 module: 2 placed + 1 new UNIT, 1 placed + 1 new COMPU_METHOD, arbitrary distinct ids < 2^31", "timeout": 240},
            {"engine": "E2", "module": "sort", "harness": "h_sort_new_optional_items", "functions": ["sort::sort_new_items", "sort::sort_optional_item"],
             "bound": "MOD_COMMON / MOD_PAR present or not with arbitrary ids < 2^31", "timeout": 120},
        ],
    },
    "C14": {
        "files": ["a2lfile/src/sort.rs", "a2lfile/src/itemlist.rs"],
        "trusted": T_STD,
        "assumptions": ["textual output and reload after sort() are outside the claim (ordering kernel only)"],
        "jobs": [
            {"engine": "E2", "module": "sort", "harness": "h_sort_full_objectlist", "functions": ["sort::sort_objectlist_full", "itemlist::ItemList::sort_by"],
             "bound": "UNIT list of <= 3 items, symbolic distinct names over {a,b,c,d}, arbitrary previous uids/lines, any start uid", "timeout": 240},
            {"engine": "E2", "module": "sort", "harness": "h_sort_module", "functions": ["sort::sort", "sort::sort_objectlist_full"],
             "bound": "file with one module: 2 UNITs (symbolic name order), 1 COMPU_METHOD, optional MOD_PAR; sort applied twice", "timeout": 240},
        ],
    },
}
