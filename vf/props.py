"""Property -> harness table. Each job names the engine, the module file the harness is injected into,
the real functions it drives, and the bound it states."""

T_STD = ["E2 std models in /verif/mirsym/models*.py (Vec/String/slice/str/Option/Result/iterators/HashMap as association list/core::fmt for str+int)",
         "z3 4.x (python3-vt) as decision procedure", "rustc nightly MIR dump (-Zunpretty=mir, overflow-checks=on) as the encoding of the real code"]

PROPS = {
    "C03": {
        "files": ["a2lfile/src/tokenizer.rs"],
        "trusted": T_STD,
        "assumptions": [],
        "jobs": [
            {"engine": "E2", "module": "tokenizer", "harness": "h_find_string_end_4", "functions": ["tokenizer::find_string_end"],
             "bound": "all byte strings of length 4, any start <= 4", "timeout": 120},
            {"engine": "E2", "module": "tokenizer", "harness": "h_find_string_end_6", "functions": ["tokenizer::find_string_end"],
             "bound": "all byte strings of length 6, any start <= 6", "timeout": 200, "quick": False},
        ],
    },
}
