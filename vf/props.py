"""Property -> harness table. Each job names the engine, the module file the harness is injected into,
the real functions it drives, and the bound it states."""

T_STD = ["E2 std models in /verif/mirsym/models*.py (Vec/String/slice/str/Option/Result/iterators/HashMap as association list/core::fmt for str+int)",
         "z3 4.x (python3-vt) as decision procedure", "rustc nightly MIR dump (-Zunpretty=mir, overflow-checks=on) as the encoding of the real code"]

PROPS = {
    "C03": {
        "files": ["a2lfile/src/tokenizer.rs", "a2lfile/src/parser.rs", "a2lfile/src/a2ml.rs", "a2lfile/src/ifdata.rs", "a2lfile/src/loader.rs"],
        "trusted": T_STD,
        "assumptions": ["texts over the stated alphabets / prefix families only; the generated element parsers are outside the claim", "file access is an environment model in E2: File::open / read_data / Path::exists consult a per-path virtual file system (only files written by the harness exist); make_include_filename itself is executed from MIR"],
        "jobs": [
            {"engine": "E2", "module": "tokenizer", "harness": "h_find_string_end_6", "functions": ["tokenizer::find_string_end"],
             "bound": "all byte strings of length 6 (full byte range), any start <= 6", "timeout": 200},
            {"engine": "E2", "module": "tokenizer", "harness": "h_find_block_comment_end_5", "functions": ["tokenizer::find_block_comment_end"],
             "bound": "all byte strings of length 5 (full byte range), any start <= 5", "timeout": 200},
        ] + [
            {"engine": "E2", "module": "tokenizer", "harness": "h_tok_core_%d" % n,
             "functions": ["tokenizer::tokenize_core", "tokenizer::handle_a2ml", "tokenizer::find_string_end", "tokenizer::find_block_comment_end", "tokenizer::separator_check", "tokenizer::count_newlines", "tokenizer::is_identchar", "tokenizer::is_numchar", "tokenizer::is_pathchar"],
             "bound": "all texts of length %d over the 15-symbol class alphabet ' \\n\\r/*\"\\0xag.-['" % n, "timeout": 300, "quick": n <= 4, "validate": 100}
            for n in (1, 2, 3, 4, 5)
        ] + [
            {"engine": "E2", "module": "tokenizer", "harness": h, "functions": ["tokenizer::tokenize_core", "tokenizer::handle_a2ml"],
             "bound": b, "timeout": 300, "quick": q}
            for h, b, q in [
                ("h_tok_a2ml_tail_0", "the text '/begin A2ML'", True),
                ("h_tok_a2ml_tail_1", "'/begin A2ML' + every 1-char tail over ' \\n\\r/*endx\"'", True),
                ("h_tok_a2ml_tail_2", "'/begin A2ML' + every 2-char tail over ' \\n\\r/*endx\"'", True),
                ("h_tok_a2ml_tail_3", "'/begin A2ML' + every 3-char tail over ' \\n\\r/*endx\"'", True),
                ("h_tok_a2ml_tail_4", "'/begin A2ML ' + every 4-char tail over ' \\n\\r/*endx'", True),
                ("h_tok_a2ml_tail_5", "'/begin A2ML x' + every 5-char tail over ' \\n\\r/*end'", False),
                ("h_tok_include_tail_3", "'/include ' + every 3-char tail over ' \\n\"/\\a.0'", True),
                ("h_tok_string_tail_4", "'\"' + every 4-char tail over ' \\n\"\\a'", True),
                ("h_tok_comment_tail_4", "'/*' + every 4-char tail over ' \\n*/a'", True),
                ("h_tok_number_tail_3", "'0x' + every 3-char tail over ' 0afxg.-+'", True),
                ("h_tok_keyword_tail_3", "'/' + every 3-char tail over 'begind /*'", True),
                ("h_tok_core_raw_2", "all valid UTF-8 texts of 2 bytes (full byte range)", True),
                ("h_tok_core_raw_3", "all valid UTF-8 texts of 3 bytes (full byte range)", False),
                ("h_tok_invalid_tail_3", "'$12345678' + all valid UTF-8 tails of 3 bytes (error text cut at +10 bytes)", True),
                ("h_tok_invalid_slash_tail_3", "' /x2345678' + all valid UTF-8 tails of 3 bytes", True),
            ]
        ] + [
            {"engine": "E2", "module": "a2ml", "harness": h, "functions": ["a2ml::tokenize_a2ml", "a2ml::tokenize_tag", "a2ml::tokenize_include", "a2ml::tokenize_number", "a2ml::tokenize_keyword_ident", "a2ml::make_errtxt"],
             "bound": b, "timeout": 300, "quick": q}
            for h, b, q in [
                ("h_aml_tok_1", "all A2ML texts of length 1 over ' \\n/*\";{[(=0xa_'", True),
                ("h_aml_tok_2", "all A2ML texts of length 2 over the same alphabet", True),
                ("h_aml_tok_3", "all A2ML texts of length 3 over the same alphabet", True),
                ("h_aml_tok_4", "all A2ML texts of length 4 over the same alphabet", True),
                ("h_aml_tok_5", "all A2ML texts of length 5 over the same alphabet", False),
                ("h_aml_include_tail_0", "the A2ML text '/include'", True),
                ("h_aml_include_tail_1", "'/include' + 1-char tails over ' \\n\"a/.;' (file access stubbed: unreadable)", True),
                ("h_aml_include_tail_2", "'/include' + 2-char tails", True),
                ("h_aml_include_tail_3", "'/include' + 3-char tails", True),
                ("h_aml_include_tail_4", "'x /include ' + 4-char tails over ' \\n\"a/.'", False),
                ("h_aml_tag_tail_3", "'\"' + 3-char tails over ' \"a\\n;'", True),
                ("h_aml_comment_tail_3", "'/*' + 3-char tails over ' */a\\n'", True),
                ("h_aml_number_tail_3", "'0' + 3-char tails over 'x09afg_ ;'", True),
                ("h_aml_number_big", "'214748364' + 2-char tails (i32 boundary)", True),
                ("h_aml_tok_raw_2", "all valid UTF-8 A2ML texts of 2 bytes (full byte range)", True),
            ]
        ] + [
            {"engine": "E2", "module": "a2ml", "harness": h, "functions": ["a2ml::parse_a2ml", "a2ml::parse_aml_type*", "a2ml::parse_aml_member", "a2ml::parse_aml_tagged_def", "a2ml::parse_aml_taggedmember", "a2ml::require_*"],
             "bound": b, "timeout": 400, "quick": q}
            for h, b, q in [
                ("h_aml_parse_2", "every sequence of 2 lexemes from a 20-lexeme A2ML vocabulary", True),
                ("h_aml_parse_3", "every sequence of 3 lexemes from the vocabulary", False),
                ("h_aml_parse_block_3", "'block \"IF_DATA\"' + every 3-lexeme sequence", False),
                ("h_aml_parse_struct_3", "'block \"IF_DATA\" struct {' + every 3-lexeme sequence", False),
                ("h_aml_parse_tagged_3", "'block \"IF_DATA\" taggedstruct {' + every 3-lexeme sequence", False),
                ("h_aml_parse_enum_3", "'enum x {' + every 3-lexeme sequence", False),
                ("h_aml_parse_array_3", "'block \"IF_DATA\" struct { int [' + every 3-lexeme sequence", False),
            ]
        ] + [
            {"engine": "E2", "module": "parser", "harness": h, "functions": ["parser::ParserState::handle_unknown_taggedstruct_tag", "parser::ParserState::get_next_tag_or_comment", "parser::ParserState::get_line_offset", "parser::ParserState::get_token", "parser::ParserState::undo_get_token", "parser::ParserState::expect_token"],
             "bound": b, "timeout": 300, "quick": q, "extra_modules": ["tokenizer"]}
            for h, b, q in [
                ("h_unknown_soup_0", "unknown keyword / block tag at the very end of the input; strictness symbolic", True),
                ("h_unknown_soup_1", "unknown tag + every 1-lexeme soup over {/begin, /end, ident in {U,S,O} (symbolic), number, string, comment}", True),
                ("h_unknown_soup_2", "unknown tag + every 2-lexeme soup", True),
                ("h_unknown_soup_3", "unknown tag + every 3-lexeme soup", True),
                ("h_unknown_soup_4", "unknown tag + every 4-lexeme soup", False),
                ("h_next_tag_soup_2", "get_next_tag_or_comment from any cursor position on every 2-lexeme soup with optional line breaks", True),
                ("h_next_tag_soup_3", "get_next_tag_or_comment from any cursor position on every 3-lexeme soup", False),
            ]
        ] + [
            {"engine": "E2", "module": "lib", "harness": "h_ifdata_empty_sequence", "functions": ["ifdata::parse_ifdata_item", "ifdata::parse_ifdata_taggedstruct"],
             "bound": "3 A2ML definitions whose sequence element can match zero tokens + one IF_DATA block: loading terminates", "timeout": 300, "extra_modules": ["tokenizer"], "max_steps": 600000},
        ] + [
            {"engine": "E2", "module": "lib", "harness": "h_comment_layout_lineends", "msg_prefix": "C03", "functions": ["load_from_string", "tokenizer::tokenize_core", "tokenizer::count_newlines", "parser::ParserState::get_line_offset", "writer::Writer::add_group", "A2lFile::write_to_string"],
             "bound": "block comment with 0..=3 inner line breaks x 0..=2 line breaks behind it x 3 positions (file head, in front of /begin MODULE, in front of /end MODULE) x line ends {LF, CRLF, CR} x comment in column 0 / indented by blanks / by a tab (324 documents)", "timeout": 300, "extra_modules": ["tokenizer"], "must_cover": ["comment_layout_end"]},
        ] + [
            {"engine": "E2", "module": "lib", "harness": "h_ifdata_soup_%d" % n, "functions": ["load_from_string", "ifdata::parse_ifdata", "ifdata::parse_unknown_ifdata_start", "ifdata::parse_unknown_ifdata", "ifdata::parse_unknown_taggedstruct", "parser::get_string", "tokenizer::handle_a2ml"],
             "bound": "uninterpreted IF_DATA holding every %d-lexeme soup over {/begin B, /end B, ident, hex number, string, empty string, block comment, line comment, embedded A2ML section (raw text '\"' / 'x y'), /include without a name}, closed or cut off, strict and non-strict: loading returns, accepted text loads again" % n,
             "timeout": 300, "extra_modules": ["tokenizer"], "max_steps": 3000000, "quick": n <= 2, "msg_prefix": "C03"}
            for n in (1, 2, 3)
        ] + [
            {"engine": "E2", "module": "lib", "harness": "h_fragment_soup_%d" % n, "functions": ["load_fragment", "tokenizer::tokenize", "specification::Module::parse", "a2ml::parse_a2ml", "parser::ParserState::*"],
             "bound": "entry point load_fragment: every %d-lexeme soup over {MEASUREMENT, /begin, /end, /end MODULE, keyword, number, string, comments, /include of a missing file, /include without a name, A2ML block, IF_DATA block} x built-in A2ML specification {none, valid, truncated}" % n,
             "timeout": 400, "extra_modules": ["tokenizer"], "max_steps": 3000000, "quick": n <= 2}
            for n in (1, 2, 3)
        ],
    },
    "C13": {
        "files": ["a2lfile/src/itemlist.rs"],
        "trusted": T_STD + ["std HashMap modelled as an association list with the std contract (iteration order = insertion order)"],
        "assumptions": ["names are unique (stated by the property); item type is a harness-defined struct {name, tag} implementing A2lObjectName/A2lObjectNameSetter",
                        "pre-states: every list of 0..=3 items with symbolic, pairwise distinct one-byte names over {a,b,c,d}, built by the real push; induction over histories relies on this set being closed under the operations (checked by the post-condition being the same invariant)"],
        "jobs": [
            {"engine": "E2", "module": "itemlist", "harness": h, "functions": ["itemlist::ItemList::" + f], "timeout": 200,
             "bound": "one call from every list of <= 3 items; every argument symbolic (names over {a,b,c,d,z}, indices any usize)",
             "must_cover": mc}
            for h, f, mc in [
                ("h_il_push", "push", ["pre-state with 3 items"]), ("h_il_pop", "pop", []),
                ("h_il_swap_remove", "swap_remove", ["single-element list"]), ("h_il_swap_remove_idx", "swap_remove_idx", []),
                ("h_il_retain", "retain", []), ("h_il_truncate", "truncate", []), ("h_il_sort_by", "sort_by", []),
                ("h_il_rename_item", "rename_item", []), ("h_il_extend", "extend", []), ("h_il_clear", "clear", []),
                ("h_il_collect_clone_eq", "from_iter/clone/eq/first/last", []), ("h_il_get_mut_index_str", "get_mut/Index<&str>", []),
            ]
        ],
    },
    "C12": {
        "files": ["a2lfile/src/checker.rs"],
        "trusted": T_STD + ["z3 floating-point theory (IEEE-754 binary64, RNE) for f64 arithmetic"],
        "assumptions": ["coefficients: zero or magnitude in [1e-6, 1e6], either sign (the property's grid); RAT_FUNC b != 0 and f != 0",
                        "LINEAR/RAT_FUNC oracles are compared bit-exactly first (decided by term identity), numerically second; the RAT_FUNC oracle uses the operation order documented in the code comment x = f*(y/b) - c/b",
                        "which data type applies (dispatch in check_measurement etc.) is covered under C11's harnesses, not here"],
        "jobs": [
            {"engine": "E2", "module": "checker", "harness": "h_c12_linear", "functions": ["checker::calc_compu_method_limits", "checker::get_datatype_limits"],
             "bound": "all 11 data types x all f64 a,b in the coefficient grid (no other bound)", "timeout": 240, "must_cover": ["negative slope", "positive slope"]},
            {"engine": "E2", "module": "checker", "harness": "h_c12_ratfunc", "functions": ["checker::calc_compu_method_limits"],
             "bound": "all 11 data types x all f64 b,c,f in the coefficient grid, b,f != 0", "timeout": 240, "must_cover": ["negative b"]},
            {"engine": "E2", "module": "checker", "harness": "h_c12_identity_and_tables", "functions": ["checker::calc_compu_method_limits"],
             "bound": "11 data types x {none, IDENTICAL, TAB_INTP, TAB_NOINTP, TAB_VERB} x arbitrary coefficient values", "timeout": 120},
            {"engine": "E2", "module": "checker", "harness": "h_c12_unevaluated_never_error", "functions": ["checker::calc_compu_method_limits", "checker::check_limits_valid"],
             "bound": "11 data types x {FORM, general RAT_FUNC with arbitrary finite coefficients} x arbitrary finite declared limits", "timeout": 240},
            {"engine": "E2", "module": "lib", "harness": "h_check_axis_datatype_dispatch", "functions": ["checker::check_characteristic_common", "checker::calc_compu_method_limits", "checker::check_limits_valid"],
             "bound": "MAP whose first axis is STD/FIX/COM_AXIS and whose second axis is a STD_AXIS with limits inside / outside the UWORD range of AXIS_PTS_Y (6 cases)", "timeout": 200, "extra_modules": ["tokenizer"]},
            {"engine": "E2", "module": "lib", "harness": "h_check_axis_dispatch_cube5", "functions": ["checker::check_characteristic_common", "checker::calc_compu_method_limits"],
             "bound": "CUBE_5 with five STD_AXIS: which AXIS_PTS_n entry is UWORD (5) x which axis declares limits 0..1000 (5)", "timeout": 300, "extra_modules": ["tokenizer"], "must_cover": ["axis_dispatch_cube5_end"], "max_steps": 5000000},
            {"engine": "E2", "module": "lib", "harness": "h_check_limit_dispatch", "functions": ["A2lFile::check", "checker::check_measurement", "checker::check_characteristic_common", "checker::check_axis_pts", "checker::check_typedef_measurement", "checker::calc_compu_method_limits"],
             "bound": "{MEASUREMENT, CHARACTERISTIC, AXIS_PTS, STD_AXIS AXIS_DESCR, TYPEDEF_MEASUREMENT} x {NO_COMPU_METHOD, IDENTICAL, LINEAR 2x, TAB_VERB, FORM} x limits {inside, below, above} on UBYTE (75 documents): exactly one LimitCheckError iff outside and evaluated", "timeout": 300, "extra_modules": ["tokenizer"], "must_cover": ["limit_dispatch_end"], "max_steps": 5000000},
            {"engine": "E2", "module": "checker", "harness": "h_c12_limits_valid", "functions": ["checker::check_limits_valid"],
             "bound": "calculated range from 17 ranges (11 raw ranges + 6 ranges with ends of very different magnitude); all finite declared limits: inside, within half the tolerance, clearly outside (10x) on each side", "timeout": 240, "must_cover": ["upper limit slightly above the range"]},
        ],
    },
    "C15": {
        "files": ["a2lfile/src/sort.rs", "a2lfile/src/itemlist.rs"],
        "trusted": T_STD,
        "assumptions": ["inductive pre-state: placed elements carry arbitrary distinct non-zero u32 position ids, new elements carry 0 (every u32 is reachable as uid0*2^k)",
                        "writer order is modelled as 'ascending uid, uid 0 last' (Writer::sort_function's primary key)",
                        "known finding D7 restricts the main harness to ids < 2^31 while it is listed; the twin harness demonstrates the overflow"],
        "jobs": [
            {"engine": "E2", "module": "sort", "harness": "h_sort_new_objectlist", "functions": ["sort::sort_objectlist_new", "sort::cmp_named_a2lobject", "itemlist::ItemList::sort_by"],
             "bound": "one call on a UNIT list of <= 3 items; uids any u32 (distinct, non-zero for placed), lines < 4, names over {a,b,c}", "timeout": 240, "must_cover": ["three items"]},
            {"engine": "E2", "module": "sort", "harness": "h_sort_new_objectlist_known_d7", "functions": ["sort::sort_objectlist_new"], "known": "D7",
             "bound": "one placed element with uid >= 2^31", "timeout": 120},
            {"engine": "E2", "module": "sort", "harness": "h_sort_new_two_kinds", "functions": ["sort::sort_new_items", "sort::sort_objectlist_new", "sort::sort_optional_item"],
             "bound": "one call of sort_new_items on a file with 1 module: 2 placed + 1 new UNIT, 1 placed + 1 new COMPU_METHOD, arbitrary distinct ids < 2^31", "timeout": 240},
            {"engine": "E2", "module": "sort", "harness": "h_sort_new_optional_items", "functions": ["sort::sort_new_items", "sort::sort_optional_item"],
             "bound": "MOD_COMMON / MOD_PAR present or not with arbitrary ids < 2^31", "timeout": 120},
            {"engine": "E2", "module": "lib", "harness": "h_sort_new_many_children", "msg_prefix": "C15", "functions": ["A2lFile::sort_new_items", "sort::sort_new_items", "sort::sort_objectlist_new", "writer::Writer::add_group", "writer::Writer::sort_function", "A2lFile::write_to_string", "load_from_string"],
             "bound": "modules with 24 / 18 / 10 placed children (MEASUREMENT and UNIT interleaved) + 4 / 12 / 16 new MEASUREMENTs pushed in 4 rotations, then one new UNIT, then two more MEASUREMENTs, sort_new_items + write after each batch: write order = list order, placed elements keep their order, reload equal, repeated cycles identical. An unstable sort is modelled demonically above 20 elements (runs of equal elements reversed); the native replay decides", "timeout": 400, "extra_modules": ["tokenizer"], "max_steps": 150000000, "must_cover": ["sort_new_many_children_end"]},
            {"engine": "E2", "module": "lib", "harness": "h_sort_new_all_kinds", "functions": ["A2lFile::sort_new_items", "sort::sort_new_items (all 20 per-kind calls)", "A2lFile::write_to_string"],
             "bound": "the all-kinds module (two placed elements in each of the 20 named lists + unnamed parts): three sort_new_items calls leave the output unchanged; then one new TYPEDEF_BLOB and one new BLOB are placed behind their kind", "timeout": 400, "extra_modules": ["tokenizer"], "max_steps": 60000000, "must_cover": ["sort_new_all_kinds_end"]},
            {"engine": "E2", "module": "sort", "harness": "h_sort_new_unnamed_lists_s", "functions": ["sort::sort_new_items"],
             "bound": "one call on a module with <= 2 IF_DATA and <= 1 USER_RIGHTS (each placed with an arbitrary distinct id < 2^31 or new, in any Vec order) and one placed UNIT", "timeout": 300, "must_cover": ["full unnamed lists"]},
            {"engine": "E2", "module": "sort", "harness": "h_sort_new_unnamed_lists", "functions": ["sort::sort_new_items"], "quick": False,
             "bound": "one call on a module with <= 3 IF_DATA and <= 2 USER_RIGHTS (each placed with an arbitrary distinct id < 2^31 or new, in any Vec order) and one placed UNIT", "timeout": 400, "must_cover": ["full unnamed lists"]},
        ],
    },
    "C14": {
        "files": ["a2lfile/src/sort.rs", "a2lfile/src/itemlist.rs"],
        "trusted": T_STD,
        "assumptions": ["the textual output / reload part is checked on one fully populated module (h_sort_all_kinds); the ordering kernel on symbolic small lists"],
        "jobs": [
            {"engine": "E2", "module": "sort", "harness": "h_sort_full_objectlist", "functions": ["sort::sort_objectlist_full", "itemlist::ItemList::sort_by"],
             "bound": "UNIT list of <= 3 items, symbolic distinct names over {a,b,c,d}, arbitrary previous uids/lines, any start uid", "timeout": 240},
            {"engine": "E2", "module": "sort", "harness": "h_sort_module", "functions": ["sort::sort", "sort::sort_objectlist_full"],
             "bound": "file with one module: 2 UNITs (symbolic name order), 1 COMPU_METHOD, optional MOD_PAR; sort applied twice", "timeout": 240},
            {"engine": "E2", "module": "lib", "harness": "h_sort_all_kinds", "functions": ["A2lFile::sort", "sort::sort", "sort::sort_objectlist_full", "A2lFile::write_to_string", "writer::Writer::add_group", "writer::Writer::sort_function", "load_from_string"],
             "bound": "one module with two elements in each of the 20 named lists, three USER_RIGHTS, two IF_DATA, A2ML, MOD_COMMON, MOD_PAR, VARIANT_CODING, written in reverse canonical and reverse alphabetical order (A2ML in front of the IF_DATA blocks: see known finding D21); sort, write, reload, write, sort again", "timeout": 300, "extra_modules": ["tokenizer"], "max_steps": 30000000},
            {"engine": "E2", "module": "lib", "harness": "h_sort_a2ml_after_ifdata_known_d21", "known": "D21", "functions": ["A2lFile::sort", "load_from_string", "A2lFile::write_to_string"],
             "bound": "the recorded input of known finding D21", "timeout": 200, "extra_modules": ["tokenizer"]},
        ],
    },
    "C02": {
        "files": ["a2lfile/src/parser.rs", "a2lfile/src/ifdata.rs", "a2lfile/src/writer.rs"],
        "trusted": T_STD + ["E2 model of core::num::from_str_radix / str::parse::<int> (digit classes, overflow detection)"],
        "assumptions": ["claimed: numeric literal fidelity per field type (get_integer) - a literal is either stored without loss or rejected",
                        "hex literals of signed field types are read as bit patterns of the field width (A2L practice); anything wider than the field must be diagnosed",
                        "token conservation through the 185 generated element parsers is outside the claim"],
        "jobs": [
            {"engine": "E2", "module": "parser", "harness": "h_int_%s_%s" % (k, t), "functions": ["parser::ParserState::get_integer", "parser::ParserState::expect_token", "parser::ParserState::get_token_text"],
             "bound": b, "timeout": 240, "extra_modules": ["tokenizer"], "quick": q}
            for k, t, b, q in [
                ("hex", "u8", "'0x' + 3 symbolic hex digits (either case)", True), ("hex", "i8", "'0x' + 3 symbolic hex digits", True),
                ("hex", "u16", "'0x' + 5 symbolic hex digits", True), ("hex", "i16", "'0x' + 5 symbolic hex digits", True),
                ("hex", "u32", "'0x' + 9 symbolic hex digits", True), ("hex", "i32", "'0x' + 9 symbolic hex digits", True),
                ("hex", "u32b", "'0xF' + 8 symbolic hex digits", False), ("hex", "i32b", "'0x7' + 8 symbolic hex digits", False),
                ("hex", "u64", "'0xFFFFFFFFFFF' + 6 symbolic hex digits (16/17 digit literals)", True), ("hex", "i64", "'0x7FFFFFFFFFF' + 6 symbolic hex digits", True),
                ("hex", "u64b", "'0x' + 8 symbolic hex digits", False),
                ("dec", "u8", "optional '-' + 4 symbolic decimal digits", True), ("dec", "i8", "optional '-' + 4 symbolic decimal digits", True),
                ("dec", "u16", "optional '-' + 6 symbolic decimal digits", True), ("dec", "i16", "optional '-' + 6 symbolic decimal digits", True),
                ("dec", "u32", "optional '-' + 6 symbolic decimal digits", True), ("dec", "i32", "optional '-' + 6 symbolic decimal digits", False),
                ("dec", "u32b", "optional '-' + '42949' + 6 symbolic digits (around 2^32)", True), ("dec", "i32b", "optional '-' + '21474' + 6 symbolic digits (around 2^31)", True),
                ("dec", "u64", "optional '-' + '18446744073709' + 7 symbolic digits (around 2^64)", True), ("dec", "i64", "optional '-' + '9223372036854' + 7 symbolic digits (around 2^63)", True),
                ("dec", "u64b", "optional '-' + 6 symbolic digits", False),
            ]
        ] + [
            {"engine": "E2", "module": "parser", "harness": "h_str_roundtrip_3", "functions": ["writer::Writer::add_quoted_string", "parser::unescape_string"],
             "bound": "every string of 3 chars over the escape alphabet: the written token denotes the same value", "timeout": 300, "extra_modules": ["tokenizer"]},
            {"engine": "E2", "module": "parser", "harness": "h_str_roundtrip_unicode_2", "functions": ["writer::Writer::add_quoted_string", "parser::unescape_string"],
             "bound": "multi-byte character + 2 chars over the escape alphabet", "timeout": 300, "extra_modules": ["tokenizer"]},
            {"engine": "E2", "module": "lib", "harness": "h_sample_roundtrip", "msg_prefix": "C02", "functions": ["load_from_string", "A2lFile::write_to_string", "specification::*::parse / stringify of every element kind in the sample"],
             "bound": "the repository's own 340-line sample document: the written text has the same significant tokens in the same order (numbers by value)", "timeout": 600, "extra_modules": ["tokenizer"], "max_steps": 50000000},
            {"engine": "E2", "module": "lib", "harness": "h_every_element_roundtrip", "msg_prefix": "C02", "functions": ["load_from_string", "A2lFile::write_to_string", "specification::*::parse / stringify of every element of the grammar (203 of 205; generated document)", "generated PartialEq impls"],
             "bound": "one document generated from the DSL of the tree under check that holds every block and keyword valid at version 1.71 once (465 lines): strict load without diagnostics, write, reload equal (== and field by field), second write identical, every token kept", "timeout": 900, "extra_modules": ["tokenizer"], "max_steps": 300000000,
             "must_cover": ["generated document and fingerprint module are in place"]},
            {"engine": "E2", "module": "lib", "harness": "h_ifdata_uninterpreted", "functions": ["ifdata::parse_unknown_ifdata_start", "ifdata::parse_unknown_ifdata", "ifdata::parse_unknown_taggedstruct", "a2ml::GenericIfData::write_item"],
             "bound": "11 payloads of an IF_DATA no specification describes: small / negative / hex / > 32 bit decimal / > 32 bit hex / floats / string+ident / nested blocks / repeated sibling blocks / repeated keywords", "timeout": 300, "extra_modules": ["tokenizer"]},
        ],
    },
    "C01": {
        "files": ["a2lfile/src/parser.rs", "a2lfile/src/writer.rs", "a2lfile/src/tokenizer.rs"],
        "trusted": T_STD + ["E2 model of core::fmt for integers (hex by nibble extraction, decimal by fresh digit variables with value == sum d_i*10^i)"],
        "assumptions": ["claimed mechanisms: string escape/unescape/string-end agreement, integer notation replay; the per-element parse/stringify pairs, floats, line offsets (see C05) are outside this check"],
        "jobs": [
            {"engine": "E2", "module": "parser", "harness": "h_int_rt_" + t, "functions": ["writer::Writer::add_integer", "parser::ParserState::get_integer"],
             "bound": b, "timeout": 240, "extra_modules": ["tokenizer"], "quick": q}
            for t, b, q in [("u8", "every u8, hex and decimal", True), ("i8", "every i8, hex and decimal", True), ("u16", "every u16", True), ("i16", "every i16", True),
                            ("u32", "hex: every u32; decimal: 65536 values next to 0 / MAX", True), ("i32", "hex: every i32; decimal: 65536 values next to 0 / MAX / MIN", True),
                            ("u64", "hex: every u64; decimal: 65536 values next to 0 / MAX", True), ("i64", "hex: every i64; decimal: 65536 values next to 0 / MAX / MIN", True)]
        ] + [
            {"engine": "E2", "module": "parser", "harness": "h_str_roundtrip_%d" % n, "functions": ["writer::Writer::add_quoted_string", "tokenizer::tokenize_core", "tokenizer::find_string_end", "parser::ParserState::get_string", "parser::unescape_string"],
             "bound": "every string of %d chars over {\", \\, ', LF, CR, TAB, n, r, t, space, a}" % n, "timeout": 300, "extra_modules": ["tokenizer"], "quick": n <= 3}
            for n in (1, 2, 3, 4)
        ] + [
            {"engine": "E2", "module": "parser", "harness": "h_str_fixpoint_%d" % n, "functions": ["tokenizer::tokenize_core", "parser::ParserState::get_string", "parser::unescape_string", "writer::Writer::add_quoted_string"],
             "bound": "every accepted string token with %d inner bytes over the same alphabet: second load/write cycle is a fixpoint" % n, "timeout": 300, "extra_modules": ["tokenizer"], "quick": n <= 3}
            for n in (2, 3, 4)
        ] + [
            {"engine": "E2", "module": "parser", "harness": "h_str_roundtrip_unicode_%d" % n, "functions": ["writer::Writer::add_quoted_string", "tokenizer::tokenize_core", "parser::ParserState::get_string", "parser::unescape_string"],
             "bound": "a multi-byte character (2, 2+1 or 4 bytes) + every string of %d chars over the escape alphabet + U+00E9" % n, "timeout": 300, "extra_modules": ["tokenizer"], "quick": n <= 2}
            for n in (1, 2, 3)
        ] + [
            {"engine": "E2", "module": "parser", "harness": "h_float_roundtrip", "functions": ["writer::Writer::add_float", "tokenizer::tokenize_core", "parser::ParserState::get_double"],
             "bound": "30 concrete f64 values (zero, tiny, subnormal, huge, format thresholds 1e-4 / 1e10, values needing 17 digits); enumerated, not symbolic", "timeout": 300, "extra_modules": ["tokenizer"]},
            {"engine": "E2", "module": "lib", "harness": "h_sample_roundtrip", "msg_prefix": "C01", "functions": ["load_from_string", "A2lFile::write_to_string", "specification::*::parse / stringify of every element kind in the sample"],
             "bound": "the repository's own 340-line sample document (every element kind once): load, write, load, write (one concrete path)", "timeout": 600, "extra_modules": ["tokenizer"], "max_steps": 50000000},
            {"engine": "E2", "module": "lib", "harness": "h_ifdata_definitions", "msg_prefix": "C01", "functions": ["load_from_string", "tokenizer::handle_a2ml", "A2ml::stringify", "a2ml::GenericIfData::write", "A2lFile::write_to_string"],
             "bound": "12 A2ML definitions x {conforming, deviating IF_DATA} x {LF, CRLF}: reload equal, second write identical", "timeout": 400, "extra_modules": ["tokenizer"]},
        ] + [
            {"engine": "E2", "module": "lib", "harness": "h_every_element_roundtrip", "msg_prefix": "C01", "functions": ["load_from_string", "A2lFile::write_to_string", "specification::*::parse / stringify of every element of the grammar (203 of 205; generated document)", "generated PartialEq impls"],
             "bound": "one document generated from the DSL of the tree under check that holds every block and keyword valid at version 1.71 once (465 lines): strict load without diagnostics, write, reload equal (== and field by field), second write identical, every token kept", "timeout": 900, "extra_modules": ["tokenizer"], "max_steps": 300000000,
             "must_cover": ["generated document and fingerprint module are in place"]},
            {"engine": "E2", "module": "lib", "harness": "h_comment_layout_lineends", "msg_prefix": "C01", "functions": ["load_from_string", "tokenizer::tokenize_core", "tokenizer::count_newlines", "parser::ParserState::get_line_offset", "writer::Writer::add_group", "A2lFile::write_to_string"],
             "bound": "block comment with 0..=3 inner line breaks x 0..=2 line breaks behind it x 3 positions (file head, in front of /begin MODULE, in front of /end MODULE) x line ends {LF, CRLF, CR} x comment in column 0 / indented by blanks / by a tab (324 documents)", "timeout": 300, "extra_modules": ["tokenizer"], "must_cover": ["comment_layout_end"]},
        ] + [
            {"engine": "E2", "module": "lib", "harness": "h_ifdata_soup_%d" % n, "msg_prefix": "C01", "functions": ["load_from_string", "ifdata::parse_unknown_ifdata_start", "a2ml::GenericIfData::write", "A2lFile::write_to_string"],
             "bound": "every %d-lexeme soup inside an uninterpreted IF_DATA (see C03), strict and non-strict: whatever is accepted is written to text that loads again (known finding D20 excludes soups with a line comment that is not the last lexeme while it is listed)" % n,
             "timeout": 300, "extra_modules": ["tokenizer"], "max_steps": 3000000, "quick": n <= 2}
            for n in (2, 3)
        ] + [
{"engine": "E2", "module": "lib", "harness": "h_every_element_x2", "msg_prefix": "C01", "functions": ["load_from_string", "A2lFile::write_to_string", "specification::*::parse / stringify with two entries in every list"],
             "bound": "the every-element document with every repeatable element twice (~2400 lines): strict load, byte-identical write, reload equal (== and field by field), second write identical", "timeout": 900, "extra_modules": ["tokenizer"], "max_steps": 1500000000,
             "must_cover": ["generated document and fingerprint module are in place"]},
                        {"engine": "E2", "module": "lib", "harness": "h_write_with_banner", "functions": ["A2lFile::write", "load", "A2lFile::write_to_string"],
             "bound": "write(path, banner) for documents starting with a token / an empty line / a comment x banner {none, plain, with quote and slash}: the written file loads to an equal model (9 cases; std::fs::write modelled by the virtual file system)", "timeout": 300, "extra_modules": ["tokenizer"], "must_cover": ["write_with_banner_end"], "validate": 9},
            {"engine": "E2", "module": "lib", "harness": "h_api_built_model", "functions": ["new", "specification::*::new (constructor defaults)", "A2lFile::write_to_string", "load_from_string", "generated PartialEq impls"],
             "bound": "one model built with new() / T::new() / push / field edits (RECORD_LAYOUT, COMPU_METHOD with COEFFS, MEASUREMENT with six kinds of sub-elements, CHARACTERISTIC, GROUP, FUNCTION; symbolic low address byte and symbol offset): write, strict reload equal (== and field by field), second write identical; then three edits and the same again", "timeout": 600, "extra_modules": ["tokenizer"], "max_steps": 60000000, "must_cover": ["api_built_model_end"]},
            {"engine": "E2", "module": "lib", "harness": "h_sort_new_many_children", "msg_prefix": "C01", "functions": ["A2lFile::sort_new_items", "A2lFile::write_to_string", "load_from_string"],
             "bound": "models built through the API: 10-24 placed children + up to 19 new elements over three insert / sort_new_items / write cycles: load(write(M)) == M", "timeout": 400, "extra_modules": ["tokenizer", "sort"], "max_steps": 150000000, "must_cover": ["sort_new_many_children_end"]},
            {"engine": "E2", "module": "lib", "harness": "h_ifdata_soup_known_d20", "known": "D20", "functions": ["load_from_string", "A2lFile::write_to_string"],
             "bound": "the recorded input of known finding D20", "timeout": 200, "extra_modules": ["tokenizer"]},
        ],
    },
    "C07": {
        "grammar_deviations": True,
        "files": ["a2lfile/src/parser.rs"],
        "trusted": T_STD,
        "assumptions": ["the enclosing block is represented by its stop list {S, T} (each block's real TAG_LIST is outside the claim)",
                        "preconditions of the property: the payload does not reuse a tag of the enclosing block; a bare unknown keyword is not placed behind an open-ended identifier list",
                        "a comment directly in front of the next known element may be left to the enclosing block (both are accepted)"],
        "jobs": [
            {"engine": "E2", "module": "parser", "harness": "h_unknown_%s_%d" % (k, n), "functions": ["parser::ParserState::handle_unknown_taggedstruct_tag", "parser::ParserState::error_or_log", "parser::ParserState::get_token", "parser::ParserState::undo_get_token"],
             "bound": ("unknown keyword with %d arguments" % n if k == "kw" else "unknown block with %d items (scalars, comments, nested unknown blocks of depth <= 2)" % n) + ", symbolic identifiers, symbolic strictness, followed by {known tag, /begin known tag, parent /end}",
             "timeout": 300, "quick": n <= 2, "extra_modules": ["tokenizer"], "must_cover": ["non-strict run"]}
            for k in ("kw", "block") for n in (0, 1, 2, 3)
        ] + [
            {"engine": "E2", "module": "lib", "harness": "h_unknown_before_element_0", "functions": ["parser::ParserState::handle_unknown_taggedstruct_tag", "specification::*::parse (TAG_LIST of every block of the grammar)"],
             "bound": "documents k = 0 (mod 2) of 265: an unknown keyword with three arguments directly in front of every element of the reference grammar inside its real parent (parents with an open-ended identifier list excluded)", "timeout": 600, "extra_modules": ["tokenizer"], "max_steps": 6000000, "validate": 20, "must_cover": ["unknown-element documents are in place"]},
            {"engine": "E2", "module": "lib", "harness": "h_unknown_before_element_1", "functions": ["parser::ParserState::handle_unknown_taggedstruct_tag", "specification::*::parse (TAG_LIST of every block of the grammar)"],
             "bound": "documents k = 1 (mod 2) of 265", "timeout": 600, "extra_modules": ["tokenizer"], "max_steps": 6000000, "validate": 20, "must_cover": ["unknown-element documents are in place"]},
            {"engine": "E2", "module": "lib", "harness": "h_unknown_in_real_blocks", "functions": ["load_from_string", "parser::ParserState::handle_unknown_taggedstruct_tag", "specification::{Module,RecordLayout,Measurement,Characteristic,AxisDescr,CompuMethod}::parse (their TAG_LISTs)"],
             "bound": "18 insertion points inside MODULE / RECORD_LAYOUT / MEASUREMENT / CHARACTERISTIC / AXIS_DESCR / COMPU_METHOD x 4 unknown payloads; model equality with the document without the element", "timeout": 600, "extra_modules": ["tokenizer"], "validate": 72},
        ],
    },
    "C05": {
        "files": ["a2lfile/src/parser.rs", "a2lfile/src/tokenizer.rs", "a2lfile/src/writer.rs", "a2lfile/src/specification.rs", "a2lfile/src/lib.rs"],
        "trusted": T_STD,
        "assumptions": ["whole pipeline (load_from_string -> write_to_string) executed on a template document (PROJECT/MODULE/MEASUREMENT with ECU_ADDRESS/UNIT) whose layout is chosen symbolically per gap; only these element kinds' generated parsers/writers are exercised",
                        "edit locality (single-field edits) is outside the claim"],
        "jobs": [
            {"engine": "E2", "module": "lib", "harness": "h_layout_inner", "functions": ["load_from_string", "tokenizer::tokenize_core", "parser::ParserState::get_line_offset", "specification::{A2lFile,Project,Module,Measurement,EcuAddress}::parse/stringify", "writer::Writer::add_whitespace", "writer::Writer::add_group", "A2lFile::write_to_string"],
             "bound": "4 gaps inside a MEASUREMENT, each from {space, LF, blank line, CRLF} (256 layouts)", "timeout": 400, "extra_modules": ["tokenizer"], "validate": 40},
            {"engine": "E2", "module": "lib", "harness": "h_layout_blocks", "functions": ["load_from_string", "tokenizer::tokenize_core", "parser::ParserState::get_line_offset", "parser::ParserState::get_next_tag_or_comment", "writer::Writer::add_group", "A2lFile::write_to_string"],
             "bound": "3 gaps between block-level elements, each from {LF, blank line, block comment, line comment, multi-line block comment, inline block comment, CRLF} (343 layouts)", "timeout": 400, "extra_modules": ["tokenizer"], "validate": 40},
            {"engine": "E2", "module": "lib", "harness": "h_layout_ifdata", "functions": ["load_from_string", "tokenizer::handle_a2ml", "ifdata::parse_unknown_ifdata_start", "ifdata::parse_unknown_taggedstruct", "a2ml::GenericIfData::write_item", "A2ml::stringify"],
             "bound": "0-2 blank lines before /end A2ML x 4 gaps inside an uninterpreted IF_DATA with two nested blocks, each from {space, LF, blank line, CRLF} (768 layouts)", "timeout": 600, "extra_modules": ["tokenizer"], "validate": 40, "quick": False},
            {"engine": "E2", "module": "lib", "harness": "h_layout_ifdata_small", "functions": ["load_from_string", "tokenizer::handle_a2ml", "ifdata::parse_unknown_taggedstruct", "a2ml::GenericIfData::write_item"],
             "bound": "0-2 blank lines before /end A2ML x 2 gaps (before /end INNER, before /end OUTER) from {space, LF, blank line, CRLF} (48 layouts)", "timeout": 400, "extra_modules": ["tokenizer"], "validate": 20},
            {"engine": "E2", "module": "lib", "harness": "h_every_element_x2", "msg_prefix": "C05", "functions": ["load_from_string", "A2lFile::write_to_string", "specification::*::parse / stringify with two entries in every list"],
             "bound": "the every-element document with every repeatable element twice (~2400 lines): strict load, byte-identical write, reload equal (== and field by field), second write identical", "timeout": 900, "extra_modules": ["tokenizer"], "max_steps": 1500000000, "quick": False,
             "must_cover": ["generated document and fingerprint module are in place"]},
            {"engine": "E2", "module": "lib", "harness": "h_every_element_layout", "msg_prefix": "C05", "functions": ["load_from_string", "A2lFile::write_to_string", "specification::*::parse / stringify of every element (item_location slots)", "writer::Writer::add_whitespace"],
             "bound": "the every-element document with staggered parameter positions (same line / next line / blank line in rotation; 1093 lines): reproduced byte for byte", "timeout": 900, "extra_modules": ["tokenizer"], "max_steps": 300000000,
             "must_cover": ["generated document and fingerprint module are in place"]},
            {"engine": "E2", "module": "lib", "harness": "h_layout_sequences", "functions": ["load_from_string", "A2lFile::write_to_string", "writer::Writer::add_whitespace", "specification::{InMeasurement,CompuVtab,MemoryLayout,AnnotationText,FixAxisParList}::parse / stringify (item_location of sequences and arrays)"],
             "bound": "3 gaps between list items, each from {same line, next line, blank line}, applied to an identifier list, a value-pair list, a long[5] array, a string list and a float list (27 layouts)", "timeout": 300, "extra_modules": ["tokenizer"], "must_cover": ["layout_sequences_end"]},
            {"engine": "E2", "module": "lib", "harness": "h_every_element_roundtrip", "msg_prefix": "C05", "functions": ["load_from_string", "A2lFile::write_to_string", "writer::Writer::*", "specification::*::stringify of every element"],
             "bound": "the every-element document (writer's own format, 465 lines, hex and decimal notation alternating): reproduced byte for byte", "timeout": 900, "extra_modules": ["tokenizer"], "max_steps": 300000000,
             "must_cover": ["generated document and fingerprint module are in place"]},
            {"engine": "E2", "module": "lib", "harness": "h_comment_layout_lineends", "msg_prefix": "C05", "functions": ["load_from_string", "tokenizer::tokenize_core", "tokenizer::count_newlines", "parser::ParserState::get_line_offset", "writer::Writer::add_group", "A2lFile::write_to_string"],
             "bound": "block comment with 0..=3 inner line breaks x 0..=2 line breaks behind it x 3 positions (file head, in front of /begin MODULE, in front of /end MODULE) x line ends {LF, CRLF, CR} x comment in column 0 / indented by blanks / by a tab (324 documents)", "timeout": 300, "extra_modules": ["tokenizer"], "must_cover": ["comment_layout_end"]},
        ],
    },
    "C11": {
        "files": ["a2lfile/src/checker.rs", "a2lfile/src/module.rs", "a2lfile/src/itemlist.rs", "a2lfile/src/lib.rs"],
        "trusted": T_STD,
        "assumptions": ["modules are built by loading a template text through the real parser inside the symbolic executor; 41 reference sites of the grammar are populated (list in harness/lib.rs consistent_module)",
                        "soundness/completeness is decided per single corrupted site; THIS. references and group structure rules are not part of this check"],
        "jobs": [
            {"engine": "E2", "module": "lib", "harness": "h_check_refs", "functions": ["A2lFile::check", "checker::check", "checker::check_*", "module::Module::objects/compu_tabs/typedefs", "load_from_string"],
             "bound": "fully consistent template module, and each of its 41 reference sites corrupted alone (42 cases)", "timeout": 600, "extra_modules": ["tokenizer"], "validate": 42},
            {"engine": "E2", "module": "lib", "harness": "h_check_this_refs", "functions": ["checker::check_axis_descr_refs", "checker::is_valid_structure_component", "checker::check_typedef_characteristic"],
             "bound": "TYPEDEF_CHARACTERISTIC with AXIS_PTS_REF THIS.ax used in 1 or 2 TYPEDEF_STRUCTUREs, each with or without the component (8 cases)", "timeout": 300, "extra_modules": ["tokenizer"]},
            {"engine": "E2", "module": "lib", "harness": "h_check_object_namespace", "functions": ["A2lFile::check", "checker::check_function", "checker::check_group", "checker::check_transformer", "checker::check_reference_list", "module::Module::objects"],
             "bound": "9 object-reference sites (FUNCTION IN/OUT/LOC_MEASUREMENT, DEF/REF_CHARACTERISTIC, GROUP REF_CHARACTERISTIC / REF_MEASUREMENT, TRANSFORMER in / out objects) x 5 object kinds x target defined / missing (90 modules)", "timeout": 300, "extra_modules": ["tokenizer"], "must_cover": ["check_object_namespace_end"]},
            {"engine": "E2", "module": "lib", "harness": "h_check_namespaces", "functions": ["A2lFile::check", "checker::check_compu_method", "checker::check_instance", "checker::check_typedef_structure", "module::Module::compu_tabs", "module::Module::typedefs"],
             "bound": "{COMPU_TAB_REF, STATUS_STRING_REF} x 3 table kinds and {INSTANCE type, STRUCTURE_COMPONENT type} x 5 typedef kinds, target defined / missing (32 modules)", "timeout": 300, "extra_modules": ["tokenizer"], "must_cover": ["check_namespaces_end"]},
            {"engine": "E2", "module": "lib", "harness": "h_check_conventions", "functions": ["checker::check"],
             "bound": "one module using NO_COMPU_METHOD / NO_INPUT_QUANTITY / NO_INVERSE_TRANSFORMER at every site that allows them", "timeout": 200, "extra_modules": ["tokenizer"]},
            {"engine": "E2", "module": "lib", "harness": "h_check_axis_descr_count", "functions": ["checker::check_characteristic_common", "checker::check_axis_descr"],
             "bound": "CHARACTERISTIC with 0..=7 AXIS_DESCR of attribute STD_AXIS / FIX_AXIS / COM_AXIS (24 cases): check() is total", "timeout": 300, "extra_modules": ["tokenizer"]},
        ],
    },
    "C10": {
        "files": ["a2lfile/src/cleanup.rs", "a2lfile/src/cleanup/groups.rs", "a2lfile/src/cleanup/functions.rs", "a2lfile/src/cleanup/compu_methods.rs", "a2lfile/src/cleanup/record_layouts.rs", "a2lfile/src/itemlist.rs"],
        "trusted": T_STD,
        "assumptions": ["modules are built by loading template texts through the real parser inside the symbolic executor",
                        "each case keeps one helper alive from exactly one reference site (14 sites incl. STATUS_STRING_REF, AXIS_DESCR in TYPEDEF_CHARACTERISTIC, INSTANCE OVERWRITE, S_REC_LAYOUT, USER_RIGHTS) next to one unreferenced helper of every kind"],
        "jobs": [
            {"engine": "E2", "module": "lib", "harness": "h_cleanup_sites", "functions": ["A2lFile::cleanup", "cleanup::cleanup", "cleanup::groups::*", "cleanup::functions::*", "cleanup::compu_methods::*", "cleanup::record_layouts::cleanup", "checker::check"],
             "bound": "16 template modules (baseline + 14 single keeping sites + a helper whose only referrer is removed); cleanup applied twice", "timeout": 400, "extra_modules": ["tokenizer"], "validate": 15},
            {"engine": "E2", "module": "lib", "harness": "h_cleanup_unit_chain", "functions": ["cleanup::compu_methods::remove_unused_sub_elements"],
             "bound": "REF_UNIT chains of length 0..=5, anchored in a used COMPU_METHOD or not, defined front-to-back or back-to-front; cleanup applied twice", "timeout": 200, "extra_modules": ["tokenizer"]},
            {"engine": "E2", "module": "lib", "harness": "h_cleanup_function_chain", "functions": ["A2lFile::cleanup", "cleanup::functions::cleanup", "cleanup::functions::get_used_functions"],
             "bound": "SUB_FUNCTION chains of 1..=3 FUNCTIONs x user position or none x user site {MEASUREMENT, CHARACTERISTIC, AXIS_PTS, GROUP FUNCTION_LIST} x last function without members / with members / with references to objects that do not exist (108 modules); cleanup twice", "timeout": 300, "extra_modules": ["tokenizer"], "must_cover": ["cleanup_function_chain_end"]},
            {"engine": "E2", "module": "lib", "harness": "h_cleanup_group_chain", "functions": ["A2lFile::cleanup", "cleanup::groups::cleanup", "cleanup::groups::delete_empty_groups", "cleanup::groups::get_used_groups"],
             "bound": "SUB_GROUP chains of 1..=3 GROUPs, USER_RIGHTS naming any position or none, last group with / without members (18 modules); cleanup twice", "timeout": 300, "extra_modules": ["tokenizer"], "must_cover": ["cleanup_group_chain_end"]},
        ],
    },
    "C09": {
        "files": ["a2lfile/src/merge.rs", "a2lfile/src/module.rs", "a2lfile/src/itemlist.rs", "a2lfile/src/lib.rs"],
        "trusted": T_STD,
        "assumptions": ["modules are built by loading template texts through the real parser inside the symbolic executor",
                        "oracle: after merging B into an A that conflicts on every name, every element of B must be present under NAME.MERGE and be equal to B's element with every reference rewritten to TARGET.MERGE (comparison of whole elements, so every reference field of the populated sites is covered at once)"],
        "jobs": [
            {"engine": "E2", "module": "lib", "harness": "h_merge_scenarios", "msg_prefix": "C09", "functions": ["A2lFile::merge_modules", "merge::merge_modules", "merge::merge_*", "merge::rename_*", "merge::calculate_item_actions", "merge::make_unique_name", "checker::check"],
             "bound": "5 scenarios on a template module with 30+ populated reference sites: all names conflict / identical copy / disjoint names / into empty / from empty", "timeout": 600, "extra_modules": ["tokenizer"], "validate": 5},
            {"engine": "E2", "module": "lib", "harness": "h_merge_named_union", "msg_prefix": "C09", "functions": ["merge::merge_function", "merge::merge_group", "merge::merge_user_rights", "merge::merge_variant_coding", "merge::rename_objects"],
             "bound": "FUNCTION / GROUP / USER_RIGHTS / VARIANT_CODING from B referring to objects that are renamed by the merge (2 scenarios)", "timeout": 600, "extra_modules": ["tokenizer"], "validate": 2},
            {"engine": "E2", "module": "lib", "harness": "h_merge_unique_name", "msg_prefix": "C09", "functions": ["merge::make_unique_name", "merge::calculate_item_actions", "merge::merge_unit", "merge::rename_unit_refs"],
             "bound": "UNIT namespace with pre-existing X.MERGE / X.MERGE2 names in A and/or B (symbolic presence bits), conflicting X, one COMPU_METHOD of B per unit of B: every REF_UNIT still designates B's unit", "timeout": 400, "extra_modules": ["tokenizer"]},
            {"engine": "E2", "module": "lib", "harness": "h_merge_same_name_across_namespaces", "functions": ["merge::merge_modules", "merge::rename_*", "merge::merge_function", "merge::merge_group", "merge::merge_frame", "merge::merge_transformer", "checker::check"],
             "bound": "one name used in all ten namespaces with every kind of reference populated; exactly one of 8 renaming namespaces conflicts between A and B: no dangling reference afterwards, references into the other namespaces keep the plain name", "timeout": 400, "extra_modules": ["tokenizer"], "max_steps": 40000000, "must_cover": ["merge_same_name_end"]},
            {"engine": "E2", "module": "lib", "harness": "h_merge_twin_refs", "functions": ["merge::merge_objects", "merge::calculate_item_actions", "merge::rename_objects", "merge::rename_typedef_refs"],
             "bound": "B's element textually identical to A's but referring to a MEASUREMENT that the merge renames: TYPEDEF_AXIS twin reached through an INSTANCE (object twin AXIS_PTS: known finding D22)", "timeout": 300, "extra_modules": ["tokenizer"]},
            {"engine": "E2", "module": "lib", "harness": "h_merge_twin_refs_known_d22", "known": "D22", "functions": ["merge::merge_objects"],
             "bound": "the recorded scenario of known finding D22", "timeout": 200, "extra_modules": ["tokenizer"]},
        ],
    },
    "C08": {
        "files": ["a2lfile/src/merge.rs", "a2lfile/src/module.rs", "a2lfile/src/itemlist.rs", "a2lfile/src/lib.rs"],
        "trusted": T_STD,
        "assumptions": ["same harnesses as C09; only the conservation / uniqueness assertions (messages starting with C08) count here"],
        "jobs": [
            {"engine": "E2", "module": "lib", "harness": "h_merge_scenarios", "msg_prefix": "C08", "functions": ["A2lFile::merge_modules", "merge::merge_modules", "merge::calculate_item_actions", "merge::make_unique_name", "module::Module::objects/compu_tabs/typedefs"],
             "bound": "5 scenarios: all names conflict / identical copy / disjoint names / into empty / from empty", "timeout": 600, "extra_modules": ["tokenizer"], "validate": 5},
            {"engine": "E2", "module": "lib", "harness": "h_merge_unique_name", "msg_prefix": "C08", "functions": ["merge::make_unique_name", "merge::calculate_item_actions", "merge::merge_unit"],
             "bound": "UNIT namespace with pre-existing X.MERGE / X.MERGE2 names in A and/or B (symbolic presence bits), conflicting X", "timeout": 400, "extra_modules": ["tokenizer"]},
            {"engine": "E2", "module": "lib", "harness": "h_merge_named_union", "msg_prefix": "C08", "functions": ["merge::merge_function", "merge::merge_group"],
             "bound": "same-name FUNCTION / GROUP: A's element without members and with own attributes, B's with members (plus the 2 renaming scenarios)", "timeout": 600, "extra_modules": ["tokenizer"]},
            {"engine": "E2", "module": "lib", "harness": "h_merge_unnamed_parts", "functions": ["merge::merge_a2ml", "merge::merge_mod_par", "merge::merge_mod_common", "merge::merge_if_data", "merge::merge_user_rights", "merge::merge_variant_coding"],
             "bound": "A2ML / MOD_PAR / MOD_COMMON / VARIANT_CODING and IF_DATA / USER_RIGHTS present or absent in A (4) and B (3): A's parts unchanged, parts only B has are taken over, second merge changes nothing (12 pairs)", "timeout": 300, "extra_modules": ["tokenizer"], "must_cover": ["merge_unnamed_parts_end"]},
            {"engine": "E2", "module": "lib", "harness": "h_merge_cross_kind", "msg_prefix": "C08", "functions": ["merge::merge_objects", "merge::merge_compu_tab", "module::Module::objects", "module::Module::compu_tabs", "module::Module::typedefs"],
             "bound": "same name used by elements of different kinds of one namespace in A and B (object kinds, table kinds, typedef kinds; symbolic kind choice)", "timeout": 400, "extra_modules": ["tokenizer"]},
        ],
    },
    "C17": {
        "files": ["a2lfile/src/loader.rs", "a2lfile/src/lib.rs"],
        "trusted": T_STD + ["E2 models of String::from_utf8 / from_utf16 / char::from_u32 (std decoders are modelled, not executed)", "file access modelled by a per-path virtual file system (File::open / read_data)"],
        "assumptions": ["characters: first one ASCII non-NUL, the others any Unicode scalar value except NUL and U+FEFF; k <= 3 characters",
                        "Latin-1 fallback is asserted for odd lengths (where neither UTF-16 nor UTF-32 detection applies)"],
        "jobs": [
            {"engine": "E2", "module": "loader", "harness": "h_encoding_%d" % k, "functions": ["loader::load", "loader::decode_raw_bytes"],
             "bound": "%d symbolic scalar values x 10 encodings (UTF-8/16LE/16BE/32LE/32BE, each with and without BOM)" % k, "timeout": 300}
            for k in (1, 2, 3)
        ] + [
            {"engine": "E2", "module": "loader", "harness": "h_decode_raw_%d" % n, "functions": ["loader::decode_raw_bytes"],
             "bound": "every byte string of length %d: no panic; odd length and not UTF-8 => Latin-1" % n, "timeout": 300, "quick": n <= 3}
            for n in (1, 2, 3, 4)
        ],
    },
    "C16": {
        "files": ["a2lfile/src/tokenizer.rs", "a2lfile/src/loader.rs", "a2lfile/src/writer.rs", "a2lfile/src/parser.rs", "a2lfile/src/specification.rs", "a2lfile/src/lib.rs"],
        "trusted": T_STD + ["file access modelled by a per-path virtual file system with directories (File::open / read_data / Path::exists; root = current directory); std::path operations (parent, join, is_absolute) are modelled on concrete strings; make_include_filename is executed from MIR"],
        "assumptions": ["documents of three block-level elements split at element boundaries into main file + inc1 + inc2 (inc2 included from inc1); quoted and unquoted names; all files in one directory",
                        "A2ML includes, sub-directories and path separators are outside the claim"],
        "jobs": [
            {"engine": "E2", "module": "lib", "harness": "h_include_transparent", "functions": ["load", "tokenizer::tokenize", "parser::ParserState::get_incfilename", "writer::Writer::add_group", "A2lFile::write_to_string", "A2lObject::merge_includes", "loader::load"],
             "bound": "36 splittings x {quoted, unquoted} x {with, without a further include behind the nested one}", "timeout": 400, "extra_modules": ["tokenizer"], "validate": 36},
            {"engine": "E2", "module": "lib", "harness": "h_include_missing", "functions": ["load", "tokenizer::tokenize", "loader::load"],
             "bound": "missing include file, directly or nested, quoted or unquoted", "timeout": 200, "extra_modules": ["tokenizer"]},
            {"engine": "E2", "module": "lib", "harness": "h_include_in_ifdata", "functions": ["load", "tokenizer::tokenize (include handling)", "ifdata::parse_ifdata", "a2ml::GenericIfData::merge_includes", "a2ml::GenericIfData::write", "A2lFile::merge_includes"],
             "bound": "an /include inside an IF_DATA block: with / without A2ML definition x quoted / unquoted x which of three content parts (keyword item, block item, repeated items) comes from the include file (12 file systems)", "timeout": 400, "extra_modules": ["tokenizer"], "must_cover": ["include_in_ifdata_end"], "validate": 12},
            {"engine": "E2", "module": "lib", "harness": "h_include_edge_cases", "functions": ["load", "tokenizer::tokenize (include handling)", "A2lFile::write_to_string", "A2lFile::merge_includes"],
             "bound": "include file {empty, only a comment, only white space, two elements, element + trailing comment} x directive {first, middle, last item of MODULE} x quoted / unquoted (30 file systems)", "timeout": 400, "extra_modules": ["tokenizer"], "must_cover": ["include_edge_cases_end"], "validate": 30},
            {"engine": "E2", "module": "lib", "harness": "h_include_paths", "functions": ["load", "loader::make_include_filename", "loader::load", "tokenizer::tokenize (include handling)", "a2ml::tokenize_include", "A2lFile::write_to_string", "A2lFile::merge_includes"],
             "bound": "main file in the current directory or one below x separator / or \\ x quoted / unquoted x with / without an A2ML include inside the included fragment; nested include in a sub-directory with decoy files of the same name next to the main file and in the current directory (16 file systems)", "timeout": 400, "extra_modules": ["tokenizer"], "must_cover": ["include_paths_end"], "validate": 16},
        ],
    },
    "C06": {
        "files": ["a2lfile/src/parser.rs", "a2lfile/src/lib.rs", "a2lfile/src/specification.rs"],
        "trusted": T_STD,
        "assumptions": ["one document per fault kind (18 kinds, among them: none, identifier for string, unknown keyword, multiplicity, block form, unknown enum value, missing parameter, element newer than file version, older version without fault, identifier starting with a digit, additional tokens); no IF_DATA",
                        "the error_or_log call sites inside generated element parsers are reached by the template (18 fault kinds) and by the generated documents: the end-tag site of every block element (quick), multiplicity / version / required-element sites of every element (thorough)"],
        "jobs": [
            {"engine": "E2", "module": "lib", "harness": "h_strict_vs_nonstrict", "functions": ["load_from_string", "parser::ParserState::parse_file", "parser::ParserState::error_or_log", "parser::ParserState::get_string", "parser::ParserState::get_identifier", "parser::ParserState::handle_multiplicity_error", "parser::ParserState::check_block_version_lower", "parser::ParserState::handle_unknown_taggedstruct_tag", "specification::Measurement::parse"],
             "bound": "18 fault kinds (incl. missing / unknown ASAP2_VERSION, wrong end tag of A2ML / IF_DATA / an ordinary block, PROJECT without MODULE, deprecated enum value) x {faulty element on one line, first parameter on the next line}, each loaded with strict = true and strict = false; diagnostics must name the line of the faulty token", "timeout": 300, "extra_modules": ["tokenizer"], "validate": 26},
        ] + [
            {"engine": "E2", "module": "parser", "harness": h, "functions": ["parser::ParserState::handle_unknown_taggedstruct_tag", "parser::ParserState::error_or_log"],
             "bound": "unknown tag + every 1..3-lexeme soup, strictness symbolic: strict never accepts", "timeout": 300, "extra_modules": ["tokenizer"]}
            for h in ("h_unknown_soup_1", "h_unknown_soup_2", "h_unknown_soup_3")
        ] + [
            {"engine": "E2", "module": "lib", "harness": "h_strict_vs_nonstrict_end_tags", "functions": ["load_from_string", "<generated> *::parse (end tag check of every block)", "parser::ParserState::error_or_log"],
             "bound": "one document per block element of the reference grammar (72) whose /end names another tag: strict rejects, non-strict recovers with a diagnostic", "timeout": 400, "extra_modules": ["tokenizer"], "must_cover": ["c06 generated documents are in place"], "validate": 12},
            {"engine": "E2", "module": "lib", "harness": "h_strict_vs_nonstrict_recoverable", "functions": ["load_from_string", "<generated> *::parse", "parser::ParserState::error_or_log", "parser::ParserState::handle_multiplicity_error", "parser::ParserState::check_block_version_lower", "parser::ParserState::check_enumitem_version_lower"],
             "bound": "every generated document with one recoverable problem (about 410: element too often, element / enum value newer than the file version, required element missing, wrong end tag), each loaded with strict = true and strict = false", "timeout": 900, "extra_modules": ["tokenizer"], "quick": False, "must_cover": ["c06 generated documents are in place"], "validate": 12},
        ],
        "grammar_deviations": True,
    },
    "C19": {
        "files": ["a2lmacros/src/a2mlspec.rs", "a2lmacros/src/codegenerator/data_structure.rs", "a2lmacros/src/codegenerator/ifdata_parser.rs", "a2lmacros/src/codegenerator/ifdata_writer.rs", "a2lmacros/src/util.rs", "a2lfile/src/a2ml.rs", "a2lfile/src/ifdata.rs"],
        "trusted": T_STD + ["rustfmt (pretty-prints the generated token stream so that every generated impl has its own span)", "proc_macro2 fallback implementation (the generator runs as a test of the scratch copy of a2lmacros, outside the compiler)"],
        "intree_macros": True,
        "assumptions": ["two fixed invocations of the in-tree generator a2lmacros::a2mlspec::a2ml_specification (the function behind the proc macro), re-run on the current tree on every check: VSpec (IF_DATA = taggedunion with every scalar type, char array, numeric array, enum reference, struct reference, block taggedstruct with optional/repeated members and blocks, block sequences of strings and of structs, tag without data) and WSpec (IF_DATA = struct with doc comments, anonymous enum, enum/taggedunion/taggedstruct references, repeated struct member)",
                        "sequences of integers '(uint x)*' are not in the invocations: the generator emits code that does not compile for them (observed, a compile-time defect outside this property's behavioural statement)",
                        "typed values: symbolic content of every scalar member for store->load; for the trips through text integer extremes by choice with at most two symbolic 8-bit fields and symbolic string characters (printable ASCII without quote and backslash)",
                        "shape mismatch family: 12 in-file definitions (shorter/longer arrays, other scalar types, missing members, other enum, struct instead of taggedstruct, other sequence element)"],
        "jobs": [
            {"engine": "E2", "module": "ifdata", "harness": "h_c19_store_load", "functions": ["<generated> VSpec::store_to_ifdata", "<generated> VSpec::load_from_ifdata", "<generated> *::store", "<generated> *::parse", "a2ml::GenericIfData::get_*"],
             "bound": "every member kind of VSpec, all values of every scalar member (symbolic), strings of 2 symbolic chars, 0..=2 repeated items", "timeout": 300, "must_cover": ["c19_store_load_end"]},
            {"engine": "E2", "module": "ifdata", "harness": "h_c19_spec2_store_load", "functions": ["<generated> WSpec::store_to_ifdata", "<generated> WSpec::load_from_ifdata"],
             "bound": "WSpec: 2x3 enum values x 3 union states x 0..=2 repeated items x optional members, symbolic 8-bit scalars", "timeout": 300, "must_cover": ["c19_spec2_store_load_end"]},
            {"engine": "E2", "module": "ifdata", "harness": "h_c19_text_roundtrip", "functions": ["<generated> VSpec::store_to_ifdata", "<generated> VSpec::update_a2ml", "<generated> VSPEC_TEXT", "A2lFile::write_to_string", "load_from_string", "a2ml::parse_a2ml", "ifdata::parse_ifdata_item", "<generated> VSpec::load_from_ifdata"],
             "bound": "every member kind of VSpec, integer extremes by choice + symbolic 8-bit fields, 3 float pairs, symbolic string chars; strict reload", "timeout": 400, "must_cover": ["c19_text_roundtrip_end"], "max_steps": 4000000},
            {"engine": "E2", "module": "ifdata", "harness": "h_c19_spec2_text_roundtrip", "functions": ["<generated> WSpec::store_to_ifdata", "<generated> WSPEC_TEXT", "A2lFile::write_to_string", "load_from_string", "<generated> WSpec::load_from_ifdata"],
             "bound": "4 presets of WSpec with symbolic 8-bit scalars / string char; strict reload; load, store, write reproduces the text", "timeout": 400, "must_cover": ["c19_spec2_text_roundtrip_end"], "max_steps": 4000000},
            {"engine": "E2", "module": "ifdata", "harness": "h_c19_parsed_roundtrip", "functions": ["load_from_string", "<generated> VSpec::load_from_ifdata", "<generated> VSpec::store_to_ifdata", "A2lFile::write_to_string"],
             "bound": "18 instance texts (decimal/hex notation, every member kind, empty and populated blocks, members out of definition order, tags reused with other content)", "timeout": 300, "must_cover": ["c19_parsed_roundtrip_end"], "max_steps": 4000000},
            {"engine": "E2", "module": "ifdata", "harness": "h_c19_shape_mismatch", "functions": ["load_from_string", "<generated> VSpec::load_from_ifdata", "<generated> *::parse"],
             "bound": "12 mismatching in-file definitions with a conforming instance each: load_from_ifdata returns None, no panic", "timeout": 300, "must_cover": ["c19_shape_mismatch_end"], "max_steps": 4000000},
            {"engine": "E2", "module": "ifdata", "harness": "h_c19_text_constant_parses", "functions": ["a2ml::parse_a2ml", "<generated> VSPEC_TEXT"],
             "bound": "the generated text constant of VSpec", "timeout": 200, "must_cover": ["c19_text_constant_end"]},
        ],
    },
    "C04": {
        "files": ["a2lfile/src/specification.rs", "a2lfile/src/parser.rs"],
        "grammar_deviations": True,
        "trusted": T_STD + ["/verif/reference/a2l_grammar_dsl.txt: frozen copy of the specification DSL (body of a2l_specification! in specification_orig.rs at the pinned commit) as the reference grammar",
                            "/verif/vf/dslgen.py: instance and deviation generator over that DSL"],
        "assumptions": ["one document per (parent, element) pair of the reference grammar (273 pairs covering 203 of 205 elements) in its specified form (at version 1.71 and exactly at the lower version bound of every gated element / enum value: 365), and one per single deviation: last parameter missing (208), optional element twice (198), wrong block form (273), unknown enum value (59), element newer than the declared version (39), enum value newer than the declared version (61), deprecated element (2), required element missing (1): 1349 documents, each loaded strict and non-strict",
                        "values are one representative per parameter type (the symbolic value space of parameters is C02's subject); the deviation is at the last parameter / the first enum parameter; elements with an open-ended identifier list accept any error class for structural deviations (the list swallows what follows)",
                        "A2ML and IF_DATA content are outside (C18/C19)"],
        "jobs": [
            {"engine": "E2", "module": "lib", "harness": "h_grammar_%d" % c, "functions": ["load_from_string", "specification::*::parse of every element of the reference grammar", "parser::ParserState::{require_block,require_keyword,handle_multiplicity_error,check_block_version_lower,check_block_version_upper,check_enumitem_version_lower,get_integer,get_string,get_identifier,get_double}", "A2lFile::write_to_string"],
             "bound": "documents k = %d (mod 4) of the 1349 generated documents, strict and non-strict" % c, "timeout": 900, "extra_modules": ["tokenizer"], "max_steps": 6000000, "validate": 40,
             "must_cover": ["deviation documents are in place"]}
            for c in (0, 1, 2, 3)
        ] + [
            {"engine": "E2", "module": "lib", "harness": "h_grammar_readback_%d" % c, "functions": ["load_from_string", "specification::*::parse of every element of the reference grammar", "the public fields of the generated structs"],
             "bound": "documents k = %d (mod 2) of 273 (parent, element) documents: every parameter read from the model by the field name of the reference grammar equals the value in the document" % c, "timeout": 600, "extra_modules": ["tokenizer"], "max_steps": 6000000, "validate": 20,
             "must_cover": ["readback documents are in place"]}
            for c in (0, 1)
        ] + [
            {"engine": "E2", "module": "lib", "harness": "h_every_element_roundtrip", "functions": ["load_from_string", "specification::*::parse / stringify of every element of the grammar in one document"],
             "bound": "one document with every element of the grammar valid at version 1.71 (all _X.._5 variants side by side), generated from the DSL of the tree under check: strict load without diagnostics, values written back", "timeout": 900, "extra_modules": ["tokenizer"], "max_steps": 300000000,
             "must_cover": ["generated document and fingerprint module are in place"]},
            {"engine": "E2", "module": "lib", "harness": "h_grammar_versions", "functions": ["parser::ParserState::check_block_version_lower", "parser::ParserState::check_block_version_upper", "parser::ParserState::check_enumitem_version_lower", "parser::A2lVersion::new", "parser::ParserState::parse_version", "specification::*::parse of every version-gated element"],
             "bound": "111 version-gated (parent, element) / enum-value documents x the file version as solver variable over {1.50, 1.51, 1.60, 1.61, 1.70, 1.71} (two symbolic digits)", "timeout": 900, "extra_modules": ["tokenizer"], "max_steps": 6000000, "validate": 40,
             "must_cover": ["version-open documents are in place"]},
        ],
    },
    "C20": {
        "driver": "c20",
        "grammar_deviations": True,
        "files": ["a2lfile/src/specification.rs", "a2lfile/src/specification_orig.rs", "a2lmacros/src/lib.rs", "a2lmacros/src/a2lspec.rs", "a2lmacros/src/codegenerator.rs",
                  "a2lmacros/src/codegenerator/parser.rs", "a2lmacros/src/codegenerator/writer.rs", "a2lmacros/src/codegenerator/data_structure.rs"],
        "trusted": T_STD + ["rustfmt and proc_macro2's fallback implementation (the in-tree generator is run as a test of the scratch copy of a2lmacros, outside the compiler)",
                            "the hand-written head and tail of specification_orig.rs are used unchanged for the second build"],
        "assumptions": ["relational claim over the inputs of the observation harnesses only: one MEASUREMENT with symbolic version / data type / optional element / hex digits / strictness; the repository's sample document and the all-kinds module (load, write, sort, sort_new_items); 13 fault kinds x 2 layouts x 2 modes; unknown elements at 17 positions inside real blocks x 2 modes; check + merge + cleanup on the merge template",
                        "observations compared: load result, number of diagnostics, line of the first diagnostic / of the error, length of the error text, the written text byte for byte, and every public data field of the loaded model (fingerprint functions generated from the struct definitions of specification.rs)",
                        "the proc-macro glue in a2lmacros/src/lib.rs is not part of the second build (the generator function behind it is)"],
        "jobs": [
            {"engine": "E2", "module": "lib", "harness": "h_c20_measurement", "functions": ["specification::Measurement::parse / stringify", "specification::{A2lFile,Project,Module}::parse / stringify", "specification::{DataType,AddrType,ByteOrderEnum,IndexOrder}::parse", "parser::ParserState::check_block_version_*", "load_from_string", "A2lFile::write_to_string"],
             "bound": "6 file versions x 4 data type keywords x 9 optional elements x 2 symbolic hex digits over '09afAFg' x symbolic strictness", "timeout": 600, "extra_modules": ["tokenizer"], "max_steps": 4000000, "validate": 12},
            {"engine": "E2", "module": "lib", "harness": "h_c20_documents", "functions": ["specification::*::parse / stringify of every element kind in the sample document and in the all-kinds module", "A2lFile::sort", "A2lFile::sort_new_items"],
             "bound": "sample document strict / non-strict; all-kinds module load, write, sort, write, sort_new_items, write (3 concrete paths)", "timeout": 900, "extra_modules": ["tokenizer"], "max_steps": 80000000, "validate": 3},
            {"engine": "E2", "module": "lib", "harness": "h_c20_faults", "functions": ["specification::Measurement::parse", "parser::ParserState::error_or_log", "load_from_string"],
             "bound": "18 fault kinds x 2 layouts x strict / non-strict (72 documents)", "timeout": 400, "extra_modules": ["tokenizer"], "max_steps": 4000000, "validate": 10},
            {"engine": "E2", "module": "lib", "harness": "h_c20_unknown_elements", "functions": ["specification::{RecordLayout,Measurement,Characteristic,AxisDescr,CompuMethod,Module}::parse (TAG_LISTs)", "parser::ParserState::handle_unknown_taggedstruct_tag"],
             "bound": "3 unknown payloads x every insertion point of the C07 document x strict / non-strict", "timeout": 600, "extra_modules": ["tokenizer"], "max_steps": 6000000, "validate": 10},
            {"engine": "E2", "module": "lib", "harness": "h_c20_every_element", "functions": ["specification::*::parse / stringify of every element of the grammar (generated document)", "load_from_string", "A2lFile::write_to_string"],
             "bound": "the every-element document generated from the DSL (203 of 205 grammar elements), strict / non-strict: diagnostics, written text and every data field of the model (generated fingerprint)", "timeout": 900, "extra_modules": ["tokenizer"], "max_steps": 300000000, "validate": 2,
             "must_cover": ["generated document and fingerprint module are in place"]},
            {"engine": "E2", "module": "lib", "harness": "h_c20_deviations_q", "functions": ["specification::*::parse of every element of the reference grammar", "parser::ParserState::handle_multiplicity_error", "parser::ParserState::require_block / require_keyword"],
             "bound": "every 8th document of the C04 family (specified forms and single deviations) + every 'required element missing' document, strict / non-strict, observed on both builds", "timeout": 900, "extra_modules": ["tokenizer"], "max_steps": 6000000, "validate": 10,
             "must_cover": ["deviation documents are in place"]},
        ] + [
            {"engine": "E2", "module": "lib", "harness": "h_c20_deviations_%d" % c, "quick": False, "functions": ["specification::*::parse of every element of the reference grammar"],
             "bound": "documents k = %d (mod 8) of the C04 family, strict / non-strict, observed on both builds" % c, "timeout": 900, "extra_modules": ["tokenizer"], "max_steps": 6000000, "validate": 6,
             "must_cover": ["deviation documents are in place"]}
            for c in (1, 2, 3, 4, 5, 6, 7)
        ] + [
            {"engine": "E2", "module": "lib", "harness": "h_c20_versions", "quick": False, "functions": ["specification::*::parse of every version-gated element", "parser::ParserState::check_block_version_lower", "parser::ParserState::check_enumitem_version_lower"],
             "bound": "111 version-gated documents of the reference grammar x file version symbolic over the six ASAP2 versions x strict / non-strict, observed on both builds", "timeout": 900, "extra_modules": ["tokenizer"], "max_steps": 6000000, "validate": 10,
             "must_cover": ["version-open documents are in place"]},
            {"engine": "E2", "module": "lib", "harness": "h_c20_include_comment", "functions": ["load", "specification::{Module,Function}::parse (comments of included files)", "A2lFile::write_to_string", "A2lFile::merge_includes"],
             "bound": "an include file that holds comments and an element, included at MODULE level or inside a FUNCTION: diagnostics, written text before and after merge_includes observed on both builds", "timeout": 400, "extra_modules": ["tokenizer"], "max_steps": 6000000, "validate": 2},
            {"engine": "E2", "module": "lib", "harness": "h_c20_module_ops", "functions": ["A2lFile::check", "A2lFile::merge_modules", "A2lFile::cleanup", "generated PartialEq / A2lObjectName impls"],
             "bound": "merge template merged with a renamed copy of itself, then cleanup (1 concrete path)", "timeout": 600, "extra_modules": ["tokenizer"], "max_steps": 80000000, "validate": 1},
        ],
    },
    "C18": {
        "files": ["a2lfile/src/a2ml.rs", "a2lfile/src/ifdata.rs", "a2lfile/src/specification.rs", "a2lfile/src/lib.rs", "a2lfile/src/tokenizer.rs"],
        "trusted": T_STD,
        "assumptions": ["twelve A2ML definitions (struct with all scalar kinds / array / enum, taggedunion with block sequence, taggedstruct with repeated and optional members, arrays + 64 bit scalars, named struct reference, plain taggedunion, taggedunion nested in a struct, signed scalars) each with one conforming instance and one single-token deviation, LF and CRLF line ends; definition supplied in-file, and (LF only) as built-in specification",
                        "'all A2ML definitions' is not claimed - the set is a fixed bounded family"],
        "jobs": [
            {"engine": "E2", "module": "lib", "harness": "h_ifdata_definitions", "msg_prefix": "C18", "functions": ["load_from_string", "tokenizer::handle_a2ml", "a2ml::parse_a2ml", "ifdata::parse_ifdata", "ifdata::parse_ifdata_from_spec", "ifdata::parse_ifdata_item", "ifdata::parse_ifdata_taggedstruct", "ifdata::parse_unknown_ifdata_start", "a2ml::GenericIfData::write", "A2lFile::ifdata_cleanup"],
             "bound": "12 definitions x {conforming, deviating} x {LF, CRLF} (deviations incl. two members in a taggedunion; signed scalars in hex with the sign bit set; named enum with implicit values; nested structs and comments in the A2ML text; taggedstruct by reference; repeated block inside a block)", "timeout": 400, "extra_modules": ["tokenizer"], "validate": 20},
            {"engine": "E2", "module": "lib", "harness": "h_ifdata_cleanup_all_sites", "functions": ["A2lFile::ifdata_cleanup", "ifdata::remove_unknown_ifdata", "load_from_string", "A2lFile::write_to_string"],
             "bound": "the doubled every-element document (IF_DATA at every site of the grammar where it may stand, conforming and non-conforming blocks alternating): after ifdata_cleanup exactly the valid blocks remain", "timeout": 900, "extra_modules": ["tokenizer"], "max_steps": 1500000000,
             "must_cover": ["generated document and fingerprint module are in place", "IF_DATA of both kinds at many sites"]},
            {"engine": "E2", "module": "lib", "harness": "h_ifdata_builtin_spec", "functions": ["load_from_string (a2ml_spec argument)", "a2ml::parse_a2ml", "ifdata::parse_ifdata", "ifdata::parse_ifdata_from_spec", "A2lFile::ifdata_cleanup"],
             "bound": "12 definitions supplied as built-in specification x {conforming, deviating} instance; an invalid built-in specification is an error", "timeout": 400, "extra_modules": ["tokenizer"], "must_cover": ["ifdata_builtin_spec_end"], "validate": 16},
            {"engine": "E2", "module": "lib", "harness": "h_ifdata_empty_sequence", "functions": ["ifdata::parse_ifdata_item"],
             "bound": "3 definitions whose sequence element can match zero tokens, one IF_DATA block: loading terminates", "timeout": 300, "extra_modules": ["tokenizer"], "max_steps": 600000},
        ],
    },
}
