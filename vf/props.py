"""Property -> harness table. Each job names the engine, the module file the harness is injected into,
the real functions it drives, and the bound it states."""

T_STD = ["E2 std models in /verif/mirsym/models*.py (Vec/String/slice/str/Option/Result/iterators/HashMap as association list/core::fmt for str+int)",
         "z3 4.x (python3-vt) as decision procedure", "rustc nightly MIR dump (-Zunpretty=mir, overflow-checks=on) as the encoding of the real code"]

PROPS = {
    "C03": {
        "files": ["a2lfile/src/tokenizer.rs"],
        "trusted": T_STD,
        "assumptions": [],
        "jobs": [
            {"engine": "E2", "module": "tokenizer", "harness": "h_find_string_end_4", "functions": ["tokenizer::find_string_end"],
             "bound": "all byte strings of length 4, any start <= 4", "timeout": 120},
            {"engine": "E2", "module": "tokenizer", "harness": "h_find_string_end_6", "functions": ["tokenizer::find_string_end"],
             "bound": "all byte strings of length 6, any start <= 6", "timeout": 200, "quick": False},
        ],
    },
    "C13": {
        "files": ["a2lfile/src/itemlist.rs"],
        "trusted": T_STD + ["std HashMap modelled as an association list with the std contract (iteration order = insertion order)"],
        "assumptions": ["names are unique (stated by the property); item type is a harness-defined struct {name, tag} implementing A2lObjectName/A2lObjectNameSetter",
                        "pre-states: every list of 0..=3 items with symbolic, pairwise distinct one-byte names over {a,b,c,d}, built by the real push; induction over histories relies on this set being closed under the operations (checked by the post-condition being the same invariant)"],
        "jobs": [
            {"engine": "E2", "module": "itemlist", "harness": h, "functions": ["itemlist::ItemList::" + f], "timeout": 200,
             "bound": "one call from every list of <= 3 items; every argument symbolic (names over {a,b,c,d,z}, indices any usize)",
             "must_cover": mc}
            for h, f, mc in [
                ("h_il_push", "push", ["pre-state with 3 items"]), ("h_il_pop", "pop", []),
                ("h_il_swap_remove", "swap_remove", ["single-element list"]), ("h_il_swap_remove_idx", "swap_remove_idx", []),
                ("h_il_retain", "retain", []), ("h_il_truncate", "truncate", []), ("h_il_sort_by", "sort_by", []),
                ("h_il_rename_item", "rename_item", []), ("h_il_extend", "extend", []), ("h_il_clear", "clear", []),
                ("h_il_collect_clone_eq", "from_iter/clone/eq/first/last", []), ("h_il_get_mut_index_str", "get_mut/Index<&str>", []),
            ]
        ],
    },
}
